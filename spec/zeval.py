"""Evaluate a z3 real/bool term in Python floats (used to compute the *expected* number that is written into a replay
script, so that replays depend on nothing but the real library).  Supports + - * / If comparisons And Or Not Implies,
numerals, named constants (from `env`), sqrt witnesses (`witness[name] = argument term`), ToInt/ToReal, and the
uninterpreted np_* symbols via math."""
import math

import z3

_UF = {
    "np_exp": math.exp, "np_log": math.log, "np_cos": math.cos, "np_sin": math.sin, "np_tan": math.tan,
    "np_tanh": math.tanh, "np_sinh": math.sinh, "np_cosh": math.cosh, "np_arccos": math.acos, "np_arcsin": math.asin,
    "np_arctan": math.atan, "np_log10": math.log10, "np_log1p": math.log1p, "np_arccosh": math.acosh,
    "np_arcsinh": math.asinh, "np_arctanh": math.atanh, "np_pow": lambda a, b: math.pow(a, b), "np_arctan2": math.atan2,
}


def zeval(e, env, witness=None):
    witness = witness or {}
    cache = {}

    def ev(t):
        k = t.get_id()
        if k in cache:
            return cache[k]
        r = _ev(t)
        cache[k] = r
        return r

    def _ev(t):
        if z3.is_int_value(t):
            return float(t.as_long())
        if z3.is_rational_value(t):
            return t.numerator_as_long() / t.denominator_as_long()
        if z3.is_true(t):
            return True
        if z3.is_false(t):
            return False
        d = t.decl()
        kind = d.kind()
        ch = t.children()
        if kind == z3.Z3_OP_UNINTERPRETED:
            name = d.name()
            if not ch:
                if name in env:
                    return env[name]
                if name in witness:
                    a = ev(witness[name])
                    return math.sqrt(a) if a >= 0 else math.nan
                if name == "pi!const":
                    return math.pi
                raise KeyError(f"zeval: no value for {name}")
            f = _UF.get(name)
            if f is None:
                raise KeyError(f"zeval: uninterpreted {name}")
            try:
                return f(*[ev(c) for c in ch])
            except (ValueError, OverflowError):
                return math.nan
        if kind == z3.Z3_OP_ADD:
            return sum(ev(c) for c in ch)
        if kind == z3.Z3_OP_SUB:
            r = ev(ch[0])
            for c in ch[1:]:
                r -= ev(c)
            return r
        if kind == z3.Z3_OP_UMINUS:
            return -ev(ch[0])
        if kind == z3.Z3_OP_MUL:
            r = 1.0
            for c in ch:
                r *= ev(c)
            return r
        if kind in (z3.Z3_OP_DIV, z3.Z3_OP_IDIV):
            a, b = ev(ch[0]), ev(ch[1])
            if b == 0:
                return math.nan
            return a / b if kind == z3.Z3_OP_DIV else float(math.floor(a / b))
        if kind == z3.Z3_OP_ITE:
            return ev(ch[1]) if ev(ch[0]) else ev(ch[2])
        if kind == z3.Z3_OP_LE:
            return ev(ch[0]) <= ev(ch[1])
        if kind == z3.Z3_OP_LT:
            return ev(ch[0]) < ev(ch[1])
        if kind == z3.Z3_OP_GE:
            return ev(ch[0]) >= ev(ch[1])
        if kind == z3.Z3_OP_GT:
            return ev(ch[0]) > ev(ch[1])
        if kind == z3.Z3_OP_EQ:
            return ev(ch[0]) == ev(ch[1])
        if kind == z3.Z3_OP_DISTINCT:
            return ev(ch[0]) != ev(ch[1])
        if kind == z3.Z3_OP_AND:
            return all(ev(c) for c in ch)
        if kind == z3.Z3_OP_OR:
            return any(ev(c) for c in ch)
        if kind == z3.Z3_OP_NOT:
            return not ev(ch[0])
        if kind == z3.Z3_OP_IMPLIES:
            return (not ev(ch[0])) or ev(ch[1])
        if kind == z3.Z3_OP_TO_REAL:
            return float(ev(ch[0]))
        if kind == z3.Z3_OP_TO_INT:
            return float(math.floor(ev(ch[0])))
        if kind == z3.Z3_OP_MOD:
            a, b = ev(ch[0]), ev(ch[1])
            return a - b * math.floor(a / b)
        raise NotImplementedError(f"zeval: {d.name()} kind {kind}")

    return ev(e)
