"""Documented membership functions of the shape terms (transcribed from the class docstrings of fuzzylite/term.py),
as z3 real-arithmetic terms of *unit height* over a finite x.  Never imports fuzzylite.

Conventions
* `P` is a dict parameter-name -> z3 Real term (finite parameters) ; x is a z3 Real term.
* `ctx.sqrt(t)` returns a witness w constrained (as an *assumption* of the query) by  t >= 0 -> (w >= 0 and w*w == t):
  the square root is a function, so the assumption never restricts the inputs.
* transcendental functions are the uninterpreted symbols of the shim named after the documented function
  (exp, cos, pow) applied to the documented argument.
* `valid(P)`: the documented validity of the parameters (non-degenerate cases; degenerate/infinite cases are separate
  instances in the harness).
* `at_inf(P, sign)`: documented limit at x = +inf (sign=+1) / -inf (sign=-1), unit height.

Deviations from the literal docstrings, each deliberate (see DESIGN.md §1.6):
* ZShape: the docstring's first case reads `1`; the definition scaled by the height (what C03 states) is `h`.
* SigmoidDifference: the docstring reads h(a-b); the library (and the C++ original) take |a-b| so that the value stays
  in [0,h] when the two sigmoids cross; |a-b| is used.
* Binary: documented for direction = +-inf; the oracle follows that (direction > start <=> +inf).
* Concave with inflection == end is degenerate (the two documented cases contradict each other there) and excluded.
"""
import z3

from symfl import core


class Ctx:
    def __init__(self):
        self.assumptions = []
        self.witness = {}
        self._n = 0

    def sqrt(self, t):
        self._n += 1
        w = z3.Real(f"spec!sqrt!{self._n}")
        self.witness[f"spec!sqrt!{self._n}"] = t
        self.assumptions.append(z3.Implies(t >= 0, z3.And(w >= 0, w * w == t)))
        return w

    def uf1(self, name, t):
        e = core.uf(name)(t)
        if name == "exp":
            self.assumptions += [e > 0, z3.Implies(t == 0, e == 1), z3.Implies(t < 0, e < 1), z3.Implies(t > 0, e > 1)]
        elif name == "cos":
            p = self.pi()
            self.assumptions += [e >= -1, e <= 1, z3.Implies(t == 0, e == 1), z3.Implies(t == p, e == -1), z3.Implies(t == -p, e == -1)]
        return e

    def pow(self, a, b):
        e = core.uf("pow", 2)(a, b)
        self.assumptions += [z3.Implies(a >= 0, e >= 0), z3.Implies(b == 0, e == 1), z3.Implies(b == 1, e == a),
                             z3.Implies(z3.And(a == 0, b > 0), e == 0), z3.Implies(a == 1, e == 1)]
        return e

    def pi(self):
        return core.rv(__import__("math").pi)   # the documented pi, as the double the library can represent


def zabs(t):
    return z3.If(t < 0, -t, t)


def zmin(a, b):
    return z3.If(a <= b, a, b)


def zmax(a, b):
    return z3.If(a >= b, a, b)


def _arc(ctx, x, P):
    s, e = P["start"], P["end"]
    r = e - s
    body = ctx.sqrt(r * r - (x - e) * (x - e)) / zabs(r)
    inc = z3.If(x < s, 0, z3.If(x <= e, body, 1))
    dec = z3.If(x > s, 0, z3.If(x >= e, body, 1))
    return z3.If(s < e, inc, dec)


def _bell(ctx, x, P):
    c, w, s = P["center"], P["width"], P["slope"]
    return 1 / (1 + ctx.pow(zabs(x - c) / w, 2 * s))


def _binary(ctx, x, P):
    s, d = P["start"], P["direction"]     # d is +inf / -inf; passed as the comparison d > s (bool) by the harness
    return z3.If(z3.Or(z3.And(d, x >= s), z3.And(z3.Not(d), x <= s)), 1, 0)


def _concave(ctx, x, P):
    i, e = P["inflection"], P["end"]
    return z3.If(z3.And(i <= e, x < e), (e - i) / (2 * e - i - x),
                 z3.If(z3.And(i > e, x > e), (i - e) / (-2 * e + i + x), 1))


def _constant(ctx, x, P):
    return P["value"]


def _cosine(ctx, x, P):
    c, w = P["center"], P["width"]
    return z3.If(z3.And(c - w / 2 <= x, x <= c + w / 2), (1 + ctx.uf1("cos", 2 / w * ctx.pi() * (x - c))) / 2, 0)


def _gauss(ctx, x, m, sd):
    return ctx.uf1("exp", -((x - m) * (x - m)) / (2 * sd * sd))


def _gaussian(ctx, x, P):
    return _gauss(ctx, x, P["mean"], P["standard_deviation"])


def _gaussian_product(ctx, x, P):
    a = z3.If(x < P["mean_a"], _gauss(ctx, x, P["mean_a"], P["standard_deviation_a"]), 1)
    b = z3.If(x > P["mean_b"], _gauss(ctx, x, P["mean_b"], P["standard_deviation_b"]), 1)
    return a * b


def _sshape1(x, s, e):
    return z3.If(x <= s, 0, z3.If(x <= (s + e) / 2, 2 * ((x - s) / (e - s)) * ((x - s) / (e - s)),
                                  z3.If(x < e, 1 - 2 * ((x - e) / (e - s)) * ((x - e) / (e - s)), 1)))


def _zshape1(x, s, e):
    return z3.If(x <= s, 1, z3.If(x < (s + e) / 2, 1 - 2 * ((x - s) / (e - s)) * ((x - s) / (e - s)),
                                  z3.If(x < e, 2 * ((x - e) / (e - s)) * ((x - e) / (e - s)), 0)))


def _pishape(ctx, x, P):
    return _sshape1(x, P["bottom_left"], P["top_left"]) * _zshape1(x, P["top_right"], P["bottom_right"])


def _ramp(ctx, x, P):
    s, e = P["start"], P["end"]
    return z3.If(z3.And(s < x, x < e), (x - s) / (e - s),
                 z3.If(z3.And(e < x, x < s), (s - x) / (s - e),
                       z3.If(z3.And(s < e, x >= e), 1, z3.If(z3.And(s > e, x <= e), 1, 0))))


def _rectangle(ctx, x, P):
    s, e = zmin(P["start"], P["end"]), zmax(P["start"], P["end"])
    return z3.If(z3.And(s <= x, x <= e), 1, 0)


def _semiellipse(ctx, x, P):
    s, e = zmin(P["start"], P["end"]), zmax(P["start"], P["end"])
    r = (e - s) / 2
    c = s + r
    return z3.If(z3.And(s <= x, x <= e), ctx.sqrt(r * r - (x - c) * (x - c)) / r, 0)


def _sig(ctx, x, i, s):
    return 1 / (1 + ctx.uf1("exp", -s * (x - i)))


def _sigmoid(ctx, x, P):
    return _sig(ctx, x, P["inflection"], P["slope"])


def _sigmoid_difference(ctx, x, P):
    return zabs(_sig(ctx, x, P["left"], P["rising"]) - _sig(ctx, x, P["right"], P["falling"]))


def _sigmoid_product(ctx, x, P):
    return _sig(ctx, x, P["left"], P["rising"]) * _sig(ctx, x, P["right"], P["falling"])


def _spike(ctx, x, P):
    return ctx.uf1("exp", -zabs(10 / P["width"] * (x - P["center"])))


def _sshape(ctx, x, P):
    return _sshape1(x, P["start"], P["end"])


def _zshape(ctx, x, P):
    return _zshape1(x, P["start"], P["end"])


def _trapezoid(ctx, x, P):
    a, b, c, d = P["bottom_left"], P["top_left"], P["top_right"], P["bottom_right"]
    return z3.If(z3.Or(x < a, x > d), 0,
                 z3.If(z3.And(b <= x, x <= c), 1,
                       z3.If(x < b, (x - a) / (b - a), (d - x) / (d - c))))


def _triangle(ctx, x, P):
    a, b, c = P["left"], P["top"], P["right"]
    return z3.If(z3.Or(x < a, x > c), 0, z3.If(x == b, 1, z3.If(x < b, (x - a) / (b - a), (c - x) / (c - b))))


def _lt(a, b):
    return a < b


TERMS = {
    # name: (parameter names, valid(P), mu(ctx, x, P), at_inf(P, sign) -> z3 real (unit height), monotonic?)
    "Arc": (["start", "end"], lambda P: P["start"] != P["end"], _arc,
            lambda P, sg: z3.If(P["start"] < P["end"], 1 if sg > 0 else 0, 0 if sg > 0 else 1), True),
    "Bell": (["center", "width", "slope"], lambda P: z3.And(P["width"] > 0, P["slope"] > 0), _bell, lambda P, sg: 0, False),
    "Concave": (["inflection", "end"], lambda P: P["inflection"] != P["end"], _concave,
                lambda P, sg: z3.If(P["inflection"] < P["end"], 1 if sg > 0 else 0, 0 if sg > 0 else 1), True),
    "Cosine": (["center", "width"], lambda P: P["width"] > 0, _cosine, lambda P, sg: 0, False),
    "Gaussian": (["mean", "standard_deviation"], lambda P: P["standard_deviation"] > 0, _gaussian, lambda P, sg: 0, False),
    "GaussianProduct": (["mean_a", "standard_deviation_a", "mean_b", "standard_deviation_b"],
                        lambda P: z3.And(P["standard_deviation_a"] > 0, P["standard_deviation_b"] > 0), _gaussian_product,
                        lambda P, sg: 0, False),
    "PiShape": (["bottom_left", "top_left", "top_right", "bottom_right"],
                lambda P: z3.And(P["bottom_left"] < P["top_left"], P["top_left"] <= P["top_right"], P["top_right"] < P["bottom_right"]),
                _pishape, lambda P, sg: 0, False),
    "Ramp": (["start", "end"], lambda P: P["start"] != P["end"], _ramp,
             lambda P, sg: z3.If(P["start"] < P["end"], 1 if sg > 0 else 0, 0 if sg > 0 else 1), True),
    "Rectangle": (["start", "end"], lambda P: True, _rectangle, lambda P, sg: 0, False),
    "SemiEllipse": (["start", "end"], lambda P: P["start"] != P["end"], _semiellipse, lambda P, sg: 0, False),
    "Sigmoid": (["inflection", "slope"], lambda P: P["slope"] != 0, _sigmoid,
                lambda P, sg: z3.If(P["slope"] > 0, 1 if sg > 0 else 0, 0 if sg > 0 else 1), True),
    "SigmoidDifference": (["left", "rising", "falling", "right"], lambda P: z3.And(P["rising"] > 0, P["falling"] > 0),
                          _sigmoid_difference, lambda P, sg: 0, False),
    "SigmoidProduct": (["left", "rising", "falling", "right"], lambda P: z3.And(P["rising"] > 0, P["falling"] < 0),
                       _sigmoid_product, lambda P, sg: 0, False),
    "Spike": (["center", "width"], lambda P: P["width"] > 0, _spike, lambda P, sg: 0, False),
    "SShape": (["start", "end"], lambda P: P["start"] < P["end"], _sshape, lambda P, sg: 1 if sg > 0 else 0, True),
    "Trapezoid": (["bottom_left", "top_left", "top_right", "bottom_right"],
                  lambda P: z3.And(P["bottom_left"] <= P["top_left"], P["top_left"] <= P["top_right"], P["top_right"] <= P["bottom_right"]),
                  _trapezoid, lambda P, sg: 0, False),
    "Triangle": (["left", "top", "right"], lambda P: z3.And(P["left"] <= P["top"], P["top"] <= P["right"]), _triangle,
                 lambda P, sg: 0, False),
    "ZShape": (["start", "end"], lambda P: P["start"] < P["end"], _zshape, lambda P, sg: 0 if sg > 0 else 1, True),
}

# direction of the monotonic terms: +1 increasing, -1 decreasing, as a z3 Bool "increasing"
INCREASING = {
    "Arc": lambda P: P["start"] < P["end"],
    "Concave": lambda P: P["inflection"] < P["end"],
    "Ramp": lambda P: P["start"] < P["end"],
    "Sigmoid": lambda P: P["slope"] > 0,
    "SShape": lambda P: True,
    "ZShape": lambda P: False,
}
