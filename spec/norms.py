"""Documented T-norm / S-norm formulas (transcribed from the class docstrings of fuzzylite/norm.py and the
standard definitions they cite), as z3 real-arithmetic terms.  Never imports fuzzylite.

NilpotentMaximum: the docstring's condition reads `a+b<0`, an obvious typo for the standard `a+b<1`
(Fodor's nilpotent maximum, dual of NilpotentMinimum); the standard definition is used.
"""
import z3


def zmin(a, b):
    return z3.If(a <= b, a, b)


def zmax(a, b):
    return z3.If(a >= b, a, b)


TNORMS = {
    "AlgebraicProduct": lambda a, b: a * b,
    "BoundedDifference": lambda a, b: zmax(0, a + b - 1),
    "DrasticProduct": lambda a, b: z3.If(zmax(a, b) == 1, zmin(a, b), 0),
    "EinsteinProduct": lambda a, b: (a * b) / (2 - (a + b - a * b)),
    "HamacherProduct": lambda a, b: z3.If(a + b - a * b == 0, 0, (a * b) / (a + b - a * b)),
    "Minimum": lambda a, b: zmin(a, b),
    "NilpotentMinimum": lambda a, b: z3.If(a + b > 1, zmin(a, b), 0),
}

SNORMS = {
    "AlgebraicSum": lambda a, b: a + b - a * b,
    "BoundedSum": lambda a, b: zmin(1, a + b),
    "DrasticSum": lambda a, b: z3.If(zmin(a, b) == 0, zmax(a, b), 1),
    "EinsteinSum": lambda a, b: (a + b) / (1 + a * b),
    "HamacherSum": lambda a, b: z3.If(a * b == 1, 1, (a + b - 2 * a * b) / (1 - a * b)),
    "Maximum": lambda a, b: zmax(a, b),
    "NilpotentMaximum": lambda a, b: z3.If(a + b < 1, zmax(a, b), 1),
    "NormalizedSum": lambda a, b: (a + b) / zmax(1, a + b),
    "UnboundedSum": lambda a, b: a + b,
}

# same-family dual pairs  S(a,b) = 1 - T(1-a, 1-b)
DUALS = [
    ("AlgebraicProduct", "AlgebraicSum"),
    ("BoundedDifference", "BoundedSum"),
    ("DrasticProduct", "DrasticSum"),
    ("EinsteinProduct", "EinsteinSum"),
    ("HamacherProduct", "HamacherSum"),
    ("Minimum", "Maximum"),
    ("NilpotentMinimum", "NilpotentMaximum"),
]

# python (float) versions used only inside replay scripts
PY = {
    "AlgebraicProduct": "a*b",
    "BoundedDifference": "max(0.0, a+b-1)",
    "DrasticProduct": "(min(a,b) if max(a,b)==1 else 0.0)",
    "EinsteinProduct": "(a*b)/(2-(a+b-a*b))",
    "HamacherProduct": "(0.0 if a+b-a*b==0 else (a*b)/(a+b-a*b))",
    "Minimum": "min(a,b)",
    "NilpotentMinimum": "(min(a,b) if a+b>1 else 0.0)",
    "AlgebraicSum": "a+b-a*b",
    "BoundedSum": "min(1.0,a+b)",
    "DrasticSum": "(max(a,b) if min(a,b)==0 else 1.0)",
    "EinsteinSum": "(a+b)/(1+a*b)",
    "HamacherSum": "(1.0 if a*b==1 else (a+b-2*a*b)/(1-a*b))",
    "Maximum": "max(a,b)",
    "NilpotentMaximum": "(max(a,b) if a+b<1 else 1.0)",
    "NormalizedSum": "(a+b)/max(1.0,a+b)",
    "UnboundedSum": "a+b",
}
