"""The documented operator / function table of Function formulas (transcribed from the FunctionFactory documentation and the
README table) and the reference semantics of a formula on its *generating tree*.  Never imports fuzzylite.

tree := ("var", name) | ("lit", float) | ("un", op, t) | ("bin", op, l, r) | ("call", fname, [args])
"""
from __future__ import annotations

# operator -> (precedence level: larger binds tighter, associativity 'L'|'R', arity)
OPS = {
    "!": (6, "R", 1), "~": (6, "R", 1),
    "^": (5, "R", 2), "**": (5, "R", 2), ".-": (5, "R", 1), ".+": (5, "R", 1),
    "*": (4, "L", 2), "/": (4, "L", 2), "%": (4, "L", 2),
    "+": (3, "L", 2), "-": (3, "L", 2),
    "and": (2, "L", 2), "or": (1, "L", 2),
}
LOGICAL = {"!", "and", "or"}
# function -> (arity, numpy ufunc the documentation names / None when defined here)
FUNCS = {
    "gt": 2, "ge": 2, "eq": 2, "neq": 2, "le": 2, "lt": 2, "min": 2, "max": 2, "pow": 2, "atan2": 2, "fmod": 2, "pi": 0,
    "acos": 1, "asin": 1, "atan": 1, "ceil": 1, "cos": 1, "cosh": 1, "exp": 1, "abs": 1, "fabs": 1, "floor": 1, "log": 1, "log10": 1,
    "round": 1, "sin": 1, "sinh": 1, "sqrt": 1, "tan": 1, "tanh": 1, "log1p": 1, "acosh": 1, "asinh": 1, "atanh": 1,
}
NUMPY_NAME = {"acos": "arccos", "asin": "arcsin", "atan": "arctan", "cos": "cos", "cosh": "cosh", "exp": "exp", "log": "log", "log10": "log10",
              "sin": "sin", "sinh": "sinh", "tan": "tan", "tanh": "tanh", "log1p": "log1p", "acosh": "arccosh", "asinh": "arcsinh",
              "atanh": "arctanh"}
RELATIONAL = ("gt", "ge", "eq", "neq", "le", "lt")


def prec(t):
    if t[0] in ("un", "bin"):
        return OPS[t[1]][0]
    return 99


def truth_valued(t):
    return (t[0] in ("un", "bin") and t[1] in LOGICAL)


def show(t, style="minimal"):
    """concrete syntax with the parentheses the documented table requires (minimal) or around every compound operand (full)"""
    k = t[0]
    if k == "var":
        return t[1]
    if k == "lit":
        v = t[1]
        return str(int(v)) if float(v).is_integer() else repr(float(v))
    if k == "call":
        if t[1] == "pi" and not t[2]:
            return "pi" if style == "minimal" else "pi()"      # a constant may be written bare or as a call
        return f"{t[1]}({', '.join(show(a, style) for a in t[2])})"

    def wrap(c, need):
        s = show(c, style)
        compound = c[0] in ("un", "bin")
        return f"({s})" if (need or (style == "full" and compound)) else s

    if k == "un":
        op, c = t[1], t[2]
        P = OPS[op][0]
        return f"{op}{wrap(c, prec(c) < P)}" if style != "spaced" else f"{op} {wrap(c, prec(c) < P)}"
    op, l, r = t[1], t[2], t[3]
    P, A, _ = OPS[op]
    ls = wrap(l, prec(l) < P or (prec(l) == P and A == "R"))
    rs = wrap(r, prec(r) < P or (prec(r) == P and A == "L"))
    return f"{ls} {op} {rs}"


def compact(s):
    """no blanks around symbolic operators, parentheses and commas (and/or keep theirs)"""
    import re
    return re.sub(r"\s*(\*\*|[*/%+^(),]|(?<![.\w])-)\s*", r"\1", s).strip()


def wide(s):
    import re
    return re.sub(r"([(),])", r"  \1  ", s).replace(" ", "  ").strip()


def evaluate(t, env, sem):
    """sem: dict of callables implementing the documented meaning on the caller's value domain"""
    k = t[0]
    if k == "var":
        return env[t[1]]
    if k == "lit":
        return sem["lit"](t[1])
    if k == "un":
        return sem["un"][t[1]](evaluate(t[2], env, sem))
    if k == "bin":
        return sem["bin"][t[1]](evaluate(t[2], env, sem), evaluate(t[3], env, sem))
    args = [evaluate(a, env, sem) for a in t[2]]
    return sem["call"](t[1], args)


def eval_postfix(tokens, env, sem):
    """reference stack machine for a postfix token string (arity from the documented table)"""
    st = []
    for tk in tokens:
        if tk in OPS:
            ar = OPS[tk][2]
            if ar == 1:
                a = st.pop()
                st.append(sem["un"][tk](a))
            else:
                b = st.pop()
                a = st.pop()
                st.append(sem["bin"][tk](a, b))
        elif tk in FUNCS:
            n = FUNCS[tk]
            args = [st.pop() for _ in range(n)][::-1]
            st.append(sem["call"](tk, args))
        elif tk in env:
            st.append(env[tk])
        else:
            st.append(sem["lit"](float(tk)))
    if len(st) != 1:
        raise ValueError("postfix does not reduce to one value")
    return st[0]


PY_SEM = '''
import math
def _t(v): return np.asarray(v, dtype=float) != 0
def _ind(b): return np.where(b, 1.0, 0.0)
UN = {"!": lambda a: _ind(~_t(a)), "~": lambda a: -np.asarray(a, float), ".-": lambda a: -np.asarray(a, float), ".+": lambda a: +np.asarray(a, float)}
BIN = {"^": lambda a, b: np.float_power(a, b), "**": lambda a, b: np.float_power(a, b), "*": lambda a, b: np.multiply(a, b), "/": lambda a, b: np.true_divide(a, b),
       "%": lambda a, b: a - np.floor(np.true_divide(a, b)) * b, "+": lambda a, b: np.add(a, b), "-": lambda a, b: np.subtract(a, b),
       "and": lambda a, b: _ind(_t(a) & _t(b)), "or": lambda a, b: _ind(_t(a) | _t(b))}
def CALL(name, args):
    A = [np.asarray(a, dtype=float) for a in args]
    if name == "pi": return math.pi
    if name in ("gt", "ge", "eq", "neq", "le", "lt"):
        a, b = A
        bn = np.isnan(a) & np.isnan(b)     # documented: eq/neq/ge/le treat NaN's as equal
        return _ind({"gt": a > b, "ge": (a >= b) | bn, "eq": (a == b) | bn, "neq": ~((a == b) | bn), "le": (a <= b) | bn, "lt": a < b}[name])
    if name == "min": return np.where(A[0] <= A[1], A[0], A[1])
    if name == "max": return np.where(A[0] >= A[1], A[0], A[1])
    if name == "pow": return np.float_power(A[0], A[1])
    if name == "atan2": return np.arctan2(A[0], A[1])
    if name == "fmod": return np.sign(A[0]) * (np.abs(A[0]) - np.floor(np.abs(A[0]) / np.abs(A[1])) * np.abs(A[1]))
    if name in ("abs", "fabs"): return np.abs(A[0])
    if name == "round": return np.round(A[0])
    f = {"acos": np.arccos, "asin": np.arcsin, "atan": np.arctan, "ceil": np.ceil, "cos": np.cos, "cosh": np.cosh, "exp": np.exp, "floor": np.floor,
         "log": np.log, "log10": np.log10, "sin": np.sin, "sinh": np.sinh, "sqrt": np.sqrt, "tan": np.tan, "tanh": np.tanh, "log1p": np.log1p,
         "acosh": np.arccosh, "asinh": np.arcsinh, "atanh": np.arctanh}[name]
    return f(A[0])
def EVAL(t, env):
    k = t[0]
    if k == "var": return env[t[1]]
    if k == "lit": return t[1]
    if k == "un": return UN[t[1]](EVAL(t[2], env))
    if k == "bin": return BIN[t[1]](EVAL(t[2], env), EVAL(t[3], env))
    return CALL(t[1], [EVAL(a, env) for a in t[2]])
'''
