"""Replays: a counterexample becomes a small stand-alone Python script that uses only the real library (no shim),
run with the overlay interpreter and PYTHONPATH=/repo.  Convention: the script prints a line starting with
`REPRODUCED` and exits 1 when the violation manifests on the real code, otherwise prints `NOT-REPRODUCED` and exits 0.
"""
from __future__ import annotations

import hashlib
import math
import os
import re
import subprocess
import sys

VERIF = os.path.dirname(os.path.dirname(os.path.abspath(__file__)))
REPO = os.environ.get("VERIF_REPO", "/repo")

HEADER = '''#!/usr/bin/env python
"""Replay of a counterexample found by /verif (property {prop}, obligation {name}).
Runs against the real library with real NumPy; exit 1 + 'REPRODUCED' when the violation manifests."""
import math, sys
import numpy as np
import fuzzylite as fl
from math import inf, nan
F = float.fromhex

def same(a, b, tol=0.0):
    """both NaN, or equal (within relative/absolute tol)"""
    a = np.asarray(a, dtype=float); b = np.asarray(b, dtype=float)
    if a.shape != b.shape:
        return False
    both_nan = np.isnan(a) & np.isnan(b)
    with np.errstate(all="ignore"):
        close = (a == b) | (np.abs(a - b) <= tol * np.maximum(1.0, np.maximum(np.abs(a), np.abs(b))))
    return bool(np.all(both_nan | (close & ~np.isnan(a) & ~np.isnan(b))))

EXPECT_NO_EXCEPTION = True

def verdict(violated, detail=""):
    if violated:
        print("REPRODUCED", detail); sys.exit(1)
    print("NOT-REPRODUCED", detail); sys.exit(0)
'''


def lit(v):
    """python literal for a float that round-trips exactly"""
    if isinstance(v, bool):
        return repr(v)
    if isinstance(v, int):
        return repr(v)
    if v is None:
        return "None"
    if isinstance(v, (list, tuple)):
        return "[" + ", ".join(lit(x) for x in v) + "]"
    try:
        import numpy as np
        if isinstance(v, np.ndarray):
            return "np.array(" + lit(v.tolist()) + ", dtype=float)"
    except Exception:
        pass
    v = float(v)
    if v != v:
        return "nan"
    if v == math.inf:
        return "inf"
    if v == -math.inf:
        return "-inf"
    return f"F({v.hex()!r})"   # {v!r}


def write_replay(prop, name, body):
    d = os.path.join(VERIF, "replays", prop)
    os.makedirs(d, exist_ok=True)
    safe = re.sub(r"[^A-Za-z0-9_.-]+", "_", name)[:80]
    h = hashlib.sha1(body.encode()).hexdigest()[:8]
    path = os.path.join(d, f"{safe}_{h}.py")
    with open(path, "w") as f:
        f.write(HEADER.format(prop=prop, name=name))
        f.write("\ndef main():\n")
        for line in body.splitlines():
            f.write("    " + line + "\n")
        f.write("\ntry:\n    main()\nexcept SystemExit:\n    raise\nexcept Exception as ex:\n"
                "    if EXPECT_NO_EXCEPTION:\n        verdict(True, 'raised %s: %s' % (type(ex).__name__, ex))\n    raise\n")
    return path


def run_replay(path, timeout=120):
    env = dict(os.environ)
    env["PYTHONPATH"] = REPO
    env["PYTHONDONTWRITEBYTECODE"] = "1"
    try:
        p = subprocess.run([sys.executable, path], capture_output=True, text=True, timeout=timeout, env=env, cwd="/")
    except subprocess.TimeoutExpired:
        return False, "replay timeout"
    out = (p.stdout or "").strip().splitlines()
    last = out[-1] if out else (p.stderr or "").strip()[-300:]
    return (p.returncode == 1 and any(l.startswith("REPRODUCED") for l in out)), last


def replay_fn(prop, name, make_body, key=None):
    """-> function(vals) usable as Ob.prove(replay=...): writes the script, runs it, reports"""

    def f(vals):
        body = make_body(vals)
        path = write_replay(prop, name, body)
        ok, last = run_replay(path)
        return {"reproduced": ok, "detail": last, "path": path, "key": key or name}

    return f
