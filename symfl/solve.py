"""Queries, models, obligation bookkeeping."""
from __future__ import annotations

import fractions
import math
import os
import sys
import time
import traceback

import z3

from . import core
from .core import S, FFloat, RFloat, SymArray, SymBool, SymFloat, SymInt, ZB, fp_to_float
from .explore import BudgetExceeded, Explorer


# second-solver cross-check (thorough tier): every XCHECK["every"]-th decided query is dumped as SMT-LIB2 and re-decided by the
# system z3 (4.8.12) and cvc5 binaries; sat-vs-unsat disagreement is a harness error, unknown/timeouts/errors are tolerated
XCHECK = {"enabled": False, "every": 5, "n": 0, "stats": {}, "disagreements": [], "dir": None, "timeout_s": 20}


def xcheck_reset(enabled, workdir=None):
    XCHECK.update(enabled=bool(enabled), n=0, stats={}, disagreements=[], dir=workdir)


def _xcheck(s, status):
    import subprocess
    import tempfile
    XCHECK["n"] += 1
    if XCHECK["n"] % XCHECK["every"] != 1 and XCHECK["every"] > 1:
        return
    try:
        text = s.to_smt2()
    except Exception as e:  # noqa
        XCHECK["stats"]["dump_failed"] = XCHECK["stats"].get("dump_failed", 0) + 1
        return
    fd, path = tempfile.mkstemp(suffix=".smt2", dir=XCHECK["dir"])
    with os.fdopen(fd, "w") as f:
        f.write(text)
    T = XCHECK["timeout_s"]
    for name, cmd in (("z3-4.8.12", ["/usr/bin/z3", f"-T:{T}", path]), ("cvc5", ["cvc5", f"--tlimit={T * 1000}", path])):
        try:
            p = subprocess.run(cmd, capture_output=True, text=True, timeout=T + 10)
            out = (p.stdout or "").strip().splitlines()
            ans = next((l.strip() for l in out if l.strip() in ("sat", "unsat", "unknown")), None)
            if any("(error" in l for l in out) or ans is None:
                ans = "error" if ans is None or any("(error" in l for l in out) else ans
        except Exception:  # noqa
            ans = "timeout"
        if ans in ("sat", "unsat"):
            key = f"{name}:agree" if ans == status else f"{name}:DISAGREE"
            if ans != status:
                XCHECK["disagreements"].append(f"{name} says {ans}, z3 {z3.get_version_string()} says {status}: {path}")
        else:
            key = f"{name}:{ans}"
        XCHECK["stats"][key] = XCHECK["stats"].get(key, 0) + 1
    if not XCHECK["disagreements"]:
        try:
            os.unlink(path)
        except OSError:
            pass


SECOND = {}


def _second_opinion(solver, timeout_ms):
    import shutil
    import subprocess
    import tempfile
    exe = shutil.which("cvc5")
    if exe is None or os.environ.get("VERIF_NO_CVC5") or not (XCHECK["enabled"] or os.environ.get("VERIF_CVC5")):
        return None, 0.0                           # thorough tier only (the quick tier cannot afford a second timeout per open query)
    t = time.time()
    try:
        text = solver.to_smt2()
        if "FloatingPoint" not in text and "fp." not in text:
            return None, 0.0                       # only worth it for floating-point queries
        fd, path = tempfile.mkstemp(suffix=".smt2")
        with os.fdopen(fd, "w") as f:
            f.write(text)
        budget = max(5, min(120, timeout_ms // 1000))
        p = subprocess.run([exe, f"--tlimit={budget * 1000}", path], capture_output=True, text=True, timeout=budget + 10)
        os.unlink(path)
        out = (p.stdout or "").strip().splitlines()
        if any("(error" in l for l in out):
            return None, time.time() - t
        ans = next((l.strip() for l in out if l.strip() in ("sat", "unsat", "unknown")), None)
        SECOND["asked"] = SECOND.get("asked", 0) + 1
        return ans, time.time() - t
    except Exception:  # noqa
        return None, time.time() - t


def check(constraints, timeout_ms=20000):
    """-> (status 'sat'|'unsat'|'unknown', model|None, seconds)"""
    s = z3.Solver()
    s.set("timeout", int(timeout_ms))
    for c in constraints:
        if isinstance(c, bool):
            if not c:
                return "unsat", None, 0.0
            continue
        s.add(c)
    t = time.time()
    r = s.check()
    dt = time.time() - t
    if XCHECK["enabled"] and r in (z3.sat, z3.unsat):
        _xcheck(s, "sat" if r == z3.sat else "unsat")
    if r == z3.sat:
        return "sat", s.model(), dt
    if r == z3.unsat:
        return "unsat", None, dt
    # z3 gave up: a second solver (cvc5, strong on floating point) may still close the query.  Only `unsat` is taken from it
    # (a proof by another trusted solver); anything else leaves the query undecided.
    r2, dt2 = _second_opinion(s, int(timeout_ms))
    if r2 == "unsat":
        SECOND["unsat"] = SECOND.get("unsat", 0) + 1
        return "unsat", None, dt + dt2
    return "unknown", None, dt + dt2


def _q2f(v):
    """z3 numeral -> (python float, exact?)"""
    if z3.is_int_value(v):
        n = v.as_long()
        return float(n), float(n) == n
    if z3.is_rational_value(v):
        fr = fractions.Fraction(v.numerator_as_long(), v.denominator_as_long())
        f = float(fr)
        return f, fractions.Fraction(f) == fr
    if z3.is_algebraic_value(v):
        a = v.approx(20)
        fr = fractions.Fraction(a.numerator_as_long(), a.denominator_as_long())
        return float(fr), False
    raise ValueError(f"not a numeral: {v}")


def value_of(model, x):
    """concrete python value of a symbolic scalar under a model -> (value, exact)"""
    if isinstance(x, RFloat):
        def b(e):
            if core.isc(e):
                return bool(e)
            return z3.is_true(model.eval(e, model_completion=True))
        if b(x.nan):
            return math.nan, True
        if b(x.pinf):
            return math.inf, True
        if b(x.ninf):
            return -math.inf, True
        return _q2f(model.eval(x.v, model_completion=True))
    if isinstance(x, FFloat):
        return fp_to_float(model.eval(x.f, model_completion=True)), True
    if isinstance(x, SymBool):
        if core.isc(x.e):
            return bool(x.e), True
        return z3.is_true(model.eval(x.e, model_completion=True)), True
    if isinstance(x, SymInt):
        return model.eval(x.i, model_completion=True).as_long(), True
    if isinstance(x, SymArray):
        import numpy as np
        out = np.empty(x.a.shape, dtype=float)
        ex = True
        for idx in np.ndindex(*x.a.shape):
            v, e = value_of(model, x.a[idx])
            out[idx] = v
            ex = ex and e
        return out, ex
    if isinstance(x, (int, float, bool)):
        return x, True
    import numpy as np
    if isinstance(x, (np.floating, np.integer, np.bool_)):
        return x.item(), True
    if isinstance(x, np.ndarray):
        return x, True
    raise ValueError(f"value_of {type(x)}")


def nice_model(constraints, syms, timeout_ms=3000, budget_s=6.0):
    """try to find a model in which the finite symbolic inputs take short dyadic/decimal values (better replays)"""
    s = z3.Solver()
    s.set("timeout", int(timeout_ms))
    for c in constraints:
        if not isinstance(c, bool):
            s.add(c)
    if s.check() != z3.sat:
        return None
    m = s.model()
    if S.mode != "R":
        return m
    t0 = time.time()
    for x in syms:
        if not isinstance(x, RFloat) or z3.is_rational_value(x.v):
            continue
        if time.time() - t0 > budget_s:
            break
        try:
            f, exact = _q2f(m.eval(x.v, model_completion=True))
        except Exception:
            continue
        done = False
        for q in (1, 2, 4, 8, 64, 1024):
            cand = round(f * q) / q
            s.push()
            s.add(x.v == core.rv(cand))
            if s.check() == z3.sat:
                m = s.model()
                done = True
                break
            s.pop()
        if not done and not exact:
            # at least make it an exactly representable double if possible
            s.push()
            s.add(x.v == core.rv(f))
            if s.check() == z3.sat:
                m = s.model()
            else:
                s.pop()
    return m


def generic_model(constraints, syms, timeout_ms=5000):
    """a model in which the finite real inputs are pairwise distinct and none of 0, 1/2, 1 (replays with uninterpreted
    operators instantiated by generic polynomials need non-degenerate operands to show a mis-wiring)"""
    if S.mode != "R":
        return None
    vs = [x.v for x in syms if isinstance(x, RFloat) and not z3.is_rational_value(x.v)]
    if not vs:
        return None
    s = z3.Solver()
    s.set("timeout", int(timeout_ms))
    for c in constraints:
        if not isinstance(c, bool):
            s.add(c)
    s.add(z3.Distinct(*vs) if len(vs) > 1 else z3.BoolVal(True))
    for v in vs:
        s.add(v != 0, v != 1, v != z3.Q(1, 2))
    if s.check() != z3.sat:
        return None
    return s.model()


class ObResult:
    def __init__(self, name):
        self.name = name
        self.queries = 0
        self.proved = 0
        self.unknown = 0
        self.sat = 0
        self.paths = 0
        self.feas_checks = 0
        self.solver_s = 0.0
        self.vacuity_ok = 0
        self.vacuity_fail = []
        self.conform_ok = 0
        self.conform_skipped = 0
        self.conform_fail = []
        self.violations = []      # dicts: label, inputs, replay, reproduced, detail
        self.unreproduced = []
        self.inconclusive = []    # reasons
        self.errors = []
        self.functions = set()
        self.sample = None
        self.wall = 0.0
        self.meta = {}

    def status(self):
        if self.errors or self.vacuity_fail or self.conform_fail:
            return "error"
        if self.violations:
            return "violated"
        if self.inconclusive or self.unknown or self.unreproduced:
            return "inconclusive"
        return "proved"

    def to_json(self):
        return {
            "name": self.name, "status": self.status(), "queries": self.queries, "proved": self.proved,
            "unknown": self.unknown, "sat": self.sat, "paths": self.paths, "feasibility_checks": self.feas_checks,
            "solver_s": round(self.solver_s, 3), "vacuity_ok": self.vacuity_ok, "vacuity_fail": self.vacuity_fail,
            "conform_ok": self.conform_ok, "conform_skipped": self.conform_skipped, "conform_fail": self.conform_fail,
            "violations": self.violations, "unreproduced": self.unreproduced, "inconclusive": self.inconclusive,
            "errors": self.errors, "functions": sorted(self.functions), "sample": self.sample,
            "wall_s": round(self.wall, 3), "meta": self.meta,
        }


class Ob:
    """context handed to an obligation function"""

    def __init__(self, name, prop, tier, seed, replay_dir):
        self.r = ObResult(name)
        self.prop = prop
        self.tier = tier
        self.seed = seed
        self.replay_dir = replay_dir
        self.query_timeout_ms = 20000 if tier == "quick" else 120000
        self.deadline = None
        self.max_paths = 3000 if tier == "quick" else 30000
        self._profiled = False
        self._twins = {}

    # ---- exploration -------------------------------------------------------------------
    def paths(self, pre, body, catch=(Exception,), profile=True, incremental=False):
        """explore body() under preconditions `pre`; yields Path; budget overrun -> inconclusive"""
        ex = Explorer(pre, max_paths=self.max_paths, deadline=self.deadline, catch=catch, incremental=incremental)
        self._ex = ex
        first = profile and not self._profiled

        def run():
            nonlocal first
            if first:
                first = False
                self._profiled = True
                return self._profiled_call(body)
            return body()

        try:
            for p in ex.run(run):
                self.r.paths += 1
                yield p
        except BudgetExceeded as e:
            self.r.inconclusive.append(f"exploration budget: {e}")
        finally:
            self.r.feas_checks += ex.checks
            self.r.solver_s += ex.check_s

    def _profiled_call(self, body):
        funcs = self.r.functions
        repo = os.environ.get("VERIF_REPO", "/repo") + "/fuzzylite/"

        def prof(frame, event, arg):
            if event == "call":
                co = frame.f_code
                if co.co_filename.startswith(repo):
                    funcs.add(co.co_filename[len(repo):-3] + "." + getattr(co, "co_qualname", co.co_name))

        sys.setprofile(prof)
        try:
            return body()
        finally:
            sys.setprofile(None)

    # ---- queries -----------------------------------------------------------------------
    def reachable(self, pre, path, label=""):
        """vacuity witness: pre /\\ path must be satisfiable.  Returns model or None (infeasible path)."""
        st, m, dt = check(list(pre) + path.constraints(), self.query_timeout_ms)
        self.r.solver_s += dt
        self.r.queries += 1
        if st == "sat":
            self.r.vacuity_ok += 1
            return m
        if st == "unknown":
            self.r.inconclusive.append(f"reachability unknown {label}")
        return None

    def witness(self, path, label=""):
        """vacuity witness from the explorer's own solver (which holds the preconditions): cheaper than `reachable`"""
        m = self._ex.model_of(path)
        self.r.queries += 1
        if m is not None:
            self.r.vacuity_ok += 1
        return m

    def prove(self, pre, path, claim, label, inputs=None, replay=None, extra=(), group=None):
        """claim: z3 Bool (or python bool) that must hold on this path.  Returns 'proved'|'sat'|'unknown'."""
        if isinstance(claim, SymBool):
            claim = claim.e
        cons = list(pre) + (path.constraints() if path is not None else []) + list(S.side) + list(extra)
        if core.isc(claim):
            if claim:
                self.r.queries += 1
                self.r.proved += 1
                return "proved"
        else:
            cons.append(z3.Not(claim))
        st, m, dt = check(cons, self.query_timeout_ms)
        self.r.solver_s += dt
        self.r.queries += 1
        if self.r.sample is None and not core.isc(claim):
            txt = str(z3.simplify(claim))
            self.r.sample = {"label": label, "path_conditions": len(path.pc) if path is not None else 0,
                             "claim": txt[:600] + ("..." if len(txt) > 600 else "")}
        if st == "unsat":
            self.r.proved += 1
            return "proved"
        if st == "unknown":
            self.r.unknown += 1
            self.r.inconclusive.append(f"solver unknown/timeout: {label}")
            return "unknown"
        self.r.sat += 1
        self._candidate(cons, m, label, inputs, replay, group)
        return "sat"

    def _candidate(self, cons, model, label, inputs, replay, group=None):
        """turn a sat model into a replayed violation (or an unreproduced candidate)"""
        inputs = inputs or {}
        tried = []
        if len([v for v in self.r.violations if v.get("group") == group]) >= 3:
            # enough reproduced counterexamples for this obligation: further sat answers are counted, not replayed
            self.r.meta["further_sat_not_replayed"] = self.r.meta.get("further_sat_not_replayed", 0) + 1
            return
        for attempt in range(3):
            if attempt == 0:
                m = nice_model(cons, list(inputs.values())) or model
            elif attempt == 1:
                m = model
            else:
                m = generic_model(cons, list(inputs.values()))
                if m is None:
                    break
            vals = {}
            for k, x in inputs.items():
                try:
                    v, ex = value_of(m, x)
                except Exception as e:  # noqa
                    v, ex = None, False
                vals[k] = v
            if replay is None:
                self.r.unreproduced.append({"label": label, "inputs": _jsonable(vals), "why": "no replay available"})
                return
            try:
                rep = replay(vals)
            except Exception as e:  # noqa
                rep = {"reproduced": False, "detail": f"replay raised {type(e).__name__}: {e}"}
            tried.append({"inputs": _jsonable(vals), "detail": rep.get("detail")})
            if rep.get("reproduced"):
                self.r.violations.append({"label": label, "inputs": _jsonable(vals), "replay": rep.get("path"),
                                          "detail": rep.get("detail"), "key": rep.get("key", label), "group": group})
                return
        self.r.unreproduced.append({"label": label, "tried": tried, "why": "candidate did not reproduce on the real code"})

    def expect_sat(self, pre, path, false_claim, label):
        """vacuity twin: a deliberately false claim must come back sat (on at least one path of the obligation)"""
        cons = list(pre) + (path.constraints() if path is not None else []) + list(S.side)
        cons.append(z3.Not(false_claim) if not core.isc(false_claim) else (not false_claim))
        st, m, dt = check(cons, self.query_timeout_ms)
        self.r.solver_s += dt
        self.r.queries += 1
        self._twins.setdefault(label, []).append(st)
        if st == "sat":
            self.r.vacuity_ok += 1

    def finish(self):
        for label, rs in self._twins.items():
            if "sat" in rs:
                continue
            if "unknown" in rs:
                self.r.inconclusive.append(f"vacuity twin unknown: {label}")
            else:
                self.r.vacuity_fail.append(label)

    def unexpected(self, pre, path, label, inputs=None, replay=None):
        """the code under test raised on this path although the property promises a value: a violation if the path is
        reachable and the real code raises too (replay); shim limitations (Unsupported) are harness errors."""
        exc = path.exc
        if isinstance(exc, core.Unsupported) or isinstance(exc, (AssertionError, NotImplementedError)):
            self.error(f"{label}: {type(exc).__name__}: {exc}")
            return
        self.prove(pre, path, False, f"{label} raised {type(exc).__name__}: {str(exc)[:120]}", inputs, replay)

    def error(self, msg):
        self.r.errors.append(msg)

    def inconclusive(self, msg):
        self.r.inconclusive.append(msg)


def _jsonable(v):
    import numpy as np
    if isinstance(v, dict):
        return {k: _jsonable(x) for k, x in v.items()}
    if isinstance(v, (list, tuple)):
        return [_jsonable(x) for x in v]
    if isinstance(v, np.ndarray):
        return _jsonable(v.tolist())
    if isinstance(v, float):
        if v != v:
            return "nan"
        if v in (math.inf, -math.inf):
            return "inf" if v > 0 else "-inf"
        return {"float": repr(v), "hex": v.hex()}
    if isinstance(v, (np.floating,)):
        return _jsonable(float(v))
    if isinstance(v, (np.integer,)):
        return int(v)
    if isinstance(v, (np.bool_,)):
        return bool(v)
    return v
