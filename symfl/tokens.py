"""Symbolic tokens: a text is a sequence of tokens whose *identity* (which word of a bounded vocabulary, or an unknown
word) is a solver variable.  Used by C16 to run the real rule / FLL state machines on all token sequences of a shape.

How a symbolic token survives CPython's C-level string code
-----------------------------------------------------------
* `Tok` is a `str` subclass whose underlying value is a placeholder word (`QTK<i>KTQ`, letters and digits only, so the
  library's regular expressions and `split`/`strip`/`find` leave it alone).  `==`/`!=` against a word return a `SymBool`
  (the explorer forks on it); `hash()` forks only on the few words that live in constant sets of the code under test
  (`(`, `)`, `,`, the four FLL block keywords) and is 0 otherwise.
* `PH` is a `str` subclass for any longer text that contains placeholders (`QTK0KTQ: QTK1KTQ 0.5`): its
  `split/strip/find/[...]` are the real `str` operations on the underlying characters, with every resulting piece
  wrapped again (`wrap`): a piece that is exactly one placeholder becomes the `Tok` object itself.
* whenever the real code glues pieces into a new string at C level (`" ".join(...)`, f-strings) the result is an ordinary
  `str` that still contains the placeholders; the places where the code takes such a string apart again are wrapped to
  re-symbolise it (`wrap`).  The harness lists these hooks as stubs.
* every name a token is looked up against in a *hash* container is a `Key` (a `str` subclass with hash 0 that defers
  equality to the token): variable and term names of the engine, the rule keywords; the function / hedge / component
  factories get a `LinearDict` (a dict that answers get/in/[] by scanning its keys with `==`).  Same answers as the
  original containers for ordinary strings.
* soundness net: for every explored path the harness takes a model of the path condition, spells the text with real
  words and runs the same entry point on the plain string and the plain library (no hooks, no `Tok` anywhere); outcome
  class and exported text must agree, otherwise the run is a harness error (a string operation that silently used a
  placeholder would show up here).
"""
from __future__ import annotations

import re

import z3

from .core import S, SymBool, Unsupported

PHRE = re.compile(r"QTK(\d+)KTQ")

# words that sit in constant (frozen)sets of the code under test: the hash of a token forks on these only
HASH_WORDS = ("(", ")", ",", "Engine", "InputVariable", "OutputVariable", "RuleBlock", "Automatic", "TakagiSugeno", "Tsukamoto")


class Vocab:
    """bounded vocabulary: index i < len(words) means words[i]; index len(words) is a word outside (spelled `other`)"""

    def __init__(self, words, other="zzz"):
        assert len(set(words)) == len(words) and other not in words
        self.words = list(words)
        self.other = other
        self.index = {w: i for i, w in enumerate(self.words)}
        self.index[other] = len(self.words)
        self.n = len(self.words) + 1
        self.floats, self.ints = {}, {}
        for w in self.words + [other]:
            try:
                self.floats[w] = float(w)
            except ValueError:
                pass
            try:
                self.ints[w] = int(w)
            except ValueError:
                pass

    def idx(self, w):
        return self.index.get(w)

    def spell(self, i):
        return self.words[i] if i < len(self.words) else self.other

    def domain(self, k):
        return z3.And(k >= 0, k < self.n)


def _plain(s):
    """exact-str copy of any str (sub)instance"""
    return s if type(s) is str else "".join([s])


REGISTRY = {}      # placeholder -> Tok  (tokens are created once per obligation, outside the explored body)


def reset_registry():
    REGISTRY.clear()


def _unsupported(name):
    def f(self, *a, **k):
        raise Unsupported(f"str.{name} on a symbolic text")
    f.__name__ = name
    return f


class Tok(str):
    """a token whose identity is the solver variable `kind` (index into `vocab`)"""

    def __new__(cls, i, kind, vocab):
        ph = f"QTK{i}KTQ"
        t = str.__new__(cls, ph)
        t.kind = kind
        t.vocab = vocab
        t.i = i
        t._cache = {}
        t._const = kind.as_long() if z3.is_int_value(kind) else None
        REGISTRY[ph] = t
        return t

    # ---- identity ---------------------------------------------------------------------------
    def _is(self, j):
        c = self._cache.get(j)
        if c is None:
            c = (self._const == j) if self._const is not None else SymBool(self.kind == j)
            self._cache[j] = c
        return c

    def _eq(self, o):
        if o is self:
            return True
        if isinstance(o, Tok):
            if o.vocab is not self.vocab:
                raise Unsupported("tokens of two vocabularies compared")
            if o._const is not None:
                return self._is(o._const)
            if self._const is not None:
                return o._is(self._const)
            c = self._cache.get(("tok", o.i))
            if c is None:
                c = self._cache[("tok", o.i)] = SymBool(self.kind == o.kind)
            return c
        if isinstance(o, PH):
            return o._eq(self)
        if isinstance(o, str):
            w = _plain(o)
            if PHRE.search(w):
                return wrap(w)._eq(self) if not PHRE.fullmatch(w) else self._eq(REGISTRY[w])
            j = self.vocab.idx(w)
            if j is None:
                return False
            return self._is(j)
        return NotImplemented

    def __eq__(self, o):
        return self._eq(o)

    def __ne__(self, o):
        r = self._eq(o)
        if r is NotImplemented:
            return r
        return (not r) if isinstance(r, bool) else ~r

    def __hash__(self):
        for w in HASH_WORDS:
            j = self.vocab.idx(w)
            if j is not None and bool(self._is(j)):
                return hash(w)
        return 0

    def is_word(self, words):
        """symbolic: the token is one of `words` (python strs)"""
        js = [self.vocab.idx(w) for w in words if self.vocab.idx(w) is not None]
        if self._const is not None:
            return self._const in js
        key = ("set",) + tuple(js)
        c = self._cache.get(key)
        if c is None:
            c = self._cache[key] = SymBool(z3.Or(*[self.kind == j for j in js]) if js else z3.BoolVal(False))
        return c

    def which(self, table):
        """fork over the words of `table` (dict word -> value): the value of the word the token is, or KeyError"""
        for w, v in table.items():
            j = self.vocab.idx(w)
            if j is not None and bool(self._is(j)):
                return v
        raise KeyError(self)

    # ---- string surface the parsers use -----------------------------------------------------
    def __bool__(self):
        return True

    def __len__(self):
        raise Unsupported("len() of a symbolic token")

    def strip(self, *a):
        return self

    lstrip = rstrip = strip

    def split(self, sep=None, maxsplit=-1):
        return [self]            # a word has no whitespace, ':' or '#' inside (assumption of the token model)

    def find(self, sub, *a):
        if sub in ("#", ":", " ", "\n"):
            return -1
        raise Unsupported(f"Tok.find({sub!r})")

    for _n in ("lower", "upper", "startswith", "endswith", "rfind", "index", "replace", "isdigit", "isnumeric",
               "isidentifier", "isalpha", "isalnum", "partition", "rpartition", "title", "capitalize", "casefold", "count",
               "__contains__", "__getitem__", "__iter__", "__lt__", "__le__", "__gt__", "__ge__", "__add__", "__radd__", "__mul__",
               "__mod__", "encode", "removeprefix", "removesuffix", "splitlines", "zfill", "center", "ljust", "rjust"):
        locals()[_n] = _unsupported(_n)
    del _n

    def __repr__(self):
        return f"Tok({self.i})"

    def __deepcopy__(self, memo):
        return self

    def __copy__(self):
        return self

    def __reduce__(self):
        raise Unsupported("pickling a symbolic token")


class PH(str):
    """a text with placeholders inside: real `str` operations on the characters, pieces wrapped again"""

    def __new__(cls, raw):
        return str.__new__(cls, _plain(raw))

    @property
    def toks(self):
        return self.split()

    def split(self, sep=None, maxsplit=-1):
        if sep is not None:
            sep = _plain(sep)
        return [wrap(p) for p in str.split(self, sep, maxsplit)]

    def strip(self, chars=None):
        return wrap(str.strip(self, chars))

    def lstrip(self, chars=None):
        return wrap(str.lstrip(self, chars))

    def rstrip(self, chars=None):
        return wrap(str.rstrip(self, chars))

    def find(self, sub, *a):
        if PHRE.search(sub) or sub.isalnum():
            raise Unsupported(f"PH.find({sub!r})")
        return str.find(self, sub, *a)

    def __contains__(self, sub):
        if PHRE.search(sub) or sub.isalnum():
            raise Unsupported(f"{sub!r} in <symbolic text>")
        return str.__contains__(self, sub)

    def __getitem__(self, i):
        piece = str.__getitem__(self, i)
        rest = PHRE.sub("", piece)
        if "QTK" in rest or "KTQ" in rest:
            raise Unsupported("a slice cuts through a symbolic token")
        return wrap(piece)

    def __add__(self, o):
        return wrap(str.__add__(self, o))

    def __radd__(self, o):
        return wrap(str.__add__(_plain(o), self))

    # ---- comparisons ------------------------------------------------------------------------
    def _eq(self, o):
        if o is self:
            return True
        if not isinstance(o, str):
            return NotImplemented
        a = self.split()
        ow = wrap(_plain(o)) if not isinstance(o, (Tok, PH)) else o
        b = ow.split() if isinstance(ow, (Tok, PH)) else _plain(ow).split()
        if len(a) != len(b):
            return False
        if len(a) > 1 and _plain(self) != _plain(o):
            # different texts of several tokens each: equality depends on the white space as well
            sk = lambda s: PHRE.sub("\0", _plain(s))  # noqa: E731
            if sk(self) != sk(o):
                return False
        r = True
        for x, y in zip(a, b):
            if isinstance(x, PH) or isinstance(y, PH):
                # a word glued from several tokens (e.g. by Op.as_identifier on a name of two words) is a new word: it differs
                # from every single word, and equals another glued word iff they are glued from the same tokens
                gx, gy = PHRE.findall(_plain(x)), PHRE.findall(_plain(y))
                if PHRE.sub("\0", _plain(x)) != PHRE.sub("\0", _plain(y)) or len(gx) != len(gy):
                    return False
                for i, j in zip(gx, gy):
                    e = REGISTRY[f"QTK{i}KTQ"] == REGISTRY[f"QTK{j}KTQ"]
                    if e is False:
                        return False
                    if e is not True:
                        r = e if r is True else (r & e)
                continue
            e = (x == y) if isinstance(x, Tok) or isinstance(y, Tok) else (_plain(x) == _plain(y))
            if e is False:
                return False
            if e is True:
                continue
            r = e if r is True else (r & e)
        return r

    def __eq__(self, o):
        return self._eq(o)

    def __ne__(self, o):
        r = self._eq(o)
        if r is NotImplemented:
            return r
        return (not r) if isinstance(r, bool) else ~r

    def __hash__(self):
        ts = self.split()
        if len(ts) == 1 and isinstance(ts[0], Tok):
            return hash(ts[0])
        return 0

    def __bool__(self):
        return str.__len__(self) > 0

    def __len__(self):
        raise Unsupported("len() of a symbolic text")

    for _n in ("lower", "upper", "startswith", "endswith", "rfind", "index", "replace", "isdigit", "isnumeric",
               "isidentifier", "isalpha", "isalnum", "partition", "rpartition", "title", "capitalize", "casefold", "count",
               "__iter__", "__lt__", "__le__", "__gt__", "__ge__", "__mul__", "__mod__", "encode", "removeprefix",
               "removesuffix", "splitlines", "zfill", "center", "ljust", "rjust"):
        locals()[_n] = _unsupported(_n)
    del _n

    def __deepcopy__(self, memo):
        return self

    def __copy__(self):
        return self


def wrap(s):
    """re-symbolise: a string that contains placeholders -> Tok (exactly one placeholder) or PH; others unchanged"""
    if isinstance(s, (Tok, PH)) or not isinstance(s, str):
        return s
    if not PHRE.search(s):
        return s
    if PHRE.fullmatch(s):
        return REGISTRY[s]
    return PH(s)


resym = wrap


def SymText(toks):
    """a whitespace-separated text of the given tokens / words"""
    toks = list(toks)
    if not toks:
        return ""
    if len(toks) == 1 and isinstance(toks[0], Tok):
        return toks[0]
    return wrap(" ".join(toks))


class Key(str):
    """a concrete word used as a key in hash containers that symbolic tokens are looked up in: hash 0 (as every token
    that is not a parenthesis/comma), equality deferred to the token"""

    def __eq__(self, o):
        if isinstance(o, (Tok, PH)):
            return o.__eq__(self)
        if isinstance(o, str):
            return _plain(self) == _plain(o)
        return NotImplemented

    def __ne__(self, o):
        r = self.__eq__(o)
        if r is NotImplemented:
            return r
        return (not r) if isinstance(r, bool) else ~r

    def __hash__(self):
        return 0

    def __deepcopy__(self, memo):
        return self


class LinearDict(dict):
    """dict answering lookups by scanning its keys with `==` (so a symbolic token forks per candidate word it could be);
    for ordinary strings the answers are those of the dict"""

    def _find(self, key):
        if type(key) is str and not PHRE.search(key):
            return key if dict.__contains__(self, key) else None
        key = wrap(key)
        for k in dict.keys(self):
            if k == key:
                return k
        return None

    def get(self, key, default=None):
        k = self._find(key)
        return default if k is None else dict.__getitem__(self, k)

    def __contains__(self, key):
        return self._find(key) is not None

    def __getitem__(self, key):
        k = self._find(key)
        if k is None:
            raise KeyError(key)
        return dict.__getitem__(self, k)


def one_token(x):
    """the single token a symbolic text consists of, or None"""
    if isinstance(x, Tok):
        return x
    if isinstance(x, PH):
        ts = x.split()
        if len(ts) == 1 and isinstance(ts[0], Tok):
            return ts[0]
    return None


def to_float(x):
    """float() / numpy.float64() of a symbolic text: forks over the vocabulary's numeric words"""
    t = one_token(x)
    if t is None:
        raise ValueError(f"could not convert string to float: '{_plain(x)}'")
    try:
        return t.which(t.vocab.floats)
    except KeyError:
        raise ValueError(f"could not convert string to float: '{_plain(x)}'") from None


def to_int(x, *a):
    """int() of a symbolic text"""
    t = one_token(x)
    if t is None:
        raise ValueError(f"invalid literal for int() with base 10: '{_plain(x)}'")
    try:
        return t.which(t.vocab.ints)
    except KeyError:
        raise ValueError(f"invalid literal for int() with base 10: '{_plain(x)}'") from None


def map_words(real, name):
    """a character-level function of the library (Op.as_identifier, Function.format_infix) on a symbolic text: a token that
    is a word the function leaves alone stays the token; for the vocabulary's other words (`0.5`, `lock-range`, ...) the
    path forks and the word itself is substituted; the real function then runs on the characters"""
    def sub(m):
        t = REGISTRY[m.group(0)]
        dirty = {w: w for w in t.vocab.words + [t.vocab.other] if real(w) != w}
        try:
            return t.which(dirty)
        except KeyError:
            return m.group(0)
    raw = PHRE.sub(sub, _plain(name))
    if not PHRE.search(raw):
        return real(raw)
    # the placeholders left stand for words the function leaves alone: it treats them as the words they are
    return wrap(real(raw))


as_identifier = map_words


def is_symbolic_text(x):
    return isinstance(x, (Tok, PH))


def spell(text, model, completion=True):
    """the concrete text (real words) of a string with placeholders under a model"""
    def sub(m):
        t = REGISTRY[m.group(0)]
        k = model.eval(t.kind, model_completion=True).as_long()
        return t.vocab.spell(k)
    return PHRE.sub(sub, _plain(text))
