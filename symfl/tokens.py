"""Symbolic tokens: a text is a sequence of tokens whose *identity* (which word of a bounded vocabulary, or an unknown
word) is a solver variable.  Used by C16 to run the real rule / FLL state machines on all token sequences up to a length.

How a symbolic token survives CPython's C-level string code
-----------------------------------------------------------
* `Tok` is a `str` subclass whose underlying value is a placeholder word (`QTK<i>KTQ`, letters and digits only, so the
  library's regular expressions leave it alone).  `==`/`!=` against a word return a `SymBool` (the explorer forks on it),
  `hash()` forks only on the few words that live in constant sets of the code under test (`(`, `)`, `,`) and is 0 otherwise.
* every name a token is looked up against in a *hash* container is a `Key` (a `str` subclass with hash 0 that defers
  equality to the token): variable and term names of the engine, the rule keywords; the function / hedge / component
  factories get a `LinearDict` (a dict that answers get/in/[] by scanning its keys with `==`).  Same answers as the
  original containers for ordinary strings.
* whenever the real code glues tokens into a new string (`" ".join(...)`, f-strings) the result is an ordinary `str`
  containing the placeholders; the places where the code splits such a string again are re-symbolised
  (`resym`): `SymText.split()` hands the same `Tok` objects back.  The hooks that do this are listed in `STUBS`.
* soundness net: for every explored path the harness takes a model of the path condition, spells the text with real
  words and runs the same entry point on the plain string (no `Tok` anywhere); outcome class and exported text must agree,
  otherwise the run is a harness error (a string operation that silently used the placeholder would show up here).
"""
from __future__ import annotations

import re

import z3

from .core import S, SymBool, Unsupported

PH = re.compile(r"QTK(\d+)KTQ")

# words that sit in constant (frozen)sets / plain dicts of the code under test: the hash of a token forks on these only
HASH_WORDS = ("(", ")", ",")


class Vocab:
    """bounded vocabulary: index i < len(words) means words[i]; index len(words) is a word outside (spelled `other`)"""

    def __init__(self, words, other="zzz"):
        assert len(set(words)) == len(words) and other not in words
        self.words = list(words)
        self.other = other
        self.index = {w: i for i, w in enumerate(self.words)}
        self.index[other] = len(self.words)
        self.n = len(self.words) + 1

    def idx(self, w):
        return self.index.get(w)

    def spell(self, i):
        return self.words[i] if i < len(self.words) else self.other

    def domain(self, k):
        return z3.And(k >= 0, k < self.n)


def _plain(s):
    """exact-str copy of any str (sub)instance"""
    return str.__str__(s) if type(s) is str else "".join([s])


REGISTRY = {}      # placeholder -> Tok  (tokens are created once per obligation, outside the explored body)


def reset_registry():
    REGISTRY.clear()


class Tok(str):
    """a token whose identity is the solver variable `kind` (index into `vocab`)"""

    def __new__(cls, i, kind, vocab):
        ph = f"QTK{i}KTQ"
        t = str.__new__(cls, ph)
        t.kind = kind
        t.vocab = vocab
        t.i = i
        t._cache = {}
        t._const = kind.as_long() if z3.is_int_value(kind) else None
        REGISTRY[ph] = t
        return t

    # ---- identity ---------------------------------------------------------------------------
    def _eq(self, o):
        if o is self:
            return True
        if isinstance(o, Tok):
            if o.vocab is not self.vocab:
                raise Unsupported("tokens of two vocabularies compared")
            if o._const is not None:
                return self._is(o._const)
            if self._const is not None:
                return o._is(self._const)
            c = self._cache.get(("tok", o.i))
            if c is None:
                c = self._cache[("tok", o.i)] = SymBool(self.kind == o.kind)
            return c
        if isinstance(o, SymText):
            ts = o.toks
            return self._eq(ts[0]) if len(ts) == 1 else False
        if isinstance(o, str):
            w = _plain(o)
            if PH.fullmatch(w):
                return self._eq(REGISTRY[w])
            j = self.vocab.idx(w)
            if j is None:
                return False
            return self._is(j)
        return NotImplemented

    def _is(self, j):
        c = self._cache.get(j)
        if c is None:
            if self._const is not None:
                c = self._const == j
            else:
                c = SymBool(self.kind == j)
            self._cache[j] = c
        return c

    def __eq__(self, o):
        return self._eq(o)

    def __ne__(self, o):
        r = self._eq(o)
        if r is NotImplemented:
            return r
        return (not r) if isinstance(r, bool) else ~r

    def __hash__(self):
        for w in HASH_WORDS:
            j = self.vocab.idx(w)
            if j is not None and bool(self._is(j)):
                return hash(w)
        return 0

    def is_word(self, words):
        """symbolic: the token is one of `words` (python strs)"""
        js = [self.vocab.idx(w) for w in words if self.vocab.idx(w) is not None]
        if self._const is not None:
            return self._const in js
        key = ("set",) + tuple(js)
        c = self._cache.get(key)
        if c is None:
            c = self._cache[key] = SymBool(z3.Or(*[self.kind == j for j in js]) if js else z3.BoolVal(False))
        return c

    # ---- string surface the parsers use -----------------------------------------------------
    def __bool__(self):
        return True

    def __len__(self):
        raise Unsupported("len() of a symbolic token")

    def strip(self, *a):
        return self

    lstrip = rstrip = strip

    def split(self, sep=None, maxsplit=-1):
        if sep is None:
            return [self]
        raise Unsupported(f"Tok.split({sep!r})")

    def _unsupported(name):  # noqa
        def f(self, *a, **k):
            raise Unsupported(f"str.{name} on a symbolic token")
        f.__name__ = name
        return f

    for _n in ("lower", "upper", "startswith", "endswith", "find", "rfind", "index", "replace", "isdigit", "isnumeric",
               "isidentifier", "isalpha", "isalnum", "partition", "rpartition", "title", "capitalize", "casefold", "count",
               "__contains__", "__getitem__", "__iter__", "__lt__", "__le__", "__gt__", "__ge__", "__add__", "__radd__", "__mul__",
               "__mod__", "encode", "removeprefix", "removesuffix", "splitlines", "zfill", "center", "ljust", "rjust"):
        locals()[_n] = _unsupported(_n)
    del _n, _unsupported

    def __repr__(self):
        return f"Tok({self.i})"

    def __deepcopy__(self, memo):
        return self

    def __copy__(self):
        return self

    def __reduce__(self):
        raise Unsupported("pickling a symbolic token")


class Key(str):
    """a concrete word used as a key in hash containers that symbolic tokens are looked up in: hash 0 (as every token
    that is not a parenthesis/comma), equality deferred to the token"""

    def __eq__(self, o):
        if isinstance(o, (Tok, SymText)):
            return o.__eq__(self)
        if isinstance(o, str):
            return _plain(self) == _plain(o)
        return NotImplemented

    def __ne__(self, o):
        r = self.__eq__(o)
        if r is NotImplemented:
            return r
        return (not r) if isinstance(r, bool) else ~r

    def __hash__(self):
        return 0

    def __deepcopy__(self, memo):
        return self


class LinearDict(dict):
    """dict answering lookups by scanning its keys with `==` (so a symbolic token forks per candidate word it could be);
    for ordinary strings the answers are those of the dict"""

    def _find(self, key):
        if type(key) is str and not PH.search(key):
            return key if dict.__contains__(self, key) else None
        for k in dict.keys(self):
            if k == key:
                return k
        return None

    def get(self, key, default=None):
        k = self._find(key)
        return default if k is None else dict.__getitem__(self, k)

    def __contains__(self, key):
        return self._find(key) is not None

    def __getitem__(self, key):
        k = self._find(key)
        if k is None:
            raise KeyError(key)
        return dict.__getitem__(self, k)


class SymText(str):
    """a whitespace-separated text of tokens (symbolic `Tok`s and ordinary words)"""

    def __new__(cls, toks):
        toks = list(toks)
        t = str.__new__(cls, " ".join(toks))
        t.toks = toks
        return t

    def split(self, sep=None, maxsplit=-1):
        if sep is None and maxsplit == -1:
            return list(self.toks)
        if sep is None:
            head = list(self.toks[:maxsplit])
            rest = self.toks[maxsplit:]
            return head + ([SymText(rest)] if rest else [])
        if sep == "\n":
            return [self]
        raise Unsupported(f"SymText.split({sep!r}, {maxsplit})")

    def find(self, sub, *a):
        if sub == "#":
            return -1                       # comments are outside the token model
        raise Unsupported(f"SymText.find({sub!r})")

    def strip(self, *a):
        return self

    lstrip = rstrip = strip

    def __getitem__(self, i):
        raise Unsupported("indexing a symbolic text")

    def __eq__(self, o):
        if isinstance(o, SymText):
            if len(o.toks) != len(self.toks):
                return False
            r = True
            for a, b in zip(self.toks, o.toks):
                e = (a == b)
                r = e if r is True else (r & e if not isinstance(e, bool) or not isinstance(r, bool) else (r and e))
            return r
        if isinstance(o, str):
            ws = _plain(o).split()
            if len(ws) != len(self.toks):
                return False
            r = True
            for a, b in zip(self.toks, ws):
                e = (a == b)
                if e is False:
                    return False
                if e is True:
                    continue
                r = e if r is True else (r & e)
            return r
        return NotImplemented

    def __ne__(self, o):
        r = self.__eq__(o)
        if r is NotImplemented:
            return r
        return (not r) if isinstance(r, bool) else ~r

    def __hash__(self):
        if len(self.toks) == 1:
            return hash(self.toks[0])
        return 0

    def __bool__(self):
        return bool(self.toks)

    def __len__(self):
        raise Unsupported("len() of a symbolic text")

    def __deepcopy__(self, memo):
        return self


def resym(s):
    """an ordinary string containing placeholders -> SymText of the registered tokens (other strings unchanged)"""
    if isinstance(s, (SymText, Tok)) or not isinstance(s, str):
        return s
    if not PH.search(s):
        return s
    toks = []
    for w in s.split():
        if PH.fullmatch(w):
            toks.append(REGISTRY[w])
        elif PH.search(w):
            raise Unsupported(f"placeholder glued to other characters: {w!r}")
        else:
            toks.append(w)
    return SymText(toks)


def spell(text, model, completion=True):
    """the concrete text (real words) of a string with placeholders under a model"""
    def sub(m):
        t = REGISTRY[m.group(0)]
        k = model.eval(t.kind, model_completion=True).as_long()
        return t.vocab.spell(k)
    return PH.sub(sub, _plain(text))
