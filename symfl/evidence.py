"""evidence/<id>.json writer (schema: /root/.vp/EVIDENCE.schema.json, level 'other' = bounded symbolic verification)."""
from __future__ import annotations

import json
import os
import subprocess

VERIF = os.path.dirname(os.path.dirname(os.path.abspath(__file__)))


def _repo_state():
    repo = os.environ.get("VERIF_REPO", "/repo")
    try:
        head = subprocess.run(["git", "-C", repo, "rev-parse", "HEAD"], capture_output=True, text=True).stdout.strip()
        dirty = subprocess.run(["git", "-C", repo, "status", "--porcelain", "--", "fuzzylite"], capture_output=True, text=True).stdout.strip()
        return {"head": head, "dirty_files": [l[3:] for l in dirty.splitlines()][:20]}
    except Exception as e:  # noqa
        return {"error": str(e)}


def write_evidence(prop, tier, seed, mod, names, results, missing, killed, wall, violations, known_hits):
    from symfl import install
    recs = [results[n] for n in names if n in results]
    ob_total = len(names)
    discharged = sum(1 for r in recs if r["status"] == "proved")
    queries = sum(r.get("queries", 0) for r in recs)
    q_proved = sum(r.get("proved", 0) for r in recs)
    paths = sum(r.get("paths", 0) for r in recs)
    funcs = sorted({f for r in recs for f in r.get("functions", [])})
    samples = []
    for r in recs:
        if r.get("sample"):
            samples.append({"obligation": r["name"], **r["sample"]})
        if len(samples) >= 4:
            break
    if not samples:
        samples = [{"obligation": n} for n in names[:3]]
    inconclusive = [{"obligation": r["name"], "reasons": (r.get("inconclusive") or [])[:3],
                     "unreproduced": (r.get("unreproduced") or [])[:2]} for r in recs if r["status"] == "inconclusive"]
    errors = [{"obligation": r["name"], "errors": (r.get("errors") or r.get("vacuity_fail") or r.get("conform_fail"))[:2]}
              for r in recs if r["status"] == "error"]
    nontrivial = sum(1 for r in recs if r.get("queries", 0) > 0 and r["status"] in ("proved", "violated"))
    ev = {
        "property_id": prop,
        "tier": tier,
        "seed": seed,
        "level": "other",
        "wall_s": round(wall, 2),
        "violations": len(violations),
        "coverage": {
            "explanation": getattr(mod, "EXPLANATION", "") + " Bounded symbolic verification: the unmodified fuzzylite "
            "functions listed under functions_encoded were executed on symbolic numbers (symfl shim over NumPy's "
            "__array_ufunc__/__array_function__ protocols, Python branches explored depth-first), every path yields SMT "
            "queries (z3) whose 'unsat' answer covers all values inside the stated bounds; 'sat' models are replayed on "
            "the real library before being reported; unknown/timeouts are inconclusive, never success.",
            "obligations": ob_total,
            "discharged": discharged,
            "obligations_violated": sum(1 for r in recs if r["status"] == "violated"),
            "obligations_inconclusive": len(inconclusive) + len(missing),
            "obligations_error": len(errors),
            "queries": queries,
            "queries_unsat": q_proved,
            "queries_unknown": sum(r.get("unknown", 0) for r in recs),
            "queries_sat": sum(r.get("sat", 0) for r in recs),
            "paths_explored": paths,
            "feasibility_checks": sum(r.get("feasibility_checks", 0) for r in recs),
            "solver_s": round(sum(r.get("solver_s", 0.0) for r in recs), 2),
            "vacuity_witnesses_sat": sum(r.get("vacuity_ok", 0) for r in recs),
            "conformance_ok": sum(r.get("conform_ok", 0) for r in recs),
            "conformance_skipped_inexact": sum(r.get("conform_skipped", 0) for r in recs),
            "evaluations": max(1, queries),
            "distinct_nontrivial": nontrivial,
            "rule": "one evaluation = one SMT query (path x claim); an obligation counts as distinct and non-trivial "
                    "when it issued at least one solver query and was decided (proved or violated)",
            "samples": samples,
            "functions_encoded": funcs,
            "bounds": getattr(mod, "BOUNDS", {}).get(tier, getattr(mod, "BOUNDS", {})),
            "outside_the_claim": getattr(mod, "OUTSIDE", []),
            "stubs": install.STUBS + list(getattr(mod, "STUBS", [])),
            "inconclusive": inconclusive[:40],
            "errors": errors[:20],
            "missing_results": missing[:40],
            "killed_on_deadline": killed,
            "known_findings_hit": sorted(known_hits.keys()),
            "violations": [{"obligation": n, "label": v.get("label"), "inputs": v.get("inputs"), "replay": v.get("replay"),
                            "detail": v.get("detail")} for n, v in violations][:20],
            "solver": "z3 " + _z3v(),
            "second_solver_crosscheck": _merge_xcheck(recs),
            "repo": _repo_state(),
            "trusted_base": ["z3", "symfl shim's model of NumPy element semantics (checked by per-path conformance runs "
                             "against real NumPy)", "oracles in /verif/spec and in the harness"],
            "exhaustive": False,
        },
        "assumptions": list(getattr(mod, "ASSUMPTIONS", [])),
    }
    os.makedirs(os.path.join(VERIF, "evidence"), exist_ok=True)
    with open(os.path.join(VERIF, "evidence", f"{prop}.json"), "w") as f:
        json.dump(ev, f, indent=1, sort_keys=False)
        f.write("\n")


def _merge_xcheck(recs):
    tot = {}
    for r in recs:
        for k, v in (r.get("meta", {}).get("second_solver") or {}).items():
            tot[k] = tot.get(k, 0) + v
    return tot or "not run in this tier (thorough tier / VERIF_XCHECK=1: every 5th decided query re-decided by /usr/bin/z3 4.8.12 and cvc5)"


def _z3v():
    try:
        import z3
        return z3.get_version_string()
    except Exception:
        return "?"
