"""Worker process: takes obligation indexes from a lock-protected counter and writes one JSON line per obligation."""
from __future__ import annotations

import argparse
import fcntl
import importlib
import json
import os
import sys
import time
import traceback

VERIF = os.path.dirname(os.path.dirname(os.path.abspath(__file__)))
if VERIF not in sys.path:
    sys.path.insert(0, VERIF)


def next_index(counter_path):
    with open(counter_path, "r+") as f:
        fcntl.flock(f, fcntl.LOCK_EX)
        txt = f.read().strip()
        i = int(txt or "0")
        f.seek(0)
        f.truncate()
        f.write(str(i + 1))
        f.flush()
        fcntl.flock(f, fcntl.LOCK_UN)
    return i


def load_obligations(prop, tier, seed):
    mod = importlib.import_module(f"harness.{prop.lower()}")
    obs = mod.obligations(tier, seed)
    names = [n for n, _ in obs]
    assert len(set(names)) == len(names), f"duplicate obligation names in {prop}"
    return mod, obs


def main():
    ap = argparse.ArgumentParser()
    ap.add_argument("--prop", required=True)
    ap.add_argument("--tier", required=True)
    ap.add_argument("--seed", type=int, default=0)
    ap.add_argument("--work", required=True)
    ap.add_argument("--wid", type=int, default=0)
    ap.add_argument("--deadline", type=float, default=0.0)
    ap.add_argument("--only", default="")
    args = ap.parse_args()

    from symfl import core, install
    from symfl.solve import Ob

    install.install()
    mod, obs = load_obligations(args.prop, args.tier, args.seed)
    out = open(os.path.join(args.work, f"results.{args.wid}.jsonl"), "a")
    counter = os.path.join(args.work, "counter")
    budget = getattr(mod, "OB_BUDGET_S", {"quick": 120, "thorough": 900})[args.tier]
    while True:
        i = next_index(counter)
        if i >= len(obs):
            break
        if os.environ.get("VERIF_FAIL_FAST") and os.path.exists(os.path.join(args.work, "VIOLATED")):
            # development aid (seeded-change matrix): a violation has been reproduced, the remaining obligations are skipped
            out.write(json.dumps({"name": obs[i][0], "status": "inconclusive", "inconclusive": ["skipped: fail-fast after a violation"], "queries": 0, "proved": 0, "paths": 0}) + "\n")
            out.flush()
            continue
        name, fn = obs[i]
        if args.only and args.only not in name:
            continue
        if args.deadline and time.time() > args.deadline:
            rec = {"name": name, "status": "inconclusive", "inconclusive": ["global deadline reached before start"],
                   "queries": 0, "proved": 0, "paths": 0}
            out.write(json.dumps(rec) + "\n")
            out.flush()
            continue
        core.S.reset()
        from symfl import solve as _solve
        _solve.xcheck_reset(args.tier == "thorough" or os.environ.get("VERIF_XCHECK") == "1", args.work)
        ob = Ob(name, args.prop, args.tier, args.seed, os.path.join(VERIF, "replays", args.prop))
        ob.deadline = time.time() + budget
        if args.deadline:
            ob.deadline = min(ob.deadline, args.deadline)
        t0 = time.time()
        try:
            fn(ob)
            ob.finish()
        except BaseException as e:  # noqa
            if isinstance(e, KeyboardInterrupt):
                raise
            ob.error(f"{type(e).__name__}: {e}\n" + "".join(traceback.format_exc()[-1500:]))
        ob.r.wall = time.time() - t0
        if _solve.XCHECK["enabled"]:
            ob.r.meta["second_solver"] = dict(_solve.XCHECK["stats"])
            for d in _solve.XCHECK["disagreements"]:
                ob.r.errors.append("second solver disagreement: " + d)
        out.write(json.dumps(ob.r.to_json()) + "\n")
        out.flush()
        if ob.r.violations and os.environ.get("VERIF_FAIL_FAST"):
            open(os.path.join(args.work, "VIOLATED"), "w").close()
    out.close()


if __name__ == "__main__":
    main()
