"""Put /repo on the path, import the *current* fuzzylite sources and rebind, in this process only, the four names
through which plain NumPy conversion would realise a symbolic value:

    scalar, array, to_float   (imported by name into every fuzzylite module from fuzzylite.library)
    np                        (module global; replaced by a pass-through proxy overriding the few NumPy entry points
                               that do not dispatch through __array_ufunc__/__array_function__)

Nothing on disk is touched.  Every rebinding is listed in `STUBS` and copied into the evidence.
"""
from __future__ import annotations

import contextlib
import os
import sys

import numpy as _np

from . import core
from .core import S, SymArray, SymBool, SymFloat, SymInt, Unsupported, _has_sym, _obj, ew_arr, tf

REPO = os.environ.get("VERIF_REPO", "/repo")

STUBS = [
    "fuzzylite.*.scalar -> symfl.install.sym_scalar (np.asarray for concrete input; 0-d/ n-d SymArray for symbolic input)",
    "fuzzylite.*.array -> symfl.install.sym_array (np.array for concrete input; SymArray for symbolic input)",
    "fuzzylite.*.to_float -> symfl.install.sym_to_float (settings.float_type for concrete input; placeholder token -> its SymFloat)",
    "fuzzylite.*.np -> pass-through proxy overriding array/asarray/full/full_like/nditer/interp/linspace/savetxt/size for symbolic operands",
]


def sym_scalar(x, /, **kw):
    if _has_sym(x):
        if isinstance(x, SymArray) and all(isinstance(e, SymFloat) for e in x.a.flat):
            return x          # np.asarray returns a float64 array itself (no copy): callers that write into it are visible
        return ew_arr(lambda e: tf(e), x)
    if S.box_scalars and S.explorer is not None and isinstance(x, (int, float)) and not isinstance(x, bool):
        # a 0-d array that may later be updated in place with a symbolic operand (`acc = scalar(0.0); acc += d`)
        return SymArray(_obj(core.const(float(x))))
    import fuzzylite
    return _np.asarray(x, dtype=fuzzylite.library.settings.float_type, **kw)


def _detoken(x):
    """placeholder tokens inside (nested) lists of strings -> their symbolic numbers; other numeric strings -> float"""
    if isinstance(x, str):
        if _is_symtext(x):
            from . import tokens
            return tokens.to_float(x)
        if x in S.tokens:
            return S.tokens[x]
        try:
            return float(x)
        except ValueError:
            return x
    if isinstance(x, (list, tuple)):
        return [_detoken(e) for e in x]
    return x


def _is_symtext(x):
    return type(x).__name__ in ("Tok", "PH") and type(x).__module__ == "symfl.tokens"


def _has_token(x):
    if isinstance(x, str):
        return _is_symtext(x) or x in S.tokens
    if isinstance(x, (list, tuple)):
        return any(_has_token(e) for e in x)
    return False


def sym_array(x, *a, **kw):
    if (S.tokens or S.symtext) and _has_token(x):
        x = _detoken(x)
    if _has_sym(x):
        dt = kw.get("dtype")
        arr = SymArray(_obj(x))
        if dt is not None and dt not in (bool, _np.bool_, object, _np.str_, str):
            arr = ew_arr(lambda e: tf(e), arr)
        return arr
    return _np.array(x, *a, **kw)


sym_array.__name__ = "array"       # Representation.repr_ndarray prints `array.__name__`
sym_scalar.__name__ = "scalar"


def fuzzylite_float_type():
    import fuzzylite
    return fuzzylite.library.settings.float_type


def sym_to_float(x, /):
    if isinstance(x, SymFloat):
        return x
    if isinstance(x, (SymArray,)):
        return tf(x)
    if isinstance(x, str) and _is_symtext(x):
        from . import tokens
        return fuzzylite_float_type()(tokens.to_float(x))
    if isinstance(x, str) and x in S.tokens:
        return S.tokens[x]
    if isinstance(x, (SymInt, SymBool)):
        return tf(x)
    import fuzzylite
    return fuzzylite.library.settings.float_type(x)


class _NdIter:
    """model of np.nditer(value, op_flags=[['readwrite']]) over a SymArray: yields writable 0-d views in C order"""

    def __init__(self, arr):
        self.arr = arr

    def __enter__(self):
        return self

    def __exit__(self, *a):
        return False

    def __iter__(self):
        a = self.arr.a
        for idx in _np.ndindex(*a.shape):
            yield SymArray(a[idx + (Ellipsis,)])


class NpProxy:
    """stands in for the module global `np` of the fuzzylite modules"""

    def __init__(self):
        self.savetxt_calls = []

    def __getattr__(self, name):
        return getattr(_np, name)

    def array(self, x, *a, **kw):
        return sym_array(x, *a, **kw)

    def asarray(self, x, *a, **kw):
        if _has_sym(x):
            return SymArray(_obj(x))
        return _np.asarray(x, *a, **kw)

    def vectorize(self, pyfunc, otypes=None, **kw):
        """np.vectorize: the Python function is applied element by element; WITHOUT otypes the dtype of the result is that of the
        first element's result - an integer first result makes every later result an integer (truncated)"""
        real = _np.vectorize(pyfunc, otypes=otypes, **kw)

        def call(*args):
            if not any(_has_sym(a) for a in args):
                return real(*args)
            bs = _np.broadcast_arrays(*[_obj(a) for a in args])
            out = _np.empty(bs[0].shape, dtype=object)
            first_int = None
            for idx in _np.ndindex(*out.shape):
                r = pyfunc(*[core._unwrap0(b[idx]) for b in bs])
                if isinstance(r, (SymArray, _np.ndarray)):
                    r = core._unwrap0(r)
                if first_int is None:
                    first_int = otypes is None and isinstance(r, (int, _np.integer)) and not isinstance(r, (bool, _np.bool_))
                out[idx] = core._trunc_int(r) if first_int else tf(r)
            return SymArray(out)

        return call

    def isscalar(self, x):
        # symbolic scalars stand for Python floats / NumPy scalars (np.isscalar is True for both); 0-d arrays are not scalars
        if isinstance(x, (SymFloat, SymInt, SymBool)):
            return True
        return _np.isscalar(x)

    def _fresh(self, name, fill, shape, dtype, kw):
        # a float buffer allocated while a body is being explored may later receive symbolic values (out=, masked stores): it
        # is born as an array of symbolic constants; integer/boolean buffers and anything outside an exploration stay NumPy's
        if S.explorer is not None and not kw and (dtype is None or _np.dtype(dtype).kind == "f"):
            return core.dispatch("full", (shape, core.const(fill)), {})
        return getattr(_np, name)(shape, **({"dtype": dtype} if dtype is not None else {}), **kw)

    def zeros(self, shape, dtype=None, **kw):
        return self._fresh("zeros", 0.0, shape, dtype, kw)

    def ones(self, shape, dtype=None, **kw):
        return self._fresh("ones", 1.0, shape, dtype, kw)

    def empty(self, shape, dtype=None, **kw):
        return self._fresh("empty", 0.0, shape, dtype, kw)

    def full(self, shape, fill_value, *a, **kw):
        if _has_sym(fill_value):
            return core.dispatch("full", (shape, fill_value), {})
        return _np.full(shape, fill_value, *a, **kw)

    def full_like(self, x, fill_value, *a, **kw):
        if _has_sym(x) or _has_sym(fill_value):
            return core.dispatch("full_like", (x, fill_value), {"dtype": kw["dtype"]} if kw.get("dtype") is not None else {})
        return _np.full_like(x, fill_value, *a, **kw)

    def nditer(self, op, *a, **kw):
        if isinstance(op, SymArray):
            return _NdIter(op)
        if isinstance(op, (SymFloat, SymBool)):
            # what NumPy does for a NumPy scalar operand flagged readwrite
            raise TypeError("Iterator operand is flagged as writeable, but is an object which cannot be written back to via WRITEBACKIFCOPY")
        return _np.nditer(op, *a, **kw)

    def interp(self, x, xp, fp, *a, **kw):
        if _has_sym(x) or _has_sym(xp) or _has_sym(fp):
            return core.dispatch("interp", (x, xp, fp) + a, kw)
        return _np.interp(x, xp, fp, *a, **kw)

    def linspace(self, start, stop, *a, **kw):
        if _has_sym(start) or _has_sym(stop):
            return core.dispatch("linspace", (start, stop) + a, kw)
        return _np.linspace(start, stop, *a, **kw)

    def size(self, x, *a, **kw):
        if _has_sym(x):
            return core.dispatch("size", (x,) + a, kw)
        return _np.size(x, *a, **kw)

    def savetxt(self, fname, X, **kw):
        # stub: capture, nothing is formatted
        self.savetxt_calls.append((X, kw))

    def isnan(self, x, *a, **kw):
        if isinstance(x, SymInt):
            return False
        return _np.isnan(x, *a, **kw)


NP = NpProxy()
_installed = False
fl = None


def install():
    """import fuzzylite from REPO and rebind the names.  Idempotent."""
    global _installed, fl
    if _installed:
        return fl
    if REPO not in sys.path:
        sys.path.insert(0, REPO)
    sys.dont_write_bytecode = True
    import fuzzylite
    if not os.path.abspath(fuzzylite.__file__).startswith(os.path.abspath(REPO) + os.sep):
        raise RuntimeError(f"fuzzylite imported from {fuzzylite.__file__}, expected {REPO}")
    import fuzzylite.benchmark  # noqa: F401  (not patched, but make sure import works)
    for name, m in list(sys.modules.items()):
        if not (name == "fuzzylite" or name.startswith("fuzzylite.")):
            continue
        if name.startswith("fuzzylite.examples") or name == "fuzzylite.benchmark":
            continue
        d = m.__dict__
        if "scalar" in d:
            d["scalar"] = sym_scalar
        if "array" in d and d["array"] is _np.array:
            d["array"] = sym_array
        if "to_float" in d:
            d["to_float"] = sym_to_float
        if d.get("np") is _np:
            d["np"] = NP
    fl = fuzzylite
    _installed = True
    return fl


@contextlib.contextmanager
def shadow(module, **names):
    """temporarily shadow builtins (int, pow, float...) as globals of one fuzzylite module"""
    d = module.__dict__
    missing = object()
    old = {k: d.get(k, missing) for k in names}
    d.update(names)
    try:
        yield
    finally:
        for k, v in old.items():
            if v is missing:
                d.pop(k, None)
            else:
                d[k] = v
