"""Entry point behind /verif/bin/check:  runner.py <Cxx> <quick|thorough> [--replay file] [--only substr] [--jobs n]"""
from __future__ import annotations

import argparse
import importlib
import json
import os
import shutil
import subprocess
import sys
import time

VERIF = os.path.dirname(os.path.dirname(os.path.abspath(__file__)))
if VERIF not in sys.path:
    sys.path.insert(0, VERIF)

EXIT_OK, EXIT_VIOLATION, EXIT_HARNESS = 0, 1, 2


def load_known():
    p = os.path.join(VERIF, "known_findings.json")
    if not os.path.exists(p):
        return []
    with open(p) as f:
        return json.load(f).get("findings", [])


def main():
    ap = argparse.ArgumentParser()
    ap.add_argument("prop")
    ap.add_argument("tier", nargs="?", default=os.environ.get("VERIF_TIER", "quick"))
    ap.add_argument("--replay")
    ap.add_argument("--only", default="")
    ap.add_argument("--jobs", type=int, default=int(os.environ.get("VERIF_JOBS", "16")))
    ap.add_argument("--no-evidence", action="store_true")
    args = ap.parse_args()
    prop = args.prop.upper()
    tier = args.tier
    seed = int(os.environ.get("VERIF_SEED", "0") or 0)

    if args.replay:
        from symfl.replay import run_replay
        ok, last = run_replay(args.replay)
        print(last)
        if ok:
            print(f"VIOLATION property={prop} replay={args.replay}")
            return EXIT_VIOLATION
        return EXIT_OK

    t0 = time.time()
    from symfl import install
    install.install()
    mod = importlib.import_module(f"harness.{prop.lower()}")
    obs = mod.obligations(tier, seed)
    names = [n for n, _ in obs]
    n_sel = len([n for n in names if args.only in n]) if args.only else len(names)

    work = os.path.join(VERIF, ".work", f"{prop}.{tier}.{os.getpid()}")
    shutil.rmtree(work, ignore_errors=True)
    os.makedirs(work)
    with open(os.path.join(work, "counter"), "w") as f:
        f.write("0")
    total_budget = getattr(mod, "TOTAL_BUDGET_S", {"quick": 420, "thorough": 3000})[tier]
    deadline = t0 + total_budget
    jobs = max(1, min(args.jobs, n_sel))
    env = dict(os.environ)
    env["PYTHONDONTWRITEBYTECODE"] = "1"
    env["PYTHONPATH"] = VERIF
    procs = []
    for w in range(jobs):
        cmd = [sys.executable, "-m", "symfl.worker", "--prop", prop, "--tier", tier, "--seed", str(seed),
               "--work", work, "--wid", str(w), "--deadline", str(deadline)]
        if args.only:
            cmd += ["--only", args.only]
        log = open(os.path.join(work, f"worker.{w}.log"), "w")
        procs.append((subprocess.Popen(cmd, stdout=log, stderr=subprocess.STDOUT, env=env, cwd=VERIF), log))
    hard = deadline + 120
    killed = False
    for p, log in procs:
        rest = max(1.0, hard - time.time())
        try:
            p.wait(timeout=rest)
        except subprocess.TimeoutExpired:
            p.kill()
            killed = True
        log.close()
    worker_fail = [(i, p.returncode) for i, (p, _) in enumerate(procs) if p.returncode not in (0, None, -9)]

    results = {}
    for fn in sorted(os.listdir(work)):
        if fn.startswith("results."):
            with open(os.path.join(work, fn)) as f:
                for line in f:
                    line = line.strip()
                    if line:
                        rec = json.loads(line)
                        results[rec["name"]] = rec
    missing = [n for n in names if n not in results and (not args.only or args.only in n)]

    known = [k for k in load_known() if k.get("property") == prop]
    known_keys = {k["key"]: k for k in known}
    violations, known_hits = [], {}
    for rec in results.values():
        for v in rec.get("violations", []):
            key = v.get("key") or v.get("label")
            if key in known_keys:
                known_hits.setdefault(key, []).append(v)
            else:
                violations.append((rec["name"], v))

    counts = {"proved": 0, "violated": 0, "inconclusive": 0, "error": 0}
    for rec in results.values():
        counts[rec["status"]] = counts.get(rec["status"], 0) + 1
    harness_errors = [r for r in results.values() if r["status"] == "error"]

    wall = time.time() - t0
    if not args.no_evidence and not args.only:
        from symfl.evidence import write_evidence
        write_evidence(prop, tier, seed, mod, names, results, missing, killed, wall, violations, known_hits)

    # ---- report -------------------------------------------------------------------------
    print(f"[{prop} {tier}] obligations={len(names)} proved={counts['proved']} violated={counts['violated']} "
          f"inconclusive={counts['inconclusive']} error={counts['error']} missing={len(missing)} wall={wall:.1f}s")
    shown = 0
    for rec in results.values():
        if rec["status"] == "inconclusive":
            shown += 1
            if shown > int(os.environ.get("VERIF_SHOW", "12")):
                continue
            why = (rec.get("inconclusive") or ["unreproduced candidate"])[0]
            print(f"  INCONCLUSIVE {rec['name']}: {str(why)[:160]}")
            for u in rec.get("unreproduced", [])[:1]:
                print(f"    unreproduced candidate: {json.dumps(u)[:300]}")
    for key, hits in known_hits.items():
        print(f"KNOWN-FINDING: property={prop} {known_keys[key].get('what', key)} [key={key}]")
    for name, v in violations:
        print(f"  violated obligation {name}: {v.get('label')} inputs={json.dumps(v.get('inputs'))[:400]} :: {v.get('detail')}")
        print(f"VIOLATION property={prop} replay={v.get('replay')}")
    code = EXIT_OK
    if harness_errors or worker_fail or (missing and not killed):
        for r in harness_errors[:10]:
            msg = (r.get("errors") or r.get("vacuity_fail") or r.get("conform_fail") or ["?"])[0]
            print(f"  HARNESS-ERROR {r['name']}: {str(msg)[:1500]}")
        if worker_fail:
            print(f"  HARNESS-ERROR workers failed: {worker_fail} (logs in {work})")
        if missing:
            print(f"  HARNESS-ERROR obligations without result: {missing[:10]}")
        code = EXIT_HARNESS
    if violations:
        code = EXIT_VIOLATION
    if code != EXIT_HARNESS and not os.environ.get("VERIF_KEEP_WORK"):
        shutil.rmtree(work, ignore_errors=True)
    return code


if __name__ == "__main__":
    sys.exit(main())
