"""Self-tests of the shim (run by `bin/check selftest`, and in miniature inside thorough tiers).

1. relaxed Mode-F axioms: for many concrete operand pairs (specials, boundaries, random exponents) the instance axioms
   are evaluated with the fresh constant replaced by the exact IEEE result (z3's own fp.mul/div/sqrt constant folding);
   every axiom must simplify to true.  An axiom that is false for some pair would make `unsat` answers unsound.
2. conformance of the element semantics: a table of NumPy expressions is evaluated on concrete operands with real NumPy
   and through the shim (operands as symbolic constants); value and result kind must agree.
"""
from __future__ import annotations

import itertools
import math
import random
import struct
import sys

import numpy as np
import z3

from . import core
from .core import S, FFloat, set_mode


def _rand_double(rng):
    k = rng.random()
    if k < 0.15:
        return rng.choice([0.0, -0.0, 1.0, -1.0, 0.5, 2.0, math.inf, -math.inf, math.nan, 5e-324, 2.0 ** -1022,
                           1.7976931348623157e308, 1 - 2 ** -53, 1 + 2 ** -52, 0.1, 0.7, 3.0])
    if k < 0.5:
        return rng.uniform(-2, 2)
    if k < 0.7:
        return rng.uniform(0, 1)
    bits = rng.getrandbits(64)
    return struct.unpack("<d", struct.pack("<Q", bits))[0]


def check_relaxed_axioms(n=3000, seed=1):
    rng = random.Random(seed)
    bad = []
    set_mode("F", fexact=False)
    for i in range(n):
        a, b = _rand_double(rng), _rand_double(rng)
        if rng.random() < 0.1:
            b = a
        if rng.random() < 0.05:
            b = -a
        for kind in ("mul", "div", "sqrt", "sqr"):
            S.reset()
            set_mode("F", fexact=False)
            S.new_path()
            x, y = z3.FP("x", core.F64), z3.FP("y", core.F64)
            if kind == "mul":
                r = core._f_mul(FFloat(x), FFloat(y)).f
                exact = z3.fpMul(core.RNE, x, y)
            elif kind == "sqr":
                r = core._f_mul(FFloat(x), FFloat(x)).f
                r2 = core._f_sqrt(FFloat(r)).f
                exact = z3.fpMul(core.RNE, x, x)
            elif kind == "div":
                r = core._f_div(FFloat(x), FFloat(y)).f
                exact = z3.fpDiv(core.RNE, x, y)
            else:
                r = core._f_sqrt(FFloat(x)).f
                exact = z3.fpSqrt(core.RNE, x)
            subs = [(x, core.fv(a)), (y, core.fv(b)), (r, z3.substitute(exact, (x, core.fv(a)), (y, core.fv(b))))]
            if kind == "sqr":
                ex2 = z3.fpSqrt(core.RNE, z3.substitute(exact, (x, core.fv(a))))
                subs.append((r2, ex2))
            for ax in S.side:
                v = z3.simplify(z3.substitute(ax, *subs))
                if not z3.is_true(v):
                    bad.append((kind, a, b, str(ax)[:200], str(v)[:80]))
    return bad


def main():
    bad = check_relaxed_axioms()
    print("relaxed-axiom instances violated:", len(bad))
    for b in bad[:10]:
        print("  ", b)
    return 1 if bad else 0


if __name__ == "__main__":
    sys.exit(main())
