"""symfl.core -- symbolic numbers that ride through the *unmodified* fuzzylite code.

Value domains (selected with `set_mode`):

* Mode R  "IEEE specials over exact reals": a SymFloat is (v: Real, nan, pinf, ninf: Bool).  Finite
  arithmetic is exact (no rounding, no overflow, no signed zero); NaN/inf follow the IEEE case tables.
  sqrt = fresh witness w with w>=0 and w*w == t; exp/log/cos/pow/... = uninterpreted functions named after
  the NumPy ufunc that the code actually called, with instance axioms (see `_uf_axioms`).
* Mode F  IEEE-754 binary64, bit exact (z3 FloatingPoint, RNE).  + - neg abs compare min max are exact;
  * / sqrt are either *relaxed* (memoised fresh constants + sound instance axioms, an over-approximation)
  or *exact* (fp.mul/fp.div/fp.sqrt), selected by `S.fexact`.  `np.where` conditions are forked.

Python-level control flow on symbolic values reaches SymBool.__bool__, which asks the path explorer.
Arrays are object-dtype ndarrays of symbolic scalars wrapped in SymArray, so shape handling (broadcast,
.T, squeeze, atleast_2d, column_stack, fancy indexing) is NumPy's own code.

Result *kinds* follow NumPy: ufuncs on 0-d operands give scalars (SymFloat/SymBool), array functions
(where, asarray, full_like, atleast_nd, squeeze of an array) give arrays (SymArray, possibly 0-d).
"""
from __future__ import annotations

import itertools
import re
import math

import numpy as np
import z3


# ----------------------------------------------------------------------------------------------
# global run state
# ----------------------------------------------------------------------------------------------
class _State:
    def __init__(self):
        self.reset()

    def reset(self):
        self.mode = "R"
        self.fexact = False          # Mode F: exact mul/div/sqrt instead of relaxed constants
        self.fork_where = False      # fork np.where conditions (always on in Mode F)
        self.box_scalars = False     # scalar(<python number>) gives a 0-d SymArray (for in-place accumulators)
        self.format_decimals = None  # decimals in force when numbers are printed as placeholders (set by harnesses that vary them)
        self.pyfloats = False        # PyRFloat values (plain Python floats) are in use: arrays store them as NumPy numbers
        self.explorer = None
        self.side = []               # side constraints used on the current path (z3 Bool)
        self._side_ids = set()
        self.memo = {}               # (kind, operand ids) -> (refs, result, constraint)
        self.uf_apps = {}            # ufname -> list of (args, result) seen on this path
        self.symtext = False         # symbolic text tokens (symfl.tokens) may reach array()/to_float
        self.tokens = {}             # placeholder text -> SymFloat
        self.token_of = {}           # id(z3 ast) -> placeholder
        self.fresh = itertools.count()
        self.stats = {"elem_ops": 0}

    def new_path(self):
        self.side = []
        self._side_ids = set()
        self.uf_apps = {}

    def add_side(self, c):
        if isinstance(c, bool):
            return
        i = c.get_id()
        if i not in self._side_ids:
            self._side_ids.add(i)
            self.side.append(c)


S = _State()


def set_mode(mode, fexact=False, fork_where=None):
    assert mode in ("R", "F")
    S.mode = mode
    S.fexact = fexact
    S.fork_where = (mode == "F") if fork_where is None else fork_where


# ----------------------------------------------------------------------------------------------
# folding boolean helpers (python bool or z3 Bool)
# ----------------------------------------------------------------------------------------------
def isc(b):
    return isinstance(b, (bool, np.bool_))


def AND(*xs):
    out = []
    for x in xs:
        if isc(x):
            if not x:
                return False
        else:
            out.append(x)
    if not out:
        return True
    return out[0] if len(out) == 1 else z3.And(*out)


def OR(*xs):
    out = []
    for x in xs:
        if isc(x):
            if x:
                return True
        else:
            out.append(x)
    if not out:
        return False
    return out[0] if len(out) == 1 else z3.Or(*out)


def NOT(x):
    return (not x) if isc(x) else z3.Not(x)


def IMPL(a, b):
    return OR(NOT(a), b)


def IFFB(a, b):
    if isc(a):
        return b if a else NOT(b)
    if isc(b):
        return a if b else NOT(a)
    return a == b


def ITEB(c, a, b):
    if isc(c):
        return a if c else b
    if isc(a) and isc(b):
        if a == b:
            return bool(a)
        return c if a else z3.Not(c)
    return OR(AND(c, a), AND(NOT(c), b))


def ZB(x):
    return z3.BoolVal(bool(x)) if isc(x) else x


def ITE(c, a, b):
    """z3 term if-then-else with folding."""
    if isc(c):
        return a if c else b
    if a is b or (z3.is_ast(a) and z3.is_ast(b) and a.eq(b)):
        return a
    return z3.If(c, a, b)


R0 = z3.RealVal(0)
R1 = z3.RealVal(1)


def rv(x):
    """exact rational of a python float/int"""
    if isinstance(x, (int, np.integer)) and not isinstance(x, (bool, np.bool_)):
        return z3.RealVal(int(x))
    x = float(x)
    if x.is_integer():
        return z3.RealVal(int(x))
    n, d = x.as_integer_ratio()
    return z3.Q(n, d)


# ----------------------------------------------------------------------------------------------
# exceptions
# ----------------------------------------------------------------------------------------------
class Abort(BaseException):
    """raised to abandon the current path (infeasible or budget)"""


class Unsupported(Exception):
    """the shim does not model this NumPy surface / operand combination"""


# ----------------------------------------------------------------------------------------------
# SymBool
# ----------------------------------------------------------------------------------------------
class SymBool:
    """symbolic numpy.bool_"""

    __hash__ = None
    ndim = 0
    shape = ()
    size = 1

    def __init__(self, e):
        if isinstance(e, SymBool):
            e = e.e
        self.e = e

    # logic
    def __and__(self, o):
        if _is_arr(o):
            return ew(lambda a, b: tb_(a) & tb_(b), self, o)
        return SymBool(AND(self.e, tb(o)))

    __rand__ = __and__

    def __or__(self, o):
        if _is_arr(o):
            return ew(lambda a, b: tb_(a) | tb_(b), self, o)
        return SymBool(OR(self.e, tb(o)))

    __ror__ = __or__

    def __xor__(self, o):
        return SymBool(NOT(IFFB(self.e, tb(o))))

    __rxor__ = __xor__

    def __invert__(self):
        return SymBool(NOT(self.e))

    def __eq__(self, o):
        if isinstance(o, (SymBool, bool, np.bool_)):
            return SymBool(IFFB(self.e, tb(o)))
        return tf(self) == o

    def __ne__(self, o):
        if isinstance(o, (SymBool, bool, np.bool_)):
            return SymBool(NOT(IFFB(self.e, tb(o))))
        return tf(self) != o

    # arithmetic: numpy promotes bool to float (bool+bool is logical or, bool*bool logical and)
    def __add__(self, o):
        if isinstance(o, (SymBool, bool, np.bool_)):
            return SymBool(OR(self.e, tb(o)))
        return tf(self) + o

    __radd__ = __add__

    def __mul__(self, o):
        if isinstance(o, (SymBool, bool, np.bool_)):
            return SymBool(AND(self.e, tb(o)))
        return tf(self) * o

    __rmul__ = __mul__

    def __sub__(self, o):
        if isinstance(o, (SymBool, bool, np.bool_)):
            raise TypeError("numpy boolean subtract, the `-` operator, is not supported, use the bitwise_xor, the `^` operator, or the logical_xor function instead.")
        return tf(self) - o

    def __rsub__(self, o):
        if isinstance(o, (SymBool, bool, np.bool_)):
            raise TypeError("numpy boolean subtract, the `-` operator, is not supported, use the bitwise_xor, the `^` operator, or the logical_xor function instead.")
        return o - tf(self)

    def __truediv__(self, o):
        return tf(self) / o

    def __rtruediv__(self, o):
        return o / tf(self)

    def __neg__(self):
        raise TypeError("The numpy boolean negative, the `-` operator, is not supported, use the `~` operator or the logical_not function instead.")

    def __lt__(self, o):
        return tf(self) < o

    def __le__(self, o):
        return tf(self) <= o

    def __gt__(self, o):
        return tf(self) > o

    def __ge__(self, o):
        return tf(self) >= o

    def __bool__(self):
        if isc(self.e):
            return bool(self.e)
        if S.explorer is None:
            raise Unsupported("branch on a symbolic bool outside an exploration")
        return S.explorer.decide(self.e)

    def __float__(self):
        raise Unsupported("float() of a symbolic bool")

    def __repr__(self):
        return f"SymBool({self.e})"

    def __deepcopy__(self, memo):
        return self

    def __copy__(self):
        return self

    def astype(self, t, **kw):
        if t in (float, np.float64, "float", "float64"):
            return tf(self)
        return self

    def squeeze(self, axis=None):
        return self

    def item(self):
        return self

    def any(self, *a, **k):
        return self

    def all(self, *a, **k):
        return self

    T = property(lambda s: s)

    def __array_ufunc__(self, ufunc, method, *inputs, **kw):
        return _ufunc(ufunc, method, inputs, kw)

    def __array_function__(self, func, types, args, kwargs):
        return dispatch(func.__name__, args, kwargs)


def tb(o):
    """to boolean expression (python bool or z3 Bool)"""
    if isinstance(o, SymBool):
        return o.e
    if isc(o):
        return bool(o)
    if isinstance(o, SymArray) and o.a.ndim == 0:
        return tb(o.a.item())
    if isinstance(o, np.ndarray) and o.ndim == 0:
        return tb(o.item())
    if isinstance(o, SymFloat):
        return (o != 0.0).e
    if isinstance(o, (int, float, np.floating, np.integer)):
        return bool(o != 0)
    raise Unsupported(f"tb {type(o)}")


def tb_(o):
    return o if isinstance(o, SymBool) else SymBool(tb(o))


# ----------------------------------------------------------------------------------------------
# SymFloat (abstract) ------------------------------------------------------------------------
# ----------------------------------------------------------------------------------------------
_FIXED_SPEC = re.compile(r"0?\.(\d+)f")


class SymFloat:
    __hash__ = None
    ndim = 0
    shape = ()
    size = 1
    dtype = np.dtype(np.float64)

    # numpy plumbing
    def __array_ufunc__(self, ufunc, method, *inputs, **kw):
        return _ufunc(ufunc, method, inputs, kw)

    def __array_function__(self, func, types, args, kwargs):
        return dispatch(func.__name__, args, kwargs)

    def squeeze(self, axis=None):
        return self

    def astype(self, t, **kw):
        return self

    def item(self):
        return self

    def flatten(self):
        return SymArray(_obj1(self))

    @property
    def flat(self):
        return _Flat(_obj1(self))          # of a NumPy scalar: a 1-element temporary, writes into it are lost

    def tolist(self):
        return self

    def sum(self, axis=None, keepdims=False, **kw):
        return self

    def max(self, *a, **k):
        return self

    def min(self, *a, **k):
        return self

    def copy(self):
        return self

    T = property(lambda s: s)

    def __deepcopy__(self, memo):
        return self

    def __copy__(self):
        return self

    def __float__(self):
        raise Unsupported("float() of a symbolic number (realisation refused)")

    def __int__(self):
        raise Unsupported("int() of a symbolic number (realisation refused)")

    def __index__(self):
        raise Unsupported("index() of a symbolic number")

    def __bool__(self):
        return bool(self != 0.0)

    def __len__(self):
        raise TypeError("len() of unsized object")

    def __iter__(self):
        raise TypeError("iteration over a 0-d array")

    def __getitem__(self, k):
        if k is Ellipsis or k == ():
            return self
        raise IndexError("invalid index to scalar variable.")

    def __setitem__(self, k, v):
        raise TypeError("'numpy.float64' object does not support item assignment")

    # placeholder text ------------------------------------------------------------------------
    def _token(self):
        key = self._key()
        t = S.token_of.get(key)
        if t is None:
            t = f"SYMF_{len(S.tokens)}_"
            S.token_of[key] = t
            S.tokens[t] = self
        return t

    def __repr__(self):
        c = self.concrete()
        if c is not None:
            return repr(c)
        return self._token()

    __str__ = __repr__

    def __format__(self, spec):
        c = self.concrete()
        if c is not None:
            return format(c, spec)
        if S.format_decimals is not None and S.mode == "R":
            # numbers travel as placeholders, valid for values representable at the decimals in force (S.format_decimals, set by the
            # harness).  A fixed-point format with FEWER decimals than that loses digits: the text stands for the rounded value
            m = _FIXED_SPEC.fullmatch(spec or "")
            if m and int(m.group(1)) < S.format_decimals:
                return self._rounded(int(m.group(1)))._token()
        return self._token()

    def _rounded(self, n):
        """the value rounded to n decimals (what printing with n decimals and reading back gives): an integer multiple of 10^-n at
        distance <= 0.5 * 10^-n; NaN and the infinities are themselves"""
        def build():
            k = z3.Int(f"round{n}!{next(S.fresh)}")
            y = z3.ToReal(k) / (10 ** n)
            half = z3.Q(1, 2 * 10 ** n)
            return y, [z3.Or(z3.Not(ZB(self.fin())), z3.And(y - self.v <= half, self.v - y <= half))]

        y = _memo(f"rounded{n}", (self.v,), build)
        return RFloat(z3.If(ZB(self.fin()), y, self.v), self.nan, self.pinf, self.ninf)

    # arithmetic with arrays -> elementwise
    def _bin(self, o, f, swap=False):
        if isinstance(o, MaskedSelection):
            return NotImplemented           # scalar (op) x[mask]: the selection's reflected operator keeps the mask
        if _is_arr(o):
            if swap:
                return ew(lambda a, b: f(tf(b), tf(a)), self, o)
            return ew(lambda a, b: f(tf(a), tf(b)), self, o)
        if swap:
            return f(tf(o), self)
        return f(self, tf(o))

    def __add__(self, o):
        return self._bin(o, _add)

    def __radd__(self, o):
        return self._bin(o, _add, True)

    def __sub__(self, o):
        return self._bin(o, _sub)

    def __rsub__(self, o):
        return self._bin(o, _sub, True)

    def __mul__(self, o):
        return self._bin(o, _mul)

    def __rmul__(self, o):
        return self._bin(o, _mul, True)

    def __truediv__(self, o):
        return self._bin(o, _div)

    def __rtruediv__(self, o):
        return self._bin(o, _div, True)

    def __neg__(self):
        return _neg(self)

    def __pos__(self):
        return self

    def __abs__(self):
        return _abs(self)

    def __pow__(self, k):
        return self._bin(k, _pow)

    def __rpow__(self, k):
        return self._bin(k, _pow, True)

    def __mod__(self, o):
        return self._bin(o, _remainder)

    def __rmod__(self, o):
        return self._bin(o, _remainder, True)

    def __lt__(self, o):
        return self._bin(o, _lt)

    def __le__(self, o):
        return self._bin(o, _le)

    def __gt__(self, o):
        return self._bin(o, _lt, True)

    def __ge__(self, o):
        return self._bin(o, _le, True)

    def __eq__(self, o):
        if o is None or isinstance(o, str):
            return False
        return self._bin(o, _eq)

    def __ne__(self, o):
        if o is None or isinstance(o, str):
            return True
        return self._bin(o, lambda a, b: ~_eq(a, b))


# ---- Mode R -----------------------------------------------------------------------------------
class RFloat(SymFloat):
    """extended real: finite value v unless one of the flags nan/pinf/ninf holds"""

    __slots__ = ("v", "nan", "pinf", "ninf")
    __hash__ = None

    def __init__(self, v, nan=False, pinf=False, ninf=False):
        self.v, self.nan, self.pinf, self.ninf = v, nan, pinf, ninf

    def _key(self):
        return ("R", self.v.get_id(), _bid(self.nan), _bid(self.pinf), _bid(self.ninf))

    def concrete(self):
        if isc(self.nan) and isc(self.pinf) and isc(self.ninf):
            if self.nan:
                return math.nan
            if self.pinf:
                return math.inf
            if self.ninf:
                return -math.inf
            v = z3.simplify(self.v)
            if z3.is_rational_value(v):
                return v.numerator_as_long() / v.denominator_as_long()
        return None

    def fin(self):
        return NOT(OR(self.nan, self.pinf, self.ninf))

    def inf(self):
        return OR(self.pinf, self.ninf)

    def zero(self):
        return AND(self.fin(), self.v == 0)

    def neg_sign(self):
        return OR(self.ninf, AND(self.fin(), self.v < 0))

    def wellformed(self):
        """at most one special flag"""
        return AND(NOT(AND(self.nan, self.pinf)), NOT(AND(self.nan, self.ninf)), NOT(AND(self.pinf, self.ninf)))


class PyRFloat(RFloat):
    """Mode R stand-in for a plain Python `float` (what a caller hands over when it writes `variable.value = 0.5`), as opposed
    to the NumPy scalars and 0-d arrays every other symbolic number stands for.  Differences that matter to code under test:
    arithmetic between Python numbers stays a Python number, true division / modulo by zero and 0.0 ** negative raise
    ZeroDivisionError instead of giving inf/nan, and a float has none of ndarray's attributes (`size`, `item`, ...).  As soon as
    NumPy touches the value (`scalar(x)`, any ufunc or function, an array built from it) the result is a NumPy value: `tf()`
    strips the flavour."""

    __slots__ = ()
    __hash__ = None
    # `isinstance(x, float)` holds for a Python float (isinstance falls back on __class__); type(x) stays PyRFloat
    __class__ = property(lambda self: float)

    @staticmethod
    def of(x):
        x = tf(x)
        return PyRFloat(x.v, x.nan, x.pinf, x.ninf)

    def _plain(self):
        return RFloat(self.v, self.nan, self.pinf, self.ninf)

    def _bin(self, o, f, swap=False):
        if isinstance(o, MaskedSelection):
            return NotImplemented
        pyo = isinstance(o, PyRFloat) or (isinstance(o, (int, float)) and not isinstance(o, (np.generic, bool)))
        if not pyo:
            return RFloat._bin(self._plain(), o, f, swap)
        if f in (_div, _remainder, _pow):
            den, num = (self, tf(o)) if swap else (tf(o), self)
            if f is _pow:
                # base ** exponent: base = num when not swapped
                base, ex = (tf(o), self) if swap else (self, tf(o))
                if bool(SymBool(AND(base.zero(), ex.neg_sign()))):
                    raise ZeroDivisionError("0.0 cannot be raised to a negative power")
            elif bool(SymBool(den.zero())):
                raise ZeroDivisionError("float division by zero" if f is _div else "float modulo")
        r = RFloat._bin(self._plain(), o._plain() if isinstance(o, PyRFloat) else o, f, swap)
        return PyRFloat.of(r) if isinstance(r, RFloat) else r

    def __neg__(self):
        return PyRFloat.of(_neg(self._plain()))

    def __abs__(self):
        return PyRFloat.of(_abs(self._plain()))

    def __pos__(self):
        return self

    def _no(name):           # noqa: N805
        def get(self):
            raise AttributeError(f"'float' object has no attribute '{name}'")
        return property(get)

    for _n in ("ndim", "shape", "size", "dtype", "squeeze", "astype", "item", "flatten", "flat", "tolist", "sum", "max", "min", "copy", "T"):
        locals()[_n] = _no(_n)
    del _n, _no

    def __deepcopy__(self, memo):
        return self

    def __copy__(self):
        return self


def _bid(b):
    return bool(b) if isc(b) else b.get_id()


def _r_add(a, b):
    nan = OR(a.nan, b.nan, AND(a.pinf, b.ninf), AND(a.ninf, b.pinf))
    return RFloat(a.v + b.v, nan, AND(NOT(nan), OR(a.pinf, b.pinf)), AND(NOT(nan), OR(a.ninf, b.ninf)))


def _r_neg(a):
    return RFloat(-a.v, a.nan, a.ninf, a.pinf)


def _r_mul(a, b):
    nan = OR(a.nan, b.nan, AND(a.inf(), b.zero()), AND(b.inf(), a.zero()))
    isinf = AND(NOT(nan), OR(a.inf(), b.inf()))
    negative = ITEB(a.neg_sign(), NOT(b.neg_sign()), b.neg_sign())
    return RFloat(a.v * b.v, nan, AND(isinf, NOT(negative)), AND(isinf, negative))


def _r_div(a, b):
    nan = OR(a.nan, b.nan, AND(a.inf(), b.inf()), AND(a.zero(), b.zero()))
    isinf = AND(NOT(nan), OR(a.inf(), AND(b.zero(), NOT(a.zero()))))
    # signed zero is not modelled: x/0 takes the sign of x (the zero is +0)
    negative = ITEB(a.neg_sign(), NOT(AND(b.neg_sign(), NOT(b.zero()))), AND(b.neg_sign(), NOT(b.zero())))
    tozero = OR(AND(a.fin(), b.inf()), b.zero())
    v = ITE(tozero, R0, a.v / ITE(b.zero(), R1, b.v))
    return RFloat(v, nan, AND(isinf, NOT(negative)), AND(isinf, negative))


def _r_abs(a):
    return RFloat(ITE(a.v < 0, -a.v, a.v) if not z3.is_rational_value(a.v) else _qabs(a.v), a.nan, OR(a.pinf, a.ninf), False)


def _qabs(v):
    s = z3.simplify(v < 0)
    return z3.simplify(-v) if z3.is_true(s) else v


def _r_cmp(a, b, op):
    nn = AND(NOT(a.nan), NOT(b.nan))
    if op == "lt":
        r = OR(AND(a.ninf, NOT(b.ninf)), AND(b.pinf, NOT(a.pinf)), AND(a.fin(), b.fin(), a.v < b.v))
    elif op == "le":
        r = OR(a.ninf, b.pinf, AND(a.fin(), b.fin(), a.v <= b.v))
    else:
        r = OR(AND(a.pinf, b.pinf), AND(a.ninf, b.ninf), AND(a.fin(), b.fin(), a.v == b.v))
    r = AND(nn, r)
    if not isc(r):
        r = _fold(r)
    return SymBool(r)


def _fold(e):
    s = z3.simplify(e)
    if z3.is_true(s):
        return True
    if z3.is_false(s):
        return False
    return e


def _r_where(c, a, b):
    return RFloat(ITE(c, a.v, b.v), ITEB(c, a.nan, b.nan), ITEB(c, a.pinf, b.pinf), ITEB(c, a.ninf, b.ninf))


def _memo(kind, operands, build):
    key = (kind,) + tuple(o.get_id() for o in operands)
    hit = S.memo.get(key)
    if hit is None:
        res, cons = build()
        hit = (operands, res, cons)
        S.memo[key] = hit
    for c in hit[2]:
        S.add_side(c)
    return hit[1]


def _r_sqrt(a):
    def build():
        w = z3.Real(f"sqrt!{next(S.fresh)}")
        return w, [z3.And(w >= 0, z3.Implies(a.v >= 0, w * w == a.v))]

    c = a.concrete()
    if c is not None and c == c and c >= 0 and math.isfinite(c) and math.sqrt(c) ** 2 == c:
        return RFloat(rv(math.sqrt(c)))
    w = _memo("sqrt", (a.v,), build)
    nan = OR(a.nan, a.ninf, AND(a.fin(), a.v < 0))
    return RFloat(w, nan, a.pinf, False)


_UF = {}


def uf(name, arity=1):
    if (name, arity) not in _UF:
        _UF[(name, arity)] = z3.Function("np_" + name, *([z3.RealSort()] * (arity + 1)))
    return _UF[(name, arity)]


PI = None


def pi_const():
    """the library uses the double np.pi; its exact rational value is the 'pi' of Mode R (cos(fl(pi)) rounds to -1.0)"""
    global PI
    if PI is None:
        PI = rv(math.pi)
    return PI


def _r_unary_uf(name, a):
    """abstract transcendental: value = np_<name>(v) on finite operands with instance axioms; specials by table"""
    f = uf(name)
    e = f(a.v)
    ax = []
    x = a.v
    nan = a.nan
    pinf = False
    ninf = False
    v = e
    if name == "exp":
        ax += [e > 0, z3.Implies(x == 0, e == 1), z3.Implies(x < 0, e < 1), z3.Implies(x > 0, e > 1)]
        v = ITE(a.ninf, R0, e)
        pinf = a.pinf
    elif name in ("log", "log10", "log1p"):
        sh = R1 if name == "log1p" else R0
        ax += [z3.Implies(x + sh == 1, e == 0), z3.Implies(z3.And(x + sh > 0, x + sh < 1), e < 0), z3.Implies(x + sh > 1, e > 0)]
        nan = OR(a.nan, a.ninf, AND(a.fin(), x + sh < 0))
        pinf = a.pinf
        ninf = AND(a.fin(), x + sh == 0)
    elif name in ("cos", "sin"):
        ax += [e >= -1, e <= 1]
        if name == "cos":
            p = pi_const()
            ax += [z3.Implies(x == 0, e == 1), z3.Implies(x == p, e == -1), z3.Implies(x == -p, e == -1)]
        else:
            ax += [z3.Implies(x == 0, e == 0)]
        nan = OR(a.nan, a.inf())
    elif name == "tanh":
        ax += [e > -1, e < 1, z3.Implies(x == 0, e == 0)]
        v = ITE(a.pinf, R1, ITE(a.ninf, -R1, e))
    elif name in ("tan", "arctan", "sinh", "arcsinh"):
        ax += [z3.Implies(x == 0, e == 0)]
        if name == "tan":
            nan = OR(a.nan, a.inf())
        elif name == "arctan":
            p = pi_const()
            v = ITE(a.pinf, p / 2, ITE(a.ninf, -p / 2, e))
        else:
            pinf, ninf = a.pinf, a.ninf
    elif name == "cosh":
        ax += [e >= 1, z3.Implies(x == 0, e == 1)]
        pinf = a.inf()
    elif name in ("arccos", "arcsin", "arctanh"):
        nan = OR(a.nan, a.inf(), AND(a.fin(), OR(x < -1, x > 1)))
        if name == "arccos":
            ax += [z3.Implies(x == 1, e == 0)]
        else:
            ax += [z3.Implies(x == 0, e == 0)]
        if name == "arctanh":
            pinf = AND(a.fin(), x == 1)
            ninf = AND(a.fin(), x == -1)
    elif name == "arccosh":
        nan = OR(a.nan, a.ninf, AND(a.fin(), x < 1))
        pinf = a.pinf
        ax += [z3.Implies(x == 1, e == 0)]
    else:
        raise Unsupported(f"uf {name}")
    for c in ax:
        S.add_side(c)
    S.uf_apps.setdefault(name, []).append((x, e))
    return RFloat(v, nan, AND(pinf, NOT(nan)), AND(ninf, NOT(nan)))


_MONO_INC = {"exp", "log", "log10", "log1p", "tanh", "arctan", "sinh", "arcsinh", "arcsin", "arctanh", "arccosh"}


def uf_pair_axioms():
    """pairwise instance axioms (monotonicity, inverse pairs) over the applications seen on this path"""
    out = []
    for name, apps in S.uf_apps.items():
        if name in _MONO_INC:
            seen = {}
            for x, e in apps:
                seen[x.get_id()] = (x, e)
            lst = list(seen.values())
            for (x1, e1), (x2, e2) in itertools.combinations(lst, 2):
                out.append(z3.And(z3.Implies(x1 < x2, e1 < e2), z3.Implies(x2 < x1, e2 < e1)))
    # exp(log t) = t, log(exp t) = t   (instances: the argument of one is syntactically the other's result)
    exps = S.uf_apps.get("exp", [])
    logs = S.uf_apps.get("log", [])
    for (xl, el) in logs:
        for (xe, ee) in exps:
            out.append(z3.Implies(z3.And(xl > 0, xe == el), ee == xl))
            out.append(z3.Implies(xl == ee, el == xe))
    return out


def _r_pow(a, b):
    cb = b.concrete()
    if cb is not None:
        if cb == 2.0:
            return _r_mul(a, a)
        if cb == 1.0:
            return a
        if cb == 0.0:
            return RFloat(R1)
        if cb == 0.5:
            return _r_sqrt(a)
    f = uf("pow", 2)
    e = f(a.v, b.v)
    x, y = a.v, b.v
    for c in [
        z3.Implies(y == 0, e == 1), z3.Implies(y == 1, e == x), z3.Implies(y == 2, e == x * x),
        z3.Implies(x >= 0, e >= 0), z3.Implies(z3.And(x == 0, y > 0), e == 0), z3.Implies(x == 1, e == 1),
        z3.Implies(z3.And(x > 0), e > 0),
        z3.Implies(z3.And(x > 1, y > 0), e > 1), z3.Implies(z3.And(x > 0, x < 1, y > 0), e < 1),
        z3.Implies(z3.And(x > 1, y < 0), e < 1), z3.Implies(z3.And(x > 0, x < 1, y < 0), e > 1),
    ]:
        S.add_side(c)
    S.uf_apps.setdefault("pow", []).append(((x, y), e))
    # specials (the cases the library can reach): nan operands; inf base; zero base with negative exponent
    nan = OR(AND(a.nan, NOT(AND(b.fin(), y == 0))), AND(b.nan, NOT(AND(a.fin(), x == 1))))
    binf = AND(NOT(nan), a.inf())
    pinf = OR(AND(binf, b.fin(), y > 0), AND(a.fin(), x == 0, b.fin(), y < 0),
              AND(b.pinf, a.fin(), OR(x > 1, x < -1)), AND(b.ninf, a.fin(), x < 1, x > -1))
    tozero = OR(AND(binf, b.fin(), y < 0), AND(b.pinf, a.fin(), x < 1, x > -1), AND(b.ninf, a.fin(), OR(x > 1, x < -1)))
    v = ITE(tozero, R0, ITE(AND(a.inf(), b.fin(), y == 0), R1, e))
    return RFloat(v, nan, AND(NOT(nan), pinf), False)


# ---- Mode F -----------------------------------------------------------------------------------
F64 = z3.Float64()
RNE = z3.RNE()


class FFloat(SymFloat):
    __slots__ = ("f",)
    __hash__ = None

    def __init__(self, f):
        self.f = f

    def _key(self):
        return ("F", self.f.get_id())

    def concrete(self):
        f = z3.simplify(self.f)
        if z3.is_fp_value(f):
            return fp_to_float(f)
        return None


def fp_to_float(f):
    if f.isNaN():
        return math.nan
    if f.isInf():
        return -math.inf if f.isNegative() else math.inf
    if f.isZero():
        return -0.0 if f.isNegative() else 0.0
    import struct
    bv = z3.simplify(z3.fpToIEEEBV(f))
    return struct.unpack("<d", struct.pack("<Q", bv.as_long()))[0]


def fv(x):
    return z3.FPVal(float(x), F64)


def _f_relaxed(kind, ops, build_axioms):
    def build():
        r = z3.FP(f"{kind}!{next(S.fresh)}", F64)
        return r, build_axioms(r)

    return _memo("F" + kind, ops, build)


def _fin(x):
    return z3.And(z3.Not(z3.fpIsNaN(x)), z3.Not(z3.fpIsInf(x)))


F0 = None
F1 = None


def _f_consts():
    global F0, F1
    if F0 is None:
        F0 = z3.FPVal(0.0, F64)
        F1 = z3.FPVal(1.0, F64)
    return F0, F1


def _absle(x, y):
    return z3.fpLEQ(z3.fpAbs(x), z3.fpAbs(y))


def _midrange(x):
    """2^-500 <= |x| <= 2^500 : products/squares of such numbers neither overflow nor lose precision"""
    return z3.And(z3.fpGEQ(z3.fpAbs(x), fv(2.0 ** -500)), z3.fpLEQ(z3.fpAbs(x), fv(2.0 ** 500)))


def _f_mul(a, b):
    """IEEE multiplication.  exact mode: fp.mul.  relaxed mode: a memoised fresh constant constrained by instance axioms
    that hold for *every* pair of doubles under round-to-nearest-even (each one is justified next to it), i.e. an
    over-approximation of fp.mul: unsat results carry over, sat results are only candidates."""
    x, y = a.f, b.f
    if S.fexact:
        return FFloat(z3.fpMul(RNE, x, y))
    for k, other in ((a, b), (b, a)):
        c = k.concrete()
        if c is not None and c == 1.0:
            return FFloat(other.f)               # IEEE: x * 1.0 is x for every x (sign of zero, infinities, NaN included)
        if c is not None and c == -1.0:
            return FFloat(z3.fpNeg(other.f))
        if c is not None and c == c and c != 0 and math.isfinite(c) and math.frexp(abs(c))[0] == 0.5:
            return FFloat(z3.fpMul(RNE, x, y))   # power of two: cheap for the bit-blaster
    if x.get_id() > y.get_id():
        x, y = y, x
    Z, ONE = _f_consts()

    def ax(r):
        xz, yz = z3.fpIsZero(x), z3.fpIsZero(y)
        xi, yi = z3.fpIsInf(x), z3.fpIsInf(y)
        nan = z3.Or(z3.fpIsNaN(x), z3.fpIsNaN(y), z3.And(xi, yz), z3.And(xz, yi))
        fin = z3.And(_fin(x), _fin(y))
        return [
            z3.fpIsNaN(r) == nan,                                                        # IEEE 754 table
            z3.Implies(z3.Not(nan), z3.fpIsNegative(r) == z3.Xor(z3.fpIsNegative(x), z3.fpIsNegative(y))),  # sign rule
            z3.Implies(z3.And(z3.Not(nan), z3.Or(xi, yi)), z3.fpIsInf(r)),
            z3.Implies(z3.And(fin, z3.fpEQ(x, ONE)), z3.fpEQ(r, y)),                     # exact products
            z3.Implies(z3.And(fin, z3.fpEQ(y, ONE)), z3.fpEQ(r, x)),
            z3.Implies(z3.And(fin, z3.Or(xz, yz)), z3.fpIsZero(r)),
            # |x| <= 1 => |x*y| <= |y| exactly, |y| is representable and rounding is monotone => |r| <= |y| (so finite)
            z3.Implies(z3.And(fin, z3.fpLEQ(z3.fpAbs(x), ONE)), _absle(r, y)),
            z3.Implies(z3.And(fin, z3.fpLEQ(z3.fpAbs(y), ONE)), _absle(r, x)),
            # |x| >= 1 => |x*y| >= |y| => |r| >= |y| (possibly +inf)
            z3.Implies(z3.And(fin, z3.fpGEQ(z3.fpAbs(x), ONE)), _absle(y, r)),
            z3.Implies(z3.And(fin, z3.fpGEQ(z3.fpAbs(y), ONE)), _absle(x, r)),
            # no overflow / no underflow to zero inside the mid range
            z3.Implies(z3.And(_midrange(x), _midrange(y)), z3.And(_fin(r), z3.Not(z3.fpIsZero(r)))),
        ]

    r = _f_relaxed("mul", (x, y), ax)
    apps = S.uf_apps.setdefault("Fmul", [])
    if x.get_id() == y.get_id():
        # squares are monotone in |.|: |p| <= |q|  =>  p*p <= q*q   (rounding is monotone)
        for (p, q), m in apps:
            if p.get_id() == q.get_id() and p.get_id() != x.get_id():
                S.add_side(z3.Implies(z3.And(_fin(p), _fin(x), _absle(p, x)), z3.fpLEQ(m, r)))
                S.add_side(z3.Implies(z3.And(_fin(p), _fin(x), _absle(x, p)), z3.fpLEQ(r, m)))
    apps.append(((x, y), r))
    return FFloat(r)


def _f_div(a, b):
    x, y = a.f, b.f
    if S.fexact:
        return FFloat(z3.fpDiv(RNE, x, y))
    c = b.concrete()
    if c is not None and c == 1.0:
        return FFloat(x)                         # IEEE: x / 1.0 is x for every x
    if c is not None and c == c and c != 0 and math.isfinite(c) and math.frexp(abs(c))[0] == 0.5:
        return FFloat(z3.fpDiv(RNE, x, y))
    Z, ONE = _f_consts()

    def ax(r):
        xz, yz = z3.fpIsZero(x), z3.fpIsZero(y)
        xi, yi = z3.fpIsInf(x), z3.fpIsInf(y)
        nan = z3.Or(z3.fpIsNaN(x), z3.fpIsNaN(y), z3.And(xz, yz), z3.And(xi, yi))
        fin = z3.And(_fin(x), _fin(y), z3.Not(yz))
        return [
            z3.fpIsNaN(r) == nan,
            z3.Implies(z3.Not(nan), z3.fpIsNegative(r) == z3.Xor(z3.fpIsNegative(x), z3.fpIsNegative(y))),
            z3.Implies(z3.And(z3.Not(nan), z3.Or(yz, xi)), z3.fpIsInf(r)),               # x/0, inf/y
            z3.Implies(z3.And(z3.Not(nan), z3.Or(xz, yi)), z3.fpIsZero(r)),              # 0/y, x/inf
            z3.Implies(z3.And(fin, z3.fpEQ(x, y)), z3.fpEQ(r, ONE)),                     # exact quotients
            z3.Implies(z3.And(fin, z3.fpEQ(z3.fpNeg(x), y)), z3.fpEQ(r, z3.fpNeg(ONE))),
            z3.Implies(z3.And(fin, z3.fpEQ(y, ONE)), z3.fpEQ(r, x)),
            # |x| <= |y| => |x/y| <= 1 exactly => |r| <= 1 ;  |x| >= |y| => |r| >= 1   (monotone rounding, 1 representable)
            z3.Implies(z3.And(fin, _absle(x, y)), z3.fpLEQ(z3.fpAbs(r), ONE)),
            z3.Implies(z3.And(fin, _absle(y, x)), z3.fpGEQ(z3.fpAbs(r), ONE)),
            # strict versions: |x| > |y| => x/y >= 1 + ulp(y)/|y| > 1 + 2^-53 => rounds to at least 1 + 2^-52;  |x| < |y| => x/y <= 1 - 2^-53
            # (a double) => |r| < 1.  (the quotient of two distinct doubles never rounds to 1)
            z3.Implies(z3.And(fin, z3.Not(_absle(x, y))), z3.fpGT(z3.fpAbs(r), ONE)),
            z3.Implies(z3.And(fin, z3.Not(_absle(y, x)), z3.Not(xz)), z3.fpLT(z3.fpAbs(r), ONE)),
            z3.Implies(z3.And(_midrange(x), _midrange(y)), z3.And(_fin(r), z3.Not(z3.fpIsZero(r)))),
        ]

    return FFloat(_f_relaxed("div", (x, y), ax))


def _f_sqrt(a):
    x = a.f
    if S.fexact:
        return FFloat(z3.fpSqrt(RNE, x))
    Z, ONE = _f_consts()

    def ax(r):
        pos = z3.And(_fin(x), z3.fpGT(x, Z))
        return [
            z3.fpIsNaN(r) == z3.Or(z3.fpIsNaN(x), z3.And(z3.fpIsNegative(x), z3.Not(z3.fpIsZero(x)))),
            z3.Implies(z3.fpIsZero(x), z3.And(z3.fpIsZero(r), z3.fpIsNegative(r) == z3.fpIsNegative(x))),
            z3.Implies(pos, z3.And(_fin(r), z3.fpGT(r, Z))),                 # sqrt neither underflows nor overflows
            z3.Implies(z3.fpEQ(x, ONE), z3.fpEQ(r, ONE)),
            # 0 < x < 1 => x <= sqrt(x) <= 1 exactly; both bounds representable, rounding monotone
            z3.Implies(z3.And(pos, z3.fpLT(x, ONE)), z3.And(z3.fpGEQ(r, x), z3.fpLEQ(r, ONE))),
            z3.Implies(z3.And(pos, z3.fpGT(x, ONE)), z3.And(z3.fpLEQ(r, x), z3.fpGEQ(r, ONE))),
            z3.Implies(z3.And(z3.fpIsInf(x), z3.fpIsPositive(x)), z3.And(z3.fpIsInf(r), z3.fpIsPositive(r))),
        ]

    r = _f_relaxed("sqrt", (x,), ax)
    # sqrt(fl(t*t)) = |t| (no overflow/underflow): classical IEEE result, guarded by the mid range; with the monotonicity
    # of sqrt:  0 <= x <= fl(t*t)  =>  sqrt(x) <= |t|   and   x >= fl(t*t)  =>  sqrt(x) >= |t|
    seen = set()
    for (p, q), m in S.uf_apps.get("Fmul", []):
        if p.get_id() == q.get_id() and p.get_id() not in seen:
            seen.add(p.get_id())
            S.add_side(z3.Implies(z3.And(_midrange(p), z3.fpEQ(x, m)), z3.fpEQ(r, z3.fpAbs(p))))
            S.add_side(z3.Implies(z3.And(_midrange(p), z3.fpGEQ(x, Z), z3.fpLEQ(x, m)), z3.fpLEQ(r, z3.fpAbs(p))))
            S.add_side(z3.Implies(z3.And(_midrange(p), z3.fpGEQ(x, m), _fin(x)), z3.fpGEQ(r, z3.fpAbs(p))))
    # sqrt is monotone
    apps = S.uf_apps.setdefault("Fsqrt", [])
    for (p,), m in apps:
        if p.get_id() != x.get_id():
            S.add_side(z3.Implies(z3.And(z3.fpGEQ(p, Z), z3.fpLEQ(p, x)), z3.fpLEQ(m, r)))
            S.add_side(z3.Implies(z3.And(z3.fpGEQ(x, Z), z3.fpLEQ(x, p)), z3.fpLEQ(r, m)))
    apps.append(((x,), r))
    return FFloat(r)


def _f_unary_uf(name, a):
    x = a.f

    def ax(r):
        out = [z3.Implies(z3.fpIsNaN(x), z3.fpIsNaN(r))]
        Z, ONE = _f_consts()
        if name == "exp":
            out += [z3.Implies(z3.Not(z3.fpIsNaN(x)), z3.And(z3.Not(z3.fpIsNaN(r)), z3.fpGEQ(r, Z))),
                    z3.Implies(z3.fpIsZero(x), z3.fpEQ(r, ONE)),
                    z3.Implies(z3.fpLEQ(x, Z), z3.fpLEQ(r, ONE)), z3.Implies(z3.fpGEQ(x, Z), z3.fpGEQ(r, ONE)),
                    z3.Implies(z3.And(z3.fpIsInf(x), z3.fpIsNegative(x)), z3.fpIsZero(r))]
        elif name in ("cos", "sin"):
            out += [z3.Implies(_fin(x), z3.And(z3.fpGEQ(r, z3.fpNeg(ONE)), z3.fpLEQ(r, ONE))),
                    z3.Implies(z3.fpIsInf(x), z3.fpIsNaN(r))]
            if name == "cos":
                out += [z3.Implies(z3.fpIsZero(x), z3.fpEQ(r, ONE))]
        elif name == "log":
            out += [z3.Implies(z3.fpLT(x, Z), z3.fpIsNaN(r)), z3.Implies(z3.fpEQ(x, ONE), z3.fpIsZero(r)),
                    # contract of a sane libm on doubles: log(0) = -inf, log(+inf) = +inf, and for finite x > 0 the result is finite,
                    # at most 745 in magnitude (log(5e-324) = -744.4, log(1.8e308) = 709.8) and zero only at x = 1 (|log x| >= 1.1e-16 otherwise)
                    z3.Implies(z3.fpIsZero(x), z3.And(z3.fpIsInf(r), z3.fpIsNegative(r))),
                    z3.Implies(z3.And(z3.fpIsInf(x), z3.fpIsPositive(x)), z3.And(z3.fpIsInf(r), z3.fpIsPositive(r))),
                    z3.Implies(z3.And(_fin(x), z3.fpGT(x, Z)), z3.And(_fin(r), z3.fpLEQ(z3.fpAbs(r), fv(745.0)),
                                                                      z3.Or(z3.fpEQ(x, ONE), z3.fpGEQ(z3.fpAbs(r), fv(2.0 ** -54))))),
                    z3.Implies(z3.And(_fin(x), z3.fpGT(x, ONE)), z3.fpGT(r, Z)), z3.Implies(z3.And(z3.fpGT(x, Z), z3.fpLT(x, ONE)), z3.fpLT(r, Z))]
        return out

    return FFloat(_f_relaxed("uf_" + name, (x,), ax))


def _f_pow(a, b):
    cb = b.concrete()
    if cb is not None:
        if cb == 2.0:
            return _f_mul(a, a)
        if cb == 1.0:
            return a
        if cb == 0.0:
            return FFloat(_f_consts()[1])
    x, y = a.f, b.f
    Z, ONE = _f_consts()

    def ax(r):
        return [z3.Implies(z3.And(z3.fpGEQ(x, Z), z3.Not(z3.fpIsNaN(y))), z3.And(z3.Not(z3.fpIsNaN(r)), z3.fpGEQ(r, Z))),
                z3.Implies(z3.fpIsZero(y), z3.fpEQ(r, ONE)),
                z3.Implies(z3.fpIsNaN(x), z3.Or(z3.fpIsNaN(r), z3.fpIsZero(y)))]

    return FFloat(_f_relaxed("pow", (x, y), ax))


# ---- generic scalar operations (dispatch on mode) -------------------------------------------
def const(x):
    x = float(x)
    if S.mode == "R":
        if x != x:
            return RFloat(R0, True)
        if x == math.inf:
            return RFloat(R0, False, True)
        if x == -math.inf:
            return RFloat(R0, False, False, True)
        return RFloat(rv(x))
    return FFloat(fv(x))


def var(name, special=False):
    """fresh symbolic float.  Mode R: finite unless special=True (then nan/+inf/-inf flags are symbolic)."""
    if S.mode == "R":
        if special:
            return RFloat(z3.Real(name), z3.Bool(name + "!nan"), z3.Bool(name + "!pinf"), z3.Bool(name + "!ninf"))
        return RFloat(z3.Real(name))
    return FFloat(z3.FP(name, F64))


def tf(o):
    """to symbolic float scalar"""
    if isinstance(o, SymFloat):
        return o._plain() if type(o) is PyRFloat else o
    if isinstance(o, SymBool):
        if isc(o.e):
            return const(1.0 if o.e else 0.0)
        if S.mode == "R":
            return RFloat(z3.If(o.e, R1, R0))
        return FFloat(z3.If(o.e, fv(1.0), fv(0.0)))
    if isinstance(o, SymInt):
        if S.mode == "R":
            return RFloat(z3.ToReal(o.i) if not z3.is_int_value(o.i) else z3.RealVal(o.i.as_long()))
        raise Unsupported("SymInt in Mode F")
    if isinstance(o, SymArray):
        if o.a.ndim == 0 or o.a.size == 1:
            return tf(o.a.item())
        raise Unsupported("array where a scalar is required")
    if isinstance(o, np.ndarray):
        if o.ndim == 0 or o.size == 1:
            return tf(o.item())
        raise Unsupported("array where a scalar is required")
    if isc(o):
        return const(1.0 if o else 0.0)
    if isinstance(o, (int, float, np.floating, np.integer)):
        return const(float(o))
    raise Unsupported(f"tf {type(o)}")


def _add(a, b):
    S.stats["elem_ops"] += 1
    if S.mode == "R":
        return _r_add(a, b)
    return FFloat(z3.fpAdd(RNE, a.f, b.f))


def _neg(a):
    if S.mode == "R":
        return _r_neg(a)
    return FFloat(z3.fpNeg(a.f))


def _sub(a, b):
    S.stats["elem_ops"] += 1
    if S.mode == "R":
        return _r_add(a, _r_neg(b))
    return FFloat(z3.fpSub(RNE, a.f, b.f))


def _mul(a, b):
    S.stats["elem_ops"] += 1
    if S.mode == "R":
        return _r_mul(a, b)
    return _f_mul(a, b)


def _div(a, b):
    S.stats["elem_ops"] += 1
    if S.mode == "R":
        return _r_div(a, b)
    return _f_div(a, b)


def _abs(a):
    if S.mode == "R":
        return _r_abs(a)
    return FFloat(z3.fpAbs(a.f))


def _pow(a, b):
    if S.mode == "R":
        return _r_pow(a, b)
    return _f_pow(a, b)


def _lt(a, b):
    if S.mode == "R":
        return _r_cmp(a, b, "lt")
    return SymBool(_fold(z3.fpLT(a.f, b.f)))


def _le(a, b):
    if S.mode == "R":
        return _r_cmp(a, b, "le")
    return SymBool(_fold(z3.fpLEQ(a.f, b.f)))


def _eq(a, b):
    if S.mode == "R":
        return _r_cmp(a, b, "eq")
    return SymBool(_fold(z3.fpEQ(a.f, b.f)))


def _isnan(a):
    a = tf(a)
    if S.mode == "R":
        return SymBool(a.nan)
    return SymBool(_fold(z3.fpIsNaN(a.f)))


def _isinf(a):
    a = tf(a)
    if S.mode == "R":
        return SymBool(a.inf())
    return SymBool(_fold(z3.fpIsInf(a.f)))


def _isfinite(a):
    a = tf(a)
    if S.mode == "R":
        return SymBool(a.fin())
    return SymBool(_fold(_fin(a.f)))


def _sqrt(a):
    a = tf(a)
    return _r_sqrt(a) if S.mode == "R" else _f_sqrt(a)


def _unary_uf(name):
    def f(a):
        a = tf(a)
        return _r_unary_uf(name, a) if S.mode == "R" else _f_unary_uf(name, a)

    return f


def _select(c, a, b):
    """scalar select on a boolean expression c"""
    if isc(c):
        return a if c else b
    if isinstance(a, (SymBool, bool, np.bool_)) and isinstance(b, (SymBool, bool, np.bool_)):
        return SymBool(ITEB(c, tb(a), tb(b)))
    a, b = tf(a), tf(b)
    if S.mode == "R":
        return _r_where(c, a, b)
    return FFloat(ITE(c, a.f, b.f))


def _is_pyint(x):
    return isinstance(x, (int, np.integer)) and not isinstance(x, (bool, np.bool_))


def _where(c, a, b):
    c = tb(c)
    if _is_pyint(a) and _is_pyint(b) and not isc(c):
        # integer-valued selection (index arithmetic): concretise by forking on the condition
        return int(a) if bool(SymBool(c)) else int(b)
    if S.fork_where and not isc(c):
        return _promote(a, b)[0] if bool(SymBool(c)) else _promote(a, b)[1]
    if isc(c):
        return _promote(a, b)[0] if c else _promote(a, b)[1]
    return _select(c, a, b)


def _promote(a, b):
    """np.where promotes bool and float to float"""
    ab = isinstance(a, (SymBool, bool, np.bool_))
    bb = isinstance(b, (SymBool, bool, np.bool_))
    if ab and bb:
        return tb_(a), tb_(b)
    return tf(a), tf(b)


def _maximum(a, b):
    a, b = tf(a), tf(b)
    if S.mode == "R":
        r = _select((a >= b).e, a, b)
        return _select(OR(a.nan, b.nan), const(math.nan), r)
    return FFloat(z3.If(z3.Or(z3.fpIsNaN(a.f), z3.fpIsNaN(b.f)), fv(math.nan), z3.fpMax(a.f, b.f)))


def _minimum(a, b):
    a, b = tf(a), tf(b)
    if S.mode == "R":
        r = _select((a <= b).e, a, b)
        return _select(OR(a.nan, b.nan), const(math.nan), r)
    return FFloat(z3.If(z3.Or(z3.fpIsNaN(a.f), z3.fpIsNaN(b.f)), fv(math.nan), z3.fpMin(a.f, b.f)))


def _fmax(a, b):
    """nan-ignoring max (np.fmax / nanmax semantics)"""
    a, b = tf(a), tf(b)
    r = _select((a >= b).e, a, b)
    return _select(_isnan(a).e, b, _select(_isnan(b).e, a, r))


def _fmin(a, b):
    a, b = tf(a), tf(b)
    r = _select((a <= b).e, a, b)
    return _select(_isnan(a).e, b, _select(_isnan(b).e, a, r))


def _nan_to_num(x, nan=0.0, posinf=None, neginf=None, copy=True):
    x = tf(x)
    big = 1.7976931348623157e308
    posinf = big if posinf is None else posinf
    neginf = -big if neginf is None else neginf
    if S.mode == "R":
        return _select(x.nan, tf(nan), _select(x.pinf, tf(posinf), _select(x.ninf, tf(neginf), x)))
    f = x.f
    return FFloat(z3.If(z3.fpIsNaN(f), tf(nan).f, z3.If(z3.fpIsInf(f), z3.If(z3.fpIsNegative(f), tf(neginf).f, tf(posinf).f), f)))


def _np_nan_to_num(x, copy=True, nan=0.0, posinf=None, neginf=None):
    """np.nan_to_num; copy=False on an array operand replaces the values in place and returns the operand itself"""
    r = ew(lambda e: _nan_to_num(e, nan, posinf, neginf), x)
    if not copy and isinstance(x, SymArray):
        x.a[...] = _obj(r)
        return x if x.a.ndim else x.a.item()
    return r


def _isclose(a, b, rtol=1e-5, atol=1e-8, equal_nan=False):
    a, b = tf(a), tf(b)
    # numpy: finite(b) & (|a-b| <= atol + rtol*|b|)  |  (a == b)   [| both nan]
    d = _abs(_sub(a, b))
    lim = _add(tf(atol), _mul(tf(rtol), _abs(b)))
    r = (_isfinite(b) & _le(d, lim)) | _eq(a, b)
    if equal_nan:
        r = r | (_isnan(a) & _isnan(b))
    return r


def _sign(a):
    a = tf(a)
    z = const(0.0)
    return _select(_isnan(a).e, a, _select(_lt(z, a).e, const(1.0), _select(_lt(a, z).e, const(-1.0), z)))


def _floor(a):
    a = tf(a)
    if S.mode != "R":
        return FFloat(z3.fpRoundToIntegral(z3.RTN(), a.f))
    return RFloat(z3.ToReal(z3.ToInt(a.v)), a.nan, a.pinf, a.ninf)


def _ceil(a):
    a = tf(a)
    if S.mode != "R":
        return FFloat(z3.fpRoundToIntegral(z3.RTP(), a.f))
    return RFloat(-z3.ToReal(z3.ToInt(-a.v)), a.nan, a.pinf, a.ninf)


def _round(a, decimals=0, out=None):
    a = tf(a)
    if decimals != 0:
        raise Unsupported("round with decimals")
    if S.mode != "R":
        return FFloat(z3.fpRoundToIntegral(RNE, a.f))
    fl = z3.ToInt(a.v)
    frac = a.v - z3.ToReal(fl)
    r = z3.If(frac < z3.Q(1, 2), fl, z3.If(frac > z3.Q(1, 2), fl + 1, z3.If(fl % 2 == 0, fl, fl + 1)))
    return RFloat(z3.ToReal(r), a.nan, a.pinf, a.ninf)


def _remainder(a, b):
    """np.remainder (python %): result has the sign of the divisor; floored"""
    a, b = tf(a), tf(b)
    if S.mode != "R":
        raise Unsupported("remainder in Mode F")
    q = z3.ToInt(a.v / ITE(b.v == 0, R1, b.v))
    r = a.v - z3.ToReal(q) * b.v
    nan = OR(a.nan, b.nan, a.inf(), b.zero())
    # finite % +-inf: a if signs agree (or a == 0), else b (inf)  -> numpy gives a or inf; model a when same sign
    same = IFFB(a.neg_sign(), b.neg_sign())
    v = ITE(b.inf(), a.v, r)
    pinf = AND(NOT(nan), b.pinf, NOT(OR(same, a.zero())))
    ninf = AND(NOT(nan), b.ninf, NOT(OR(same, a.zero())))
    return RFloat(v, nan, pinf, ninf)


def _fmod(a, b):
    """np.fmod (C fmod): result has the sign of the dividend; truncated"""
    a, b = tf(a), tf(b)
    if S.mode != "R":
        raise Unsupported("fmod in Mode F")
    bb = ITE(b.v == 0, R1, b.v)
    qa = z3.ToInt(ITE(a.v < 0, -a.v, a.v) / ITE(bb < 0, -bb, bb))
    mag = ITE(a.v < 0, -a.v, a.v) - z3.ToReal(qa) * ITE(bb < 0, -bb, bb)
    r = ITE(a.v < 0, -mag, mag)
    nan = OR(a.nan, b.nan, a.inf(), b.zero())
    return RFloat(ITE(b.inf(), a.v, r), nan, False, False)


def _logical_not(a):
    return SymBool(NOT(tb(a)))


def _logical_and(a, b):
    return SymBool(AND(tb(a), tb(b)))


def _logical_or(a, b):
    return SymBool(OR(tb(a), tb(b)))


def _arctan2(a, b):
    a, b = tf(a), tf(b)
    if S.mode != "R":
        raise Unsupported("arctan2 in Mode F")
    e = uf("arctan2", 2)(a.v, b.v)
    return RFloat(e, OR(a.nan, b.nan), False, False)


def _clip(x, lo, hi, out=None, **kw):
    return _minimum(_maximum(x, lo), hi)


def same(a, b):
    """z3 Bool: identical values, NaN == NaN (Mode R ignores the sign of zero; Mode F: bit-identical up to NaN payload)"""
    a, b = tf(a), tf(b)
    if a is b or a._key() == b._key():
        return z3.BoolVal(True)       # structurally identical terms
    if S.mode == "R":
        return ZB(OR(AND(a.nan, b.nan), AND(a.pinf, b.pinf), AND(a.ninf, b.ninf), AND(a.fin(), b.fin(), a.v == b.v)))
    return z3.Or(z3.And(z3.fpIsNaN(a.f), z3.fpIsNaN(b.f)), a.f == b.f)


def abstract(name, *args, lo=None, hi=None):
    """application of an uninterpreted function (Mode R): used by harnesses to make operators/terms/hedges abstract
    through the library's own extension points.  Contract of the stub: any non-finite operand gives NaN; the result is
    finite otherwise (optionally within [lo, hi]).  Arrays are handled elementwise (NumPy broadcasting)."""
    if S.mode != "R":
        raise Unsupported("abstract functions are Mode R only")

    def one(*xs):
        xs = [tf(x) for x in xs]
        f = uf("A_" + name, len(xs))
        e = f(*[x.v for x in xs])
        if lo is not None:
            S.add_side(e >= lo)
        if hi is not None:
            S.add_side(e <= hi)
        return RFloat(e, OR(*[NOT(x.fin()) for x in xs]))

    return ew(one, *args)


# ----------------------------------------------------------------------------------------------
# SymInt
# ----------------------------------------------------------------------------------------------
INDEX_SPAN = 16


class SymInt:
    __hash__ = None

    def __init__(self, i):
        self.i = z3.IntVal(i) if isinstance(i, int) else i

    @staticmethod
    def var(name):
        return SymInt(z3.Int(name))

    def _o(self, o):
        if isinstance(o, SymInt):
            return o.i
        if isinstance(o, (int, np.integer)) and not isinstance(o, bool):
            return z3.IntVal(int(o))
        return None

    def __add__(self, o):
        x = self._o(o)
        return SymInt(self.i + x) if x is not None else tf(self) + o

    __radd__ = __add__

    def __sub__(self, o):
        x = self._o(o)
        return SymInt(self.i - x) if x is not None else tf(self) - o

    def __rsub__(self, o):
        x = self._o(o)
        return SymInt(x - self.i) if x is not None else o - tf(self)

    def __mul__(self, o):
        x = self._o(o)
        return SymInt(self.i * x) if x is not None else tf(self) * o

    __rmul__ = __mul__

    def __truediv__(self, o):
        return tf(self) / o

    def __rtruediv__(self, o):
        return o / tf(self)

    def __pow__(self, k):
        if isinstance(k, int) and not isinstance(k, bool) and 0 <= k <= 8:
            r = z3.IntVal(1)
            for _ in range(k):
                r = r * self.i
            return SymInt(r)
        return tf(self) ** k

    def __neg__(self):
        return SymInt(-self.i)

    def _cmp(self, o, f):
        x = self._o(o)
        if x is None:
            return f(tf(self), tf(o)) if not isinstance(o, (SymFloat, float)) else NotImplemented
        return SymBool(_fold(f(self.i, x)))

    def __lt__(self, o):
        x = self._o(o)
        return SymBool(_fold(self.i < x)) if x is not None else tf(self) < o

    def __le__(self, o):
        x = self._o(o)
        return SymBool(_fold(self.i <= x)) if x is not None else tf(self) <= o

    def __gt__(self, o):
        x = self._o(o)
        return SymBool(_fold(self.i > x)) if x is not None else tf(self) > o

    def __ge__(self, o):
        x = self._o(o)
        return SymBool(_fold(self.i >= x)) if x is not None else tf(self) >= o

    def __eq__(self, o):
        x = self._o(o)
        return SymBool(_fold(self.i == x)) if x is not None else tf(self) == o

    def __ne__(self, o):
        x = self._o(o)
        return SymBool(_fold(self.i != x)) if x is not None else tf(self) != o

    def __bool__(self):
        return bool(self != 0)

    def __index__(self):
        # a slice bound, a range() limit, a list index: the value is needed concretely, so the path forks over the small
        # values (0, 1, -1, 2, -2, ... +-INDEX_SPAN); a symbolic int that can be larger on some path is refused there
        c = z3.simplify(self.i)
        if z3.is_int_value(c):
            return c.as_long()
        for k in range(0, INDEX_SPAN + 1):
            for v in ((k, -k) if k else (0,)):
                if bool(SymBool(self.i == v)):
                    return v
        raise Unsupported("index() of a symbolic int outside the enumerated span")

    def __int__(self):
        raise Unsupported("int() of a symbolic int")

    def __repr__(self):
        s = z3.simplify(self.i)
        if z3.is_int_value(s):
            return str(s.as_long())
        return f"SYMI_{self.i}"

    __str__ = __repr__

    def __deepcopy__(self, memo):
        return self


# ----------------------------------------------------------------------------------------------
# arrays
# ----------------------------------------------------------------------------------------------
def _is_arr(x):
    return isinstance(x, (SymArray, list, tuple)) or (isinstance(x, np.ndarray))


def _is_nd(x):
    """array-like with ndim > 0"""
    if isinstance(x, SymArray):
        return x.a.ndim > 0
    if isinstance(x, np.ndarray):
        return x.ndim > 0
    return isinstance(x, (list, tuple))


def _obj(x):
    """to object ndarray (no copy for SymArray)"""
    if isinstance(x, SymArray):
        return x.a
    if isinstance(x, np.ndarray):
        return x.astype(object)
    if isinstance(x, (list, tuple)):
        parts = [_obj(e) for e in x]
        if not parts:
            return np.empty((0,), dtype=object)
        shp = parts[0].shape
        for p in parts:
            if p.shape != shp:
                raise ValueError("setting an array element with a sequence. The requested array has an inhomogeneous shape")
        out = np.empty((len(parts),) + shp, dtype=object)
        for i, p in enumerate(parts):
            if p.ndim == 0:
                out[i] = p.item()
            else:
                out[i, ...] = p
        return out
    out = np.empty((), dtype=object)
    out[()] = x
    return out


def _obj1(x):
    return np.atleast_1d(_obj(x))


def _unwrap0(e):
    """element stored in object arrays must be a scalar (SymFloat/SymBool/python number)"""
    if isinstance(e, SymArray):
        return e.a.item()
    if isinstance(e, np.ndarray):
        return e.item()
    return e


def ew(f, *args):
    """elementwise application with NumPy broadcasting; scalar result iff all operands are 0-d (ufunc rule)"""
    if not any(_is_nd(x) for x in args):
        return f(*[_unwrap0(x) if isinstance(x, (SymArray, np.ndarray)) else x for x in args])
    objs = [_obj(x) for x in args]
    bs = np.broadcast_arrays(*objs, subok=False)
    shape = bs[0].shape
    full = [o for o in objs if o.shape == shape] if len(shape) > 1 else []
    order = "F" if full and all(o.flags.f_contiguous and not o.flags.c_contiguous for o in full) else "C"     # ufunc order="K"
    out = np.empty(shape, dtype=object, order=order)
    for idx in np.ndindex(*out.shape):
        out[idx] = f(*[b[idx] for b in bs])
    return SymArray(out)


def ew_arr(f, *args):
    """like ew but always returns an array (array-function rule: np.where, full_like...)"""
    r = ew(f, *args)
    if isinstance(r, SymArray):
        return r
    return SymArray(_obj(r))


class SymArray:
    __hash__ = None
    dtype = np.dtype(np.float64)

    def __init__(self, a):
        assert isinstance(a, np.ndarray) and a.dtype == object, type(a)
        if S.pyfloats:
            for i, e in enumerate(a.flat):
                if type(e) is PyRFloat:
                    a.flat[i] = e._plain()      # NumPy stores a float64, not the Python object
        self.a = a

    shape = property(lambda s: s.a.shape)
    ndim = property(lambda s: s.a.ndim)
    size = property(lambda s: s.a.size)
    T = property(lambda s: SymArray(s.a.T))

    def __len__(self):
        return len(self.a)

    def __iter__(self):
        if self.a.ndim == 0:
            raise TypeError("iteration over a 0-d array")
        for e in self.a:
            yield SymArray(e) if isinstance(e, np.ndarray) else e

    def __repr__(self):
        return f"SymArray({self.a.tolist()!r})"

    def __str__(self):
        if self.a.ndim == 0:
            return str(self.a.item())
        return " ".join(str(e) for e in self.a.flat)

    def __format__(self, spec):
        if self.a.ndim == 0:
            return format(self.a.item(), spec)
        return str(self)

    def __deepcopy__(self, memo):
        return SymArray(self.a.copy())

    def __copy__(self):
        return SymArray(self.a.copy())

    def copy(self, order="C"):
        return SymArray(self.a.copy(order=order))

    def __bool__(self):
        if self.a.size != 1:
            raise ValueError("The truth value of an array with more than one element is ambiguous. Use a.any() or a.all()")
        return bool(self.a.item())

    def __float__(self):
        raise Unsupported("float() of a symbolic array")

    def squeeze(self, axis=None):
        return SymArray(self.a.squeeze(axis))

    def astype(self, t, **kw):
        if t in (float, np.float64, "float", "float64"):
            return ew_arr(lambda e: tf(e), self)
        return self

    def item(self, *args):
        return self.a.item(*args)

    # memory layout is NumPy's own: the object array underneath is C- or F-ordered exactly as a float array would be, so
    # ravel() being a view or a copy, order="K"/"F"/"A" and reshape() behave as they do on real data
    def flatten(self, order="C"):
        return SymArray(self.a.flatten(order=order))

    def ravel(self, order="C"):
        return SymArray(self.a.ravel(order=order))

    def reshape(self, *shape, order="C"):
        return SymArray(self.a.reshape(*shape, order=order))

    flags = property(lambda s: s.a.flags)
    strides = property(lambda s: s.a.strides)
    flat = property(lambda s: _Flat(s.a))

    def tolist(self):
        return self.a.tolist()

    def any(self, axis=None, **kw):
        return _reduce(self, lambda x, y: tb_(x) | tb_(y), axis, kw.get("keepdims", False))

    def all(self, axis=None, **kw):
        return _reduce(self, lambda x, y: tb_(x) & tb_(y), axis, kw.get("keepdims", False))

    def __getitem__(self, k):
        if isinstance(k, (SymArray, SymBool)):
            return MaskedSelection(self, k, self)
        if isinstance(k, np.ndarray) and k.dtype == bool and k.shape == self.a.shape and self.a.ndim == 0:
            return MaskedSelection(self, k, self)
        if isinstance(k, tuple) and any(isinstance(e, SymArray) for e in k):
            raise Unsupported("indexing with a symbolic array")
        r = self.a[k]
        return SymArray(r) if isinstance(r, np.ndarray) else r

    def __setitem__(self, k, v):
        if isinstance(k, (SymArray, SymBool)) or (isinstance(k, np.ndarray) and k.dtype == bool):
            # boolean mask assignment: value broadcast (scalar or same shape)
            if isinstance(v, MaskedSelection):
                if not v.same_mask(k, self):
                    raise Unsupported("assignment of a masked selection under a different mask")
                v = v.values
            if _is_nd(v) and _obj(v).shape != self.a.shape:
                raise Unsupported("mask assignment with a non-scalar value of different shape")
            new = ew_arr(lambda m, val, old: _select(tb(m), val, old), k, v, self)
            self.a[...] = np.broadcast_to(new.a, self.a.shape)
        elif k is Ellipsis:
            self.a[...] = _obj(v) if _is_arr(v) else v
        else:
            self.a[k] = _obj(v) if isinstance(v, (SymArray, np.ndarray)) else v

    def sum(self, axis=None, keepdims=False, **kw):
        return _reduce(self, lambda x, y: tf(x) + tf(y), axis, keepdims, empty=0.0)

    def max(self, axis=None, keepdims=False, **kw):
        return _reduce(self, _maximum, axis, keepdims)

    def min(self, axis=None, keepdims=False, **kw):
        return _reduce(self, _minimum, axis, keepdims)

    def __array_ufunc__(self, ufunc, method, *inputs, **kw):
        return _ufunc(ufunc, method, inputs, kw)

    def __array_function__(self, func, types, args, kwargs):
        return dispatch(func.__name__, args, kwargs)

    def __neg__(self):
        return ew(lambda a: -tf(a), self)

    def __pos__(self):
        return self

    def __abs__(self):
        return ew(lambda a: _abs(tf(a)), self)

    def __invert__(self):
        return ew(lambda a: ~tb_(a), self)


class _Flat:
    """ndarray.flat: a 1-D view in C (logical) order that writes through to the array"""

    def __init__(self, a):
        self.a = a

    def __getitem__(self, k):
        r = self.a.flat[_obj(k) if isinstance(k, SymArray) else k]
        return SymArray(r) if isinstance(r, np.ndarray) else r

    def __setitem__(self, k, v):
        self.a.flat[_obj(k) if isinstance(k, SymArray) else k] = _obj(v) if isinstance(v, (SymArray, np.ndarray)) else v

    def __iter__(self):
        return iter(self.a.flat)

    def __len__(self):
        return self.a.size


class MaskedSelection:
    """x[mask] for a symbolic boolean mask: the number of selected elements is symbolic, so the selection is kept as
    (full-shape values, mask).  Elementwise arithmetic keeps the mask; it can be assigned back under the same mask
    (`x[m] = f(x[m])`).  Anything else (len, reductions, mixing masks) is refused."""

    __hash__ = None
    __array_priority__ = 1000

    def __init__(self, base, mask, values):
        self.base, self.mask, self.values = base, mask, values

    def same_mask(self, mask, base):
        if self.base.a.shape != base.a.shape:
            return False
        if mask is self.mask:
            return True
        m1, m2 = _obj(mask), _obj(self.mask)
        if m1.shape != m2.shape:
            return False
        return all((a is b) or (isinstance(a, SymBool) and isinstance(b, SymBool) and _bid(a.e) == _bid(b.e)) for a, b in zip(m1.flat, m2.flat))

    def _map(self, f):
        return MaskedSelection(self.base, self.mask, f(self.values))

    def _bin(self, o, f, swap=False):
        if isinstance(o, MaskedSelection):
            if not o.same_mask(self.mask, self.base):
                raise Unsupported("masked selections with different masks")
            o = o.values
        elif _is_nd(o):
            raise Unsupported("masked selection combined with an array")
        return self._map(lambda v: f(o, v) if swap else f(v, o))

    def __add__(self, o): return self._bin(o, lambda a, b: a + b)
    def __radd__(self, o): return self._bin(o, lambda a, b: a + b, True)
    def __sub__(self, o): return self._bin(o, lambda a, b: a - b)
    def __rsub__(self, o): return self._bin(o, lambda a, b: a - b, True)
    def __mul__(self, o): return self._bin(o, lambda a, b: a * b)
    def __rmul__(self, o): return self._bin(o, lambda a, b: a * b, True)
    def __truediv__(self, o): return self._bin(o, lambda a, b: a / b)
    def __rtruediv__(self, o): return self._bin(o, lambda a, b: a / b, True)
    def __pow__(self, o): return self._bin(o, lambda a, b: a ** b)
    def __neg__(self): return self._map(lambda v: -v)
    def __abs__(self): return self._map(abs)

    def __array_ufunc__(self, ufunc, method, *inputs, **kw):
        if method != "__call__" or kw.get("out") is not None:
            raise Unsupported("ufunc method on a masked selection")
        if len(inputs) == 1:
            return self._map(lambda v: dispatch(ufunc.__name__, (v,), {}))
        a, b = inputs
        if a is self:
            return self._bin(b, lambda x, y: dispatch(ufunc.__name__, (x, y), {}))
        return self._bin(a, lambda x, y: dispatch(ufunc.__name__, (x, y), {}), True)

    def __len__(self):
        raise Unsupported("len() of a selection under a symbolic mask")

    def __iter__(self):
        raise Unsupported("iteration over a selection under a symbolic mask")

    def __bool__(self):
        raise Unsupported("truth value of a selection under a symbolic mask")


def _reduce(s, f, axis, keepdims, empty=None):
    a = s.a

    def red(els):
        if not els:
            if empty is None:
                raise ValueError("zero-size array to reduction operation which has no identity")
            return const(empty)
        r = els[0]
        for e in els[1:]:
            r = f(r, e)
        return r

    if axis is None:
        r = red(list(a.flat))
        if keepdims:
            out = np.empty((1,) * a.ndim, dtype=object)
            out[(0,) * a.ndim] = r
            return SymArray(out)
        return r
    if isinstance(axis, tuple):
        raise Unsupported("tuple axis")
    moved = np.moveaxis(a, axis, -1)
    out = np.empty(moved.shape[:-1], dtype=object)
    for idx in np.ndindex(*moved.shape[:-1]):
        out[idx] = red(list(moved[idx]))
    if keepdims:
        out = np.expand_dims(out, axis)
    elif out.ndim == 0:
        return out.item()
    return SymArray(out)


def _mk_arr_op(name, op, rname=None):
    def fwd(s, o):
        if isinstance(o, str) or o is None:
            return NotImplemented
        return ew(op, s, o)

    def rev(s, o):
        if isinstance(o, str) or o is None:
            return NotImplemented
        return ew(op, o, s)

    setattr(SymArray, name, fwd)
    if rname:
        setattr(SymArray, rname, rev)


def _mk_inplace(name, op):
    """`a op= b` on an ndarray writes into a's buffer (every alias of the array sees it) and fails when the result does not
    fit a's shape; a symbolic array must do the same, not silently rebind the name to a new object"""
    def f(s, o):
        if isinstance(o, str) or o is None:
            return NotImplemented
        r = _obj(ew(op, s, o))
        if np.broadcast_shapes(r.shape, s.a.shape) != s.a.shape:
            raise ValueError(f"non-broadcastable output operand with shape {s.a.shape} doesn't match the broadcast shape {r.shape}")
        s.a[...] = np.broadcast_to(r, s.a.shape)
        return s

    setattr(SymArray, name, f)


def _both_bool(a, b):
    return isinstance(a, (SymBool, bool, np.bool_)) and isinstance(b, (SymBool, bool, np.bool_))


_mk_arr_op("__add__", lambda a, b: (tb_(a) + tb_(b)) if _both_bool(a, b) else _add(tf(a), tf(b)), "__radd__")
_mk_arr_op("__sub__", lambda a, b: (tb_(a) - tb_(b)) if _both_bool(a, b) else _sub(tf(a), tf(b)), "__rsub__")
_mk_arr_op("__mul__", lambda a, b: (tb_(a) * tb_(b)) if _both_bool(a, b) else _mul(tf(a), tf(b)), "__rmul__")
_mk_arr_op("__truediv__", lambda a, b: _div(tf(a), tf(b)), "__rtruediv__")
_mk_arr_op("__pow__", lambda a, b: _pow(tf(a), tf(b)), "__rpow__")
_mk_arr_op("__mod__", lambda a, b: _remainder(a, b), "__rmod__")
_mk_arr_op("__lt__", lambda a, b: _lt(tf(a), tf(b)))
_mk_arr_op("__le__", lambda a, b: _le(tf(a), tf(b)))
_mk_arr_op("__gt__", lambda a, b: _lt(tf(b), tf(a)))
_mk_arr_op("__ge__", lambda a, b: _le(tf(b), tf(a)))
_mk_arr_op("__eq__", lambda a, b: (tb_(a) == tb_(b)) if _both_bool(a, b) else _eq(tf(a), tf(b)))
_mk_arr_op("__ne__", lambda a, b: (tb_(a) != tb_(b)) if _both_bool(a, b) else ~_eq(tf(a), tf(b)))
_mk_inplace("__iadd__", lambda a, b: (tb_(a) + tb_(b)) if _both_bool(a, b) else _add(tf(a), tf(b)))
_mk_inplace("__isub__", lambda a, b: _sub(tf(a), tf(b)))
_mk_inplace("__imul__", lambda a, b: (tb_(a) * tb_(b)) if _both_bool(a, b) else _mul(tf(a), tf(b)))
_mk_inplace("__itruediv__", lambda a, b: _div(tf(a), tf(b)))
_mk_arr_op("__and__", lambda a, b: tb_(a) & tb_(b), "__rand__")
_mk_arr_op("__or__", lambda a, b: tb_(a) | tb_(b), "__ror__")


# ----------------------------------------------------------------------------------------------
# NumPy surface
# ----------------------------------------------------------------------------------------------
def _lift(f):
    return lambda *a, **k: ew((lambda *e: f(*e, **k)), *a)


def _lift_arr(f):
    return lambda *a, **k: ew_arr((lambda *e: f(*e, **k)), *a)


def _np_where(c, a=None, b=None):
    if a is None:
        raise Unsupported("np.where with one argument")
    r = ew_arr(_where, c, a, b)
    if r.a.size and all(_is_pyint(e) for e in r.a.flat):
        return np.array(r.a, dtype=np.int64)      # an index array: plain NumPy from here on
    return r


def _int_prototype(x):
    """the prototype of a *_like call is integer-typed (Python int, NumPy integer, integer array or sequence of ints)"""
    if isinstance(x, (SymFloat, SymArray, SymBool, float)):
        return False
    if isinstance(x, SymInt):
        return True
    try:
        return np.asarray(x).dtype.kind in "iu"
    except Exception:
        return False


def _trunc_int(v):
    """a float stored into an integer array (NumPy casts unsafely): truncation toward zero; NaN/inf give INT64_MIN"""
    v = tf(v)
    if S.mode == "R":
        t = z3.If(v.v >= 0, z3.ToReal(z3.ToInt(v.v)), -z3.ToReal(z3.ToInt(-v.v)))
        return RFloat(z3.If(ZB(v.fin()), t, z3.RealVal(-(2 ** 63))))
    f = v.f
    return FFloat(z3.If(z3.Or(z3.fpIsNaN(f), z3.fpIsInf(f)), fv(-float(2 ** 63)), z3.fpRoundToIntegral(z3.RTZ(), f)))


def _np_nonzero(a):
    """indices of the non-zero elements: their number is not symbolic, so the path forks on every element (small arrays only)"""
    o = _obj(a)
    if o.size > 16:
        raise Unsupported("nonzero of a symbolic array with more than 16 elements")
    hits = [idx for idx in np.ndindex(*o.shape) if bool(_truth(o[idx]))]
    return tuple(np.array([h[k] for h in hits], dtype=np.intp) for k in range(o.ndim))


def _truth(e):
    if isinstance(e, SymBool):
        return e
    if isinstance(e, (SymFloat, SymInt)):
        return e != 0
    return bool(e)


def _np_flatnonzero(a):
    return _np_nonzero(SymArray(_obj(a).ravel()) if not isinstance(a, SymArray) else a.ravel())[0]


def _np_full_like(x, fill_value, dtype=None, **kw):
    if _int_prototype(x) if dtype is None else np.dtype(dtype).kind in "iu":
        return ew_arr(lambda e, v: _trunc_int(v), x, fill_value)       # the result has the prototype's integer dtype
    return ew_arr(lambda e, v: tf(v), x, fill_value)


def _np_full(shape, fill_value, dtype=None, **kw):
    out = np.empty(shape, dtype=object)
    v = _unwrap0(fill_value)
    for idx in np.ndindex(*out.shape):
        out[idx] = v
    return SymArray(out)


def _np_atleast(n):
    def f(*xs):
        if len(xs) != 1:
            return [f(x) for x in xs]
        a = _obj(xs[0])
        return SymArray([np.atleast_1d, np.atleast_2d][n - 1](a))

    return f


def _np_take(x, indices, axis=None, **kw):
    a = _obj(x)
    r = np.take(a, indices, axis=axis)
    if isinstance(r, np.ndarray):
        return SymArray(r) if r.ndim else r.item()
    return r


def _np_column_stack(tup):
    arrs = []
    for t in tup:
        a = _obj(t)
        if a.ndim < 2:
            a = np.array(a, copy=False, subok=True, ndmin=2).T
        arrs.append(a)
    return SymArray(np.concatenate(arrs, 1))


def _np_hstack(tup, **kw):
    arrs = [np.atleast_1d(_obj(t)) for t in tup]
    if arrs and arrs[0].ndim == 1:
        return SymArray(np.concatenate(arrs, 0))
    return SymArray(np.concatenate(arrs, 1))


def _np_squeeze(x, axis=None):
    if isinstance(x, SymArray):
        return x.squeeze(axis)
    return x


def _np_size(x, axis=None):
    return _obj(x).size if axis is None else _obj(x).shape[axis]


def _np_sum(x, axis=None, keepdims=False, **kw):
    return SymArray(_obj(x)).sum(axis=axis, keepdims=keepdims) if _is_nd(x) else tf(x)


def _np_nancumsum(x, axis=None, **kw):
    a = _obj(x)
    if axis is None:
        a = a.ravel()
        axis = 0
    moved = np.moveaxis(a, axis, -1)
    out = np.empty(moved.shape, dtype=object)
    for idx in np.ndindex(*moved.shape[:-1]):
        acc = const(0.0)
        for j, e in enumerate(moved[idx]):
            e = tf(e)
            acc = _add(acc, _select(_isnan(e).e, const(0.0), e))
            out[idx + (j,)] = acc
    return SymArray(np.moveaxis(out, -1, axis))


def _nan_reduce(kind):
    def f(x, axis=None, keepdims=False, **kw):
        a = _obj(x)
        if a.ndim == 0:
            a = a.reshape(1)

        def red(els):
            els = [tf(e) for e in els]
            if kind == "mean":
                tot = const(0.0)
                cnt = const(0.0)
                for e in els:
                    n = _isnan(e).e
                    tot = _add(tot, _select(n, const(0.0), e))
                    cnt = _add(cnt, _select(n, const(0.0), const(1.0)))
                return _div(tot, cnt)       # 0/0 = nan when all are nan
            r = els[0]
            for e in els[1:]:
                r = (_fmax if kind == "max" else _fmin)(r, e)
            return r

        if axis is None:
            return red(list(a.flat))
        moved = np.moveaxis(a, axis, -1)
        out = np.empty(moved.shape[:-1], dtype=object)
        for idx in np.ndindex(*moved.shape[:-1]):
            out[idx] = red(list(moved[idx]))
        if keepdims:
            out = np.expand_dims(out, axis)
        elif out.ndim == 0:
            return out.item()
        return SymArray(out)

    return f


def _np_interp(x, xp, fp, left=None, right=None, period=None):
    """np.interp: xp assumed increasing (documented precondition); clamps outside; nan -> nan"""
    xs = [tf(e) for e in _obj(xp).flat]
    ys = [tf(e) for e in _obj(fp).flat]
    if len(xs) != len(ys) or not xs:
        raise ValueError("fp and xp are not of the same length.")

    def one(x):
        x = tf(x)
        r = ys[-1] if right is None else tf(right)
        # scan from the right: x < xp[i+1] picks segment i (numpy uses the segment with xp[i] <= x < xp[i+1])
        for i in range(len(xs) - 2, -1, -1):
            x0, x1, y0, y1 = xs[i], xs[i + 1], ys[i], ys[i + 1]
            slope = _div(_sub(y1, y0), _sub(x1, x0))
            seg = _add(_mul(slope, _sub(x, x0)), y0)
            r = _select(_lt(x, x1).e, seg, r)
        r = _select(_eq(x, xs[-1]).e, ys[-1], r)
        r = _select(_lt(x, xs[0]).e, ys[0] if left is None else tf(left), r)
        r = _select(_lt(xs[-1], x).e, ys[-1] if right is None else tf(right), r)
        return _select(_isnan(x).e, const(math.nan), r)

    return ew(one, x)


def _np_array_equal(a, b, **kw):
    raise Unsupported("array_equal")


def _np_asarray(x, dtype=None, **kw):
    return SymArray(_obj(x)) if _has_sym(x) else np.asarray(x, dtype=dtype, **kw)


def _np_linspace(start, stop, num=50, endpoint=True, **kw):
    div = (num - 1) if endpoint else num
    start, stop = tf(start), tf(stop)
    step = _div(_sub(stop, start), const(float(div))) if div > 0 else const(math.nan)
    out = np.empty((num,), dtype=object)
    for i in range(num):
        out[i] = _add(start, _mul(const(float(i)), step))
    if endpoint and num > 1:
        out[-1] = stop
    return SymArray(out)


def _sa(x):
    return x if isinstance(x, SymArray) else SymArray(_obj(x))


def _np_mean(x, axis=None, keepdims=False, **kw):
    xa = _sa(x)
    n = xa.a.size if axis is None else xa.a.shape[axis]
    tot = xa.sum(axis=axis, keepdims=keepdims)
    return ew(lambda e: _div(tf(e), const(float(n))), tot)


def _np_prod(x, axis=None, keepdims=False, **kw):
    return _reduce(_sa(x), lambda a, b: _mul(tf(a), tf(b)), axis, keepdims, empty=1.0)


def _np_nansum(x, axis=None, keepdims=False, **kw):
    xa = ew_arr(lambda e: _select(_isnan(tf(e)).e, const(0.0), tf(e)), _sa(x))
    return xa.sum(axis=axis, keepdims=keepdims)


def _np_count_nonzero(x, axis=None, keepdims=False, **kw):
    xa = ew_arr(lambda e: _select(tb(e) if isinstance(e, (SymBool, bool, np.bool_)) else NOT(_eq(tf(e), const(0.0)).e), const(1.0), const(0.0)), _sa(x))
    return xa.sum(axis=axis, keepdims=keepdims)


def _np_concatenate(tup, axis=0, **kw):
    return SymArray(np.concatenate([_obj(t) for t in tup], axis))


def _np_stack(tup, axis=0, **kw):
    return SymArray(np.stack([_obj(t) for t in tup], axis))


def _np_vstack(tup, **kw):
    return SymArray(np.vstack([np.atleast_2d(_obj(t)) for t in tup]))


def _np_allclose(a, b, rtol=1e-5, atol=1e-8, equal_nan=False):
    r = ew(lambda x, y: _isclose(x, y, rtol, atol, equal_nan), a, b)
    return r.all() if isinstance(r, SymArray) else r


def _np_heaviside(a, b):
    a, b = tf(a), tf(b)
    return _select(_isnan(a).e, a, _select(_lt(a, const(0.0)).e, const(0.0), _select(_eq(a, const(0.0)).e, b, const(1.0))))


def _np_copyto(dst, src, where=True, **kw):
    if not isinstance(dst, SymArray):
        raise Unsupported("copyto into a concrete array with symbolic input")
    new = _np_where(where, src, dst) if where is not True else src
    dst.a[...] = np.broadcast_to(_obj(new), dst.a.shape)


def _np_broadcast_arrays(*arrays, subok=False):
    outs = np.broadcast_arrays(*[_obj(a) for a in arrays])
    return [SymArray(o.copy()) for o in outs]


def _np_minmax(kind):
    """numpy.max / numpy.min (amax / amin) with the optional `where=` mask and `initial=` value"""
    def f(x, axis=None, out=None, keepdims=False, initial=None, where=None, **kw):
        if out is not None:
            raise Unsupported(f"numpy.{kind}(out=...)")
        if isinstance(x, (list, tuple)) and len({np.shape(_obj(e)) for e in x}) > 1:
            # a sequence of arrays of different shapes does not make an array (NumPy >= 1.24 refuses ragged input)
            raise ValueError("setting an array element with a sequence. The requested array has an inhomogeneous shape after 1 dimensions.")
        xa = SymArray(_obj1(x))
        pick = _maximum if kind == "max" else _minimum
        if where is not None and where is not True:
            if initial is None:
                raise ValueError(f"reduction operation '{'maximum' if kind == 'max' else 'minimum'}' does not have an identity, so to use a where mask one has to specify 'initial'")
            xa = _np_where(where, xa, initial)
            if not isinstance(xa, SymArray):
                xa = SymArray(_obj(xa))
        r = xa.max(axis, keepdims) if kind == "max" else xa.min(axis, keepdims)
        if initial is not None:
            r = ew(lambda e: pick(tf(e), tf(initial)), r)
        return r
    return f


def _signbit(a):
    """numpy.signbit: in Mode F the sign bit itself (set for -0.0); Mode R has no signed zero, so `a < 0`"""
    a = tf(a)
    if isinstance(a, FFloat):
        return SymBool(z3.And(z3.fpIsNegative(a.f), z3.Not(z3.fpIsNaN(a.f))))
    return _lt(a, const(0.0))


def _np_select(condlist, choicelist, default=0):
    """numpy.select: the first condition that holds picks its choice, `default` where none does"""
    if len(condlist) != len(choicelist):
        raise ValueError("list of cases must be same length as list of conditions")
    if len(condlist) == 0:
        raise ValueError("select with an empty condition list is not possible")
    res = default
    for c, ch in reversed(list(zip(condlist, choicelist))):
        res = _np_where(c, ch, res)
    return res


def _np_piecewise(x, condlist, funclist, *args, **kw):
    """numpy.piecewise, following numpy/lib/function_base.py step by step (including its treatment of a bare condition:
    it is wrapped into a list only when x is 0-d or 1-D; for a 2-D x each *row* of the mask is read as one condition
    and used as a boolean index along axis 0)"""
    xa = x if isinstance(x, SymArray) else SymArray(_obj(x))
    n2 = len(funclist)
    first = condlist[0] if isinstance(condlist, (list, tuple, SymArray, np.ndarray)) and getattr(condlist, "ndim", 1) > 0 else None
    if isinstance(condlist, (SymBool, bool, np.bool_)) or getattr(condlist, "ndim", 1) == 0 or \
            (not isinstance(first, (list, np.ndarray, SymArray)) and xa.a.ndim != 0):
        condlist = [condlist]
    conds = [c if isinstance(c, SymArray) else SymArray(_obj(c)) for c in (list(condlist) if not isinstance(condlist, list) else condlist)]
    n = len(conds)
    if n == n2 - 1:
        anyc = conds[0]
        for c in conds[1:]:
            anyc = ew(lambda a, b: tb_(a) | tb_(b), anyc, c)
        other = ew(lambda a: ~tb_(a), anyc)
        conds.append(other if isinstance(other, SymArray) else SymArray(_obj(other)))
        n += 1
    elif n != n2:
        raise ValueError(f"with {n} condition(s), either {n} or {n + 1} functions are expected")
    y = SymArray(_obj(ew_arr(lambda e: const(0.0), xa)))
    for cond, func in zip(conds, funclist):
        ca = cond.a
        if ca.ndim > xa.a.ndim or ca.shape != xa.a.shape[:ca.ndim]:
            raise IndexError(f"boolean index did not match indexed array along dimension 0; dimension is {xa.a.shape[0] if xa.a.ndim else 0} "
                             f"but corresponding boolean dimension is {ca.shape[0] if ca.ndim else 0}")
        full = SymArray(np.broadcast_to(ca.reshape(ca.shape + (1,) * (xa.a.ndim - ca.ndim)), xa.a.shape).copy())
        vals = func(xa, *args, **kw) if callable(func) else func
        y = _np_where(full, vals, y)
        if not isinstance(y, SymArray):
            y = SymArray(_obj(y))
    return y


def _has_sym(x):
    if isinstance(x, (SymFloat, SymBool, SymArray, SymInt)):
        return True
    if isinstance(x, (list, tuple)):
        return any(_has_sym(e) for e in x)
    if isinstance(x, np.ndarray) and x.dtype == object:
        return any(_has_sym(e) for e in x.flat)
    return False


TABLE = {
    "isnan": _lift(_isnan), "isinf": _lift(_isinf), "isfinite": _lift(_isfinite),
    "where": _np_where, "signbit": _lift(_signbit), "select": _np_select, "piecewise": _np_piecewise, "maximum": _lift(_maximum), "minimum": _lift(_minimum),
    "fmax": _lift(_fmax), "fmin": _lift(_fmin),
    "sqrt": _lift(_sqrt), "square": _lift(lambda a: _mul(tf(a), tf(a))),
    "absolute": _lift(lambda a: _abs(tf(a))), "fabs": _lift(lambda a: _abs(tf(a))), "abs": _lift(lambda a: _abs(tf(a))),
    "negative": _lift(lambda a: -a if isinstance(a, SymBool) else _neg(tf(a))), "positive": _lift(lambda a: tf(a)),
    "multiply": _lift(lambda a, b: (tb_(a) * tb_(b)) if _both_bool(a, b) else _mul(tf(a), tf(b))),
    "add": _lift(lambda a, b: (tb_(a) + tb_(b)) if _both_bool(a, b) else _add(tf(a), tf(b))),
    "subtract": _lift(lambda a, b: (tb_(a) - tb_(b)) if _both_bool(a, b) else _sub(tf(a), tf(b))),
    "true_divide": _lift(lambda a, b: _div(tf(a), tf(b))), "divide": _lift(lambda a, b: _div(tf(a), tf(b))),
    "power": _lift(lambda a, b: _pow(tf(a), tf(b))), "float_power": _lift(lambda a, b: _pow(tf(a), tf(b))),
    "remainder": _lift(_remainder), "mod": _lift(_remainder), "fmod": _lift(_fmod),
    "less": _lift(lambda a, b: _lt(tf(a), tf(b))), "less_equal": _lift(lambda a, b: _le(tf(a), tf(b))),
    "greater": _lift(lambda a, b: _lt(tf(b), tf(a))), "greater_equal": _lift(lambda a, b: _le(tf(b), tf(a))),
    "equal": _lift(lambda a, b: (tb_(a) == tb_(b)) if _both_bool(a, b) else _eq(tf(a), tf(b))),
    "not_equal": _lift(lambda a, b: (tb_(a) != tb_(b)) if _both_bool(a, b) else ~_eq(tf(a), tf(b))),
    "logical_not": _lift(_logical_not), "logical_and": _lift(_logical_and), "logical_or": _lift(_logical_or),
    "bitwise_and": _lift(lambda a, b: tb_(a) & tb_(b)), "bitwise_or": _lift(lambda a, b: tb_(a) | tb_(b)),
    "invert": _lift(lambda a: ~tb_(a)),
    "nan_to_num": _np_nan_to_num, "isclose": _lift(_isclose), "sign": _lift(_sign),
    "floor": _lift(_floor), "ceil": _lift(_ceil), "round": _lift(_round), "around": _lift(_round), "rint": _lift(_round),
    "clip": _lift(_clip), "arctan2": _lift(_arctan2),
    "full_like": _np_full_like, "full": _np_full,
    "atleast_1d": _np_atleast(1), "atleast_2d": _np_atleast(2),
    "take": _np_take, "column_stack": _np_column_stack, "hstack": _np_hstack, "squeeze": _np_squeeze,
    "size": _np_size, "sum": _np_sum, "nancumsum": _np_nancumsum,
    "mean": _np_mean, "average": _np_mean, "prod": _np_prod, "nansum": _np_nansum, "count_nonzero": _np_count_nonzero,
    "concatenate": _np_concatenate, "stack": _np_stack, "vstack": _np_vstack, "allclose": _np_allclose, "array_equal": _np_array_equal,
    "heaviside": _lift(_np_heaviside), "copyto": _np_copyto, "reciprocal": _lift(lambda a: _div(const(1.0), tf(a))),
    "expand_dims": lambda x, axis: SymArray(np.expand_dims(_obj(x), axis)), "reshape": lambda x, shape, order="C", **k: SymArray(_obj(x).reshape(shape, order=order)),
    "broadcast_to": lambda x, shape, **k: SymArray(np.broadcast_to(_obj(x), shape)),
    "ravel": lambda x, order="C", **k: SymArray(_obj(x).ravel(order=order)), "nonzero": _np_nonzero, "flatnonzero": _np_flatnonzero,
    "asfortranarray": lambda x, **k: SymArray(np.asfortranarray(_obj(x))), "ascontiguousarray": lambda x, **k: SymArray(np.ascontiguousarray(_obj(x))), "isneginf": _lift(lambda a: _isinf(tf(a)) & _lt(tf(a), const(0.0))),
    "isposinf": _lift(lambda a: _isinf(tf(a)) & _lt(const(0.0), tf(a))),
    "nanmean": _nan_reduce("mean"), "nanmax": _nan_reduce("max"), "nanmin": _nan_reduce("min"),
    "interp": _np_interp, "asarray": _np_asarray, "array": _np_asarray, "linspace": _np_linspace,
    "ndim": lambda x: _obj(x).ndim, "shape": lambda x: _obj(x).shape,
    "transpose": lambda x, axes=None: SymArray(_obj(x).T),
    "amax": _np_minmax("max"), "amin": _np_minmax("min"), "max": _np_minmax("max"), "min": _np_minmax("min"),
    "broadcast_arrays": _np_broadcast_arrays,
    "copy": lambda x, **k: x.copy(),
    "all": lambda x, axis=None, keepdims=False, **k: SymArray(_obj1(x)).all(axis, keepdims=keepdims),
    "any": lambda x, axis=None, keepdims=False, **k: SymArray(_obj1(x)).any(axis, keepdims=keepdims),
}
for _n in ("exp", "log", "log10", "log1p", "cos", "sin", "tan", "tanh", "sinh", "cosh", "arccos", "arcsin", "arctan",
           "arccosh", "arcsinh", "arctanh"):
    TABLE[_n] = _lift(_unary_uf(_n))

_DROP_KW = ("out", "casting", "dtype", "order", "subok", "where", "signature")
_KEEP_ORDER = ("ravel", "reshape")
_KEEP_DTYPE = ("full_like",)        # the dtype decides whether an integer prototype truncates the fill value


def _like(fill):
    def f(x, dtype=None, **kw):
        if isinstance(x, (SymArray, np.ndarray)):
            out = np.empty_like(_obj(x), dtype=object)       # order="K": an F-ordered prototype gives an F-ordered result
            for idx in np.ndindex(*out.shape):
                out[idx] = const(fill)
            return SymArray(out)
        return ew_arr(lambda e: const(fill), x)
    return f


TABLE["zeros_like"] = _like(0.0)
TABLE["ones_like"] = _like(1.0)
TABLE["empty_like"] = _like(0.0)


def dispatch(name, args, kw):
    f = TABLE.get(name)
    if f is None:
        raise Unsupported(f"symfl: numpy.{name} is not modelled")
    if name in ("max", "min", "amax", "amin"):
        return f(*args, **kw)          # reductions: `where=` / `initial=` belong to the reduction, not to a ufunc output
    out = where = None
    if kw:
        out = kw.get("out")
        if isinstance(out, tuple):
            out = out[0] if len(out) == 1 else out
        where = kw.get("where", None)
        if where is True:
            where = None
        kw = {k: v for k, v in kw.items() if k not in _DROP_KW or (k == "dtype" and name in _KEEP_DTYPE) or (k == "order" and name in _KEEP_ORDER)}
    if any(isinstance(a, MaskedSelection) for a in args):
        sel = next(a for a in args if isinstance(a, MaskedSelection))
        return sel.__array_ufunc__(type("U", (), {"__name__": name}), "__call__", *args)
    r = f(*args, **kw)
    if out is None and where is None:
        return r
    # ufunc(..., out=o, where=m): o[m] = r[m]; shapes: the broadcast of the inputs (and where) must fit the output operand
    if out is None:
        raise Unsupported(f"symfl: numpy.{name}(where=...) without out")
    if isinstance(out, tuple):
        raise Unsupported("multiple outputs")
    ro = _obj(r)
    oo = out.a if isinstance(out, SymArray) else np.asarray(out)
    shp = np.broadcast_shapes(ro.shape, _obj(where).shape) if where is not None else ro.shape
    if np.broadcast_shapes(shp, oo.shape) != oo.shape:
        raise ValueError(f"non-broadcastable output operand with shape {oo.shape} doesn't match the broadcast shape {shp}")
    if not isinstance(out, SymArray):
        raise Unsupported("ufunc out= into a concrete array with symbolic inputs")
    new = ew_arr(lambda m, val, old: _select(tb(m), val, old), True if where is None else where, r, out)
    out.a[...] = new.a
    return out


def _ufunc(ufunc, method, inputs, kw):
    if method == "__call__":
        return dispatch(ufunc.__name__, inputs, kw)
    if method == "reduce" and ufunc.__name__ in ("add", "maximum", "minimum", "logical_or", "logical_and"):
        x = SymArray(_obj1(inputs[0]))
        axis = kw.get("axis", 0)
        keep = kw.get("keepdims", False)
        if ufunc.__name__ == "add":
            return x.sum(axis, keep)
        if ufunc.__name__ == "maximum":
            return x.max(axis, keep)
        if ufunc.__name__ == "minimum":
            return x.min(axis, keep)
        if ufunc.__name__ == "logical_or":
            return x.any(axis, keepdims=keep)
        return x.all(axis, keepdims=keep)
    raise Unsupported(f"symfl: ufunc method {ufunc.__name__}.{method}")


# ----------------------------------------------------------------------------------------------
# helpers for harnesses
# ----------------------------------------------------------------------------------------------
def sym_array(elems):
    """SymArray from a (nested) list of symbolic scalars"""
    return SymArray(_obj(elems))


def sym0d(x):
    """0-d array holding x (what np.asarray gives for a scalar)"""
    return SymArray(_obj(x))


def elements(x):
    """flat list of scalar elements of a result (scalar, SymArray or ndarray)"""
    if isinstance(x, SymArray):
        return list(x.a.flat)
    if isinstance(x, np.ndarray):
        return list(x.flat)
    return [x]


def kind_of(x):
    """result kind, comparable between shim and NumPy: ('scalar',) or ('array', shape)"""
    if isinstance(x, SymArray):
        return ("array", tuple(x.a.shape))
    if isinstance(x, np.ndarray):
        return ("array", tuple(x.shape))
    return ("scalar",)
