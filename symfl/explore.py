"""Path explorer: depth-first re-execution with a decision prefix.

Every `bool()` of a non-constant SymBool lands in `Explorer.decide`.  A fresh decision is checked for feasibility
under the path condition (z3, assumptions on one long-lived solver that already holds the preconditions); the
alternative is queued and checked when it is taken.  A repeated decision on a syntactically equal condition is
answered from the path's cache.  Exhausting a budget raises BudgetExceeded: the obligation is then *inconclusive*.
"""
from __future__ import annotations

import time

import z3

from .core import S, Abort


class BudgetExceeded(BaseException):
    pass


class Path:
    __slots__ = ("pc", "side", "result", "exc", "decisions", "uf_axioms")

    def __init__(self, pc, side, result, exc, decisions, uf_axioms):
        self.pc, self.side, self.result, self.exc, self.decisions, self.uf_axioms = pc, side, result, exc, decisions, uf_axioms

    def constraints(self):
        return list(self.pc) + list(self.side) + list(self.uf_axioms)


class Explorer:
    def __init__(self, pre=(), max_paths=4000, check_timeout_ms=4000, deadline=None, catch=(Exception,), incremental=False):
        # incremental: the decisions of the current path live on the solver's push/pop stack (one frame per decision) and the
        # frames of the prefix shared with the previous path are kept, so a feasibility check only adds one literal
        self.incremental = incremental
        self.depth = 0
        self.pre = list(pre)
        self.solver = z3.Solver()
        self.solver.set("timeout", check_timeout_ms)
        for p in self.pre:
            self.solver.add(p)
        self.max_paths = max_paths
        self.deadline = deadline
        self.catch = catch
        self.checks = 0
        self.check_s = 0.0
        self.unknown_checks = 0
        self.paths = 0
        self.aborted = 0
        self.prefix = []   # list of [decision, checked, has_alt]
        self.trace = []
        self.known = {}

    # ------------------------------------------------------------------
    def _feasible(self, extra):
        t = time.time()
        assumptions = [c if d else z3.Not(c) for c, d in self.trace] + list(S.side) + extra
        r = self.solver.check(*assumptions)
        self.checks += 1
        self.check_s += time.time() - t
        if r == z3.unknown:
            self.unknown_checks += 1
            return True
        return r == z3.sat

    def decide(self, cond):
        cid = cond.get_id()
        if cid in self.known:
            return self.known[cid]
        if z3.is_not(cond):
            inner = cond.arg(0).get_id()
            if inner in self.known:
                return not self.known[inner]
        if self.deadline is not None and time.time() > self.deadline:
            raise BudgetExceeded("exploration deadline")
        i = len(self.trace)
        if self.incremental:
            return self._decide_incremental(cond, cid, i)
        if i < len(self.prefix):
            ent = self.prefix[i]
            d = ent[0]
            if not ent[1]:
                ent[1] = True
                if not self._feasible([cond if d else z3.Not(cond)]):
                    self.trace.append((cond, d))
                    raise Abort()
        else:
            if self._feasible([cond]):
                d = True
                ent = [True, True, True]
            else:
                d = False
                ent = [False, True, False]
            self.prefix.append(ent)
        self.trace.append((cond, d))
        self.known[cid] = d
        return d

    def _check_inc(self):
        t = time.time()
        r = self.solver.check(*S.side)
        self.checks += 1
        self.check_s += time.time() - t
        if r == z3.unknown:
            self.unknown_checks += 1
            return True
        return r == z3.sat

    def _decide_incremental(self, cond, cid, i):
        if i < len(self.prefix):
            ent = self.prefix[i]
            d = ent[0]
            if i >= self.depth:
                self.solver.push()
                self.solver.add(cond if d else z3.Not(cond))
                self.depth += 1
                ent[1] = True                 # (a flipped entry: its feasibility was established when the decision was first met)
        else:
            assert self.depth == i, (self.depth, i)
            # the alternative is checked right away (one more incremental query) so that an infeasible alternative never costs
            # a re-execution of the whole body up to this point
            self.solver.push()
            self.solver.add(z3.Not(cond))
            alt = self._check_inc()
            self.solver.pop()
            self.solver.push()
            self.solver.add(cond)
            self.depth += 1
            if not alt:
                d = True                      # the path so far is feasible and not(cond) is not: cond holds on all of it
                ent = [True, True, False]
            elif self._check_inc():
                d = True
                ent = [True, True, True]
            else:
                self.solver.pop()
                self.solver.push()
                self.solver.add(z3.Not(cond))
                d = False
                ent = [False, True, False]
            self.prefix.append(ent)
        self.trace.append((cond, d))
        self.known[cid] = d
        return d

    def model_of(self, path, extra=()):
        """a model of preconditions + path condition from the long-lived solver (None if not sat)"""
        t = time.time()
        if self.incremental and self.depth == len(path.pc):
            r = self.solver.check(*(list(path.side) + list(path.uf_axioms) + list(extra)))
        else:
            r = self.solver.check(*(path.constraints() + list(extra)))
        self.checks += 1
        self.check_s += time.time() - t
        return self.solver.model() if r == z3.sat else None

    def run(self, fn):
        """generator of Path objects (feasibility of the full path condition is left to the caller's queries)"""
        self.prefix = []
        prev = S.explorer
        S.explorer = self
        try:
            while True:
                if self.paths + self.aborted >= self.max_paths:
                    raise BudgetExceeded(f"more than {self.max_paths} paths")
                self.trace = []
                self.known = {}
                if self.incremental:
                    keep = max(0, len(self.prefix) - 1)
                    while self.depth > keep:
                        self.solver.pop()
                        self.depth -= 1
                S.new_path()
                res = exc = None
                aborted = False
                try:
                    res = fn()
                except Abort:
                    aborted = True
                except BudgetExceeded:
                    raise
                except self.catch as ex:  # noqa
                    exc = ex
                if aborted:
                    self.aborted += 1
                else:
                    self.paths += 1
                    from .core import uf_pair_axioms
                    S.explorer = None
                    try:
                        yield Path([c if d else z3.Not(c) for c, d in self.trace], list(S.side), res, exc,
                                   [d for _, d in self.trace], uf_pair_axioms())
                    finally:
                        S.explorer = self
                # next prefix: keep decisions of this run, flip the last one that still has an untried alternative
                self.prefix = self.prefix[: len(self.trace)]
                while self.prefix and not (self.prefix[-1][0] is True and self.prefix[-1][2]):
                    self.prefix.pop()
                if not self.prefix:
                    return
                self.prefix[-1] = [False, False, False]
        finally:
            S.explorer = prev
