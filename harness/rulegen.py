"""Bounded, seeded grammar of rule antecedents (and helpers shared by C01/C06/C13/C19): expression trees, printers in the
documented concrete syntax, and the reference semantics of the *statement* evaluated on the generating tree.

tree := ("p", variable, (hedge, ...), term | None)        # `variable is [hedge]* term`;  term None only after hedge `any`
      | ("and", tree, tree) | ("or", tree, tree)
"""
from __future__ import annotations

import itertools
import random

HEDGES = ("very", "somewhat", "not", "extremely", "seldom", "h1", "h2")


def props(t):
    if t[0] == "p":
        return [t]
    return props(t[1]) + props(t[2])


def size(t):
    return 1 if t[0] == "p" else size(t[1]) + size(t[2])


def depth(t):
    return 0 if t[0] == "p" else 1 + max(depth(t[1]), depth(t[2]))


def show_prop(p):
    _, v, hs, term = p
    return " ".join([v, "is", *hs] + ([term] if term is not None else []))


def show(t, style="minimal", lp="(", rp=")"):
    """concrete syntax.  minimal: only the parentheses the grammar needs (and > or, both left-associative);
    full: every binary node and every proposition parenthesised."""
    if t[0] == "p":
        s = show_prop(t)
        return f"{lp}{s}{rp}" if style in ("full", "atoms") else s
    op, l, r = t
    ls, rs = show(l, style, lp, rp), show(r, style, lp, rp)
    if style in ("minimal", "atoms"):      # atoms: minimal grouping, but every proposition in (redundant) parentheses of its own
        if op == "and":
            if l[0] == "or":
                ls = f"{lp}{ls}{rp}"
            if r[0] in ("or", "and"):
                rs = f"{lp}{rs}{rp}"
        else:
            if r[0] == "or":
                rs = f"{lp}{rs}{rp}"
        return f"{ls} {op} {rs}"
    return f"{lp}{ls} {op} {rs}{rp}"


def printings(t):
    out = [("minimal", show(t, "minimal")), ("full", show(t, "full")), ("spaced", show(t, "full", "( ", " )")), ("atoms", show(t, "atoms")),
           ("minimal-spaced", show(t, "minimal", " ( ", " ) ").strip())]
    seen, res = set(), []
    for k, s in out:
        s = " ".join(s.split()) if k.endswith("spaced") else s
        if s not in seen:
            seen.add(s)
            res.append((k, s))
    return res


def evaluate(t, prop_value, AND, OR):
    """the statement's semantics on the generating tree"""
    if t[0] == "p":
        return prop_value(t)
    a, b = evaluate(t[1], prop_value, AND, OR), evaluate(t[2], prop_value, AND, OR)
    return AND(a, b) if t[0] == "and" else OR(a, b)


def prop_semantics(p, membership, hedge, enabled, one, zero):
    """value of a proposition: disabled variable -> 0; `any` -> 1 (innermost); hedges from the one nearest the term outwards"""
    _, v, hs, term = p
    if not enabled(v):
        return zero
    if hs and hs[-1] == "any":
        x = one
        rest = hs[:-1]
    else:
        x = membership(v, term)
        rest = hs
    for h in reversed(rest):
        x = hedge(h, x)
    return x


# ---- generation ------------------------------------------------------------------------------------------------------
def gen_prop(rng, variables, terms, hedge_pool=HEDGES, max_hedges=2, any_prob=0.1):
    v = rng.choice(variables)
    k = rng.choice([0, 0, 0, 1, 1, 2][: 3 + 2 * max_hedges] or [0])
    hs = tuple(rng.choice(hedge_pool) for _ in range(k))
    if rng.random() < any_prob:
        return ("p", v, hs + ("any",), None)
    return ("p", v, hs, rng.choice(terms))


def gen_tree(rng, d, variables, terms, **kw):
    if d == 0 or rng.random() < 0.25:
        return gen_prop(rng, variables, terms, **kw)
    op = rng.choice(("and", "or"))
    return (op, gen_tree(rng, d - 1, variables, terms, **kw), gen_tree(rng, d - 1, variables, terms, **kw))


def systematic_trees(variables, terms):
    """all operator skeletons up to 3 leaves + selected 4-leaf ones (precedence/associativity patterns), plain leaves"""
    def leaf(i):
        return ("p", variables[i % len(variables)], (), terms[(i // len(variables)) % len(terms)])

    out = [leaf(0)]
    ops = ("and", "or")
    for o in ops:
        out.append((o, leaf(0), leaf(1)))
    for o1, o2 in itertools.product(ops, repeat=2):
        out.append((o1, (o2, leaf(0), leaf(1)), leaf(2)))      # (a o2 b) o1 c
        out.append((o1, leaf(0), (o2, leaf(1), leaf(2))))      # a o1 (b o2 c)
    for o1, o2, o3 in itertools.product(ops, repeat=3):
        out.append((o2, (o1, leaf(0), leaf(1)), (o3, leaf(2), leaf(3))))   # (a o1 b) o2 (c o3 d)
        out.append((o3, (o2, (o1, leaf(0), leaf(1)), leaf(2)), leaf(3)))   # ((a o1 b) o2 c) o3 d
    return out


# ---- python source of the generic concrete instantiation used by replays ---------------------------------------------------
PY_GENERIC = '''
AND = lambda a, b: 0.7 * a * b + 0.1 * a + 0.05 * b * b
OR = lambda a, b: 0.2 + 0.3 * a + 0.4 * b * b - 0.1 * a * b
AGG = lambda a, b: 0.15 + 0.5 * a + 0.25 * b * a + 0.05 * b
IMP = lambda a, b: 0.6 * a * b + 0.1 * b * b + 0.02 * a
HEDGES = {"very": lambda x: x * x, "not": lambda x: 1 - x, "somewhat": lambda x: np.sqrt(x), "any": lambda x: 1.0 + 0 * x,
          "extremely": lambda x: np.where(x <= 0.5, 2 * x * x, 1 - 2 * (1 - x) * (1 - x)),
          "seldom": lambda x: np.where(x <= 0.5, np.sqrt(0.5 * x), 1 - np.sqrt(0.5 * (1 - x))),
          "h1": lambda x: 0.25 + 0.5 * x * x * x, "h2": lambda x: 0.9 - 0.7 * x}
def install_abstract():
    f = fl.settings.factory_manager.hedge
    for n in ("h1", "h2"):
        f.constructors[n] = (lambda n=n: fl.HedgeLambda(n, HEDGES[n]))
def evaluate(t, prop_value):
    if t[0] == "p": return prop_value(t)
    a, b = evaluate(t[1], prop_value), evaluate(t[2], prop_value)
    return AND(a, b) if t[0] == "and" else OR(a, b)
def prop_semantics(p, membership, enabled):
    _, v, hs, term = p
    if not enabled(v): return 0.0
    if hs and hs[-1] == "any": x, rest = 1.0, hs[:-1]
    else: x, rest = membership(v, term), hs
    for h in reversed(rest): x = HEDGES[h](x)
    return x
class Fixed(fl.Term):
    def __init__(self, name, value): super().__init__(name); self.value = value
    def membership(self, x): return np.float64(self.value) + 0.0 * np.asarray(x, dtype=float)
'''
