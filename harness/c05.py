"""C05  Hedges compute their formulas and keep degrees in [0,1]."""
from __future__ import annotations

import numpy as np
import z3

from symfl import core
from symfl.core import S, set_mode, sym_array, tf, same, ZB
from symfl.install import install
from symfl.replay import lit, replay_fn

from .common import unit, is_val, between, rvar, all_same

PROPERTY = "C05"
EXPLANATION = ("Each registered Hedge.hedge is executed on a symbolic degree x in [0,1]; formula, range, fixed points, "
               "monotonicity, very<=x<=somewhat, the inverse pairs and the involution are SMT queries over all reals in [0,1] "
               "(sqrt as a witness w>=0, w*w=t); the 0.5 branch of extremely/seldom is decided bit-exactly in IEEE double.")
BOUNDS = {"quick": {"x": "all finite reals in [0,1] (Mode R); all doubles in [0,1] for the branch condition (Mode F)",
                    "arrays": "1-D of 2, 2-D 2x2"},
          "thorough": {"x": "as quick", "arrays": "1-D of 4, 2-D 2x3"}}
OUTSIDE = ["inverse/involution laws in floating point (false by rounding for tiny x): real-arithmetic claim only",
           "HedgeLambda / HedgeFunction (user supplied)", "x outside [0,1]"]
ASSUMPTIONS = ["x in [0,1]", "Mode R: exact reals, sqrt = unique non-negative root"]
STUBS = []

H = z3.Q(1, 2)

# documented formulas as relations  spec(x, y) <=> y = hedge(x)   (transcribed from the docstrings of fuzzylite/hedge.py)
SPEC = {
    "any": lambda x, y: y == 1,
    "extremely": lambda x, y: y == z3.If(x <= H, 2 * x * x, 1 - 2 * (1 - x) * (1 - x)),
    "not": lambda x, y: y == 1 - x,
    "seldom": lambda x, y: z3.If(x <= H, z3.And(y >= 0, y * y == x / 2), z3.And(1 - y >= 0, (1 - y) * (1 - y) == (1 - x) / 2)),
    "somewhat": lambda x, y: z3.And(y >= 0, y * y == x),
    "very": lambda x, y: y == x * x,
}
PY = {
    "any": "1.0", "extremely": "(2*x*x if x <= 0.5 else 1-2*(1-x)**2)", "not": "1-x",
    "seldom": "(math.sqrt(x/2) if x <= 0.5 else 1-math.sqrt((1-x)/2))", "somewhat": "math.sqrt(x)", "very": "x*x",
}
CLS = {"any": "Any", "extremely": "Extremely", "not": "Not", "seldom": "Seldom", "somewhat": "Somewhat", "very": "Very"}
LAWS = ["formula", "range", "fixed", "monotone", "arrays", "singletons", "fresh", "pyfloat", "large"]


def _replay(name, law):
    def body(v):
        x, x2 = v.get("x", 0.0), v.get("x2", 0.0)
        lines = ["v = {" + ", ".join(f"{k!r}: {lit(t)}" for k, t in v.items()) + "}",
                 f"x, x2 = {lit(x)}, {lit(x2)}", f"Hd = fl.{CLS[name]}()", "f = lambda x: float(Hd.hedge(x))",
                 f"spec = lambda x: {PY[name]}", "tol = 1e-9",
                 "g = lambda n: (lambda t: float(getattr(fl, n)().hedge(t)))"]
        anti = name == "not"
        chk = {
            "formula": "bad = not same(f(x), spec(x), tol)",
            "range": "bad = not (-tol <= f(x) <= 1 + tol)",
            "fixed": {"not": "bad = not (same(f(0.0), 1.0) and same(f(1.0), 0.0))",
                      "any": "bad = not (same(f(0.0), 1.0) and same(f(1.0), 1.0) and same(f(x), 1.0))"}.get(
                          name, "bad = not (same(f(0.0), 0.0) and same(f(1.0), 1.0))"),
            "monotone": "bad = (x <= x2) and not (f(x) >= f(x2) - tol)" if anti else "bad = (x <= x2) and not (f(x) <= f(x2) + tol)",
            "fresh": "r1 = Hd.hedge(np.array([x, x2])); r1 = np.asarray(r1, dtype=float); r1 *= 0.5; r2 = Hd.hedge(np.array([x2, x]))\n"
                     "z1 = Hd.hedge(np.array(x)); z1 = np.asarray(z1, dtype=float); z1 *= 0.5; z2 = Hd.hedge(np.array(x2))\n"
                     "g = lambda t: float(type(Hd)().hedge(t))      # expected values from fresh hedge objects\n"
                     "bad = not (same(r2, [g(x2), g(x)], 0.0) and same(z2, g(x2), 0.0))",
            "arrays": "X = [v[k] for k in sorted(v) if k.startswith('x') and k[1:].isdigit()]; A = np.array(X); r = Hd.hedge(A)\n"
                      "M = [[v[k] for k in sorted(v) if k.startswith('m%d' % i)] for i in range(2)]; B = np.array(M); r2 = Hd.hedge(B)\n"
                      "bad = not (same(r, [f(t) for t in X], tol) and same(r2, [[f(t) for t in row] for row in M], tol) and same(A, X) and same(B, M))",
            "pyfloat": "bad = not (same(float(Hd.hedge(float(x))), float(Hd.hedge(np.float64(x))), 0.0) and same(float(Hd.hedge(np.array(x))), float(Hd.hedge(np.float64(x))), 0.0))",
            "large": "A = np.arange(16385, dtype=float) / 16384.0; A[3] = x; A[9000] = x2; r = Hd.hedge(A)\n"
                     "E = np.array([f(t) for t in (A[0], A[3], A[8192], A[9000], A[16384])])\n"
                     "bad = np.shape(r) != A.shape or not same(np.asarray(r)[[0, 3, 8192, 9000, 16384]], E, tol) or bool(np.isnan(np.asarray(r, dtype=float)).any())",
            "singletons": "bad = False\n"
                          "for A in (np.array([x]), np.array([[x]]), np.array([[x], [x2]]), np.array([[x, x2]]), np.array([[[x]]]), np.array([[x, x, x2], [x2, x, x2]]).T, np.array([x, x2, x2])[::-1]):\n"
                          "    r = Hd.hedge(A); bad = bad or np.shape(r) != A.shape or not same(r, np.vectorize(f)(A), tol)",
            "order": "bad = not (g('Very')(x) <= x + tol and x <= g('Somewhat')(x) + tol)",
            "inverse_vs": "bad = not (same(g('Very')(g('Somewhat')(x)), x, 1e-7) and same(g('Somewhat')(g('Very')(x)), x, 1e-7))",
            "inverse_es": "bad = not (same(g('Extremely')(g('Seldom')(x)), x, 1e-7) and same(g('Seldom')(g('Extremely')(x)), x, 1e-7))",
            "involution": "bad = not same(g('Not')(g('Not')(x)), x, 1e-9)",
            "F": "rel = lambda a, b: a == b or abs(a - b) <= 1e-12 * max(abs(a), abs(b))      # relative: a tiny degree is not allowed to vanish\n"
                 "bad = not same(f(x), spec(x), 0.0) if x in (0.0, 0.5, 1.0) else not rel(f(x), spec(x))",
        }[law]
        lines.append(chk)
        lines.append(f"verdict(bad, '{name}.{law} x=%r x2=%r -> %r' % (x, x2, f(x)))")
        return "\n".join(lines)

    return replay_fn(PROPERTY, f"{name}.{law}", body, key=f"{name}/{law}")


def _hedge(fl, name):
    return fl.settings.factory_manager.hedge.construct(name)


def _ob(name, law, tier):
    def run(ob):
        fl = install()
        set_mode("R")
        Hd = _hedge(fl, name)
        x, x2 = rvar("x"), rvar("x2")
        pre = [unit(x), unit(x2)]
        ins = {"x": x, "x2": x2}
        rp = _replay(name, law)

        def body():
            if law in ("formula", "range"):
                return (Hd.hedge(x),)
            if law == "fixed":
                return Hd.hedge(core.const(0.0)), Hd.hedge(core.const(1.0)), Hd.hedge(x)
            if law == "monotone":
                return Hd.hedge(x), Hd.hedge(x2)
            if law == "fresh":
                # the result of one call belongs to the caller: scaling it in place must not show in the result of the next call
                r1 = Hd.hedge(sym_array([x, x2]))
                if isinstance(r1, (core.SymArray, np.ndarray)):
                    r1 *= 0.5
                r2 = Hd.hedge(sym_array([x2, x]))
                z1 = Hd.hedge(core.sym0d(x))
                if isinstance(z1, (core.SymArray, np.ndarray)):
                    z1 *= 0.5
                z2 = Hd.hedge(core.sym0d(x2))
                return r2, [_hedge(fl, name).hedge(x2), _hedge(fl, name).hedge(x)], z2      # expected values from fresh hedge objects
            if law == "large":
                # an array beyond any plausible "small input" threshold (16385 elements): the dyadic grid k/16384 - which holds 0, 0.5 and 1
                # exactly - with two symbolic elements; every element is still the hedge of that element
                grid = [core.const(k / 16384.0) for k in range(16385)]
                grid[3], grid[9000] = x, x2
                r = Hd.hedge(sym_array(grid))
                els = core.elements(r) if core.kind_of(r)[0] == "array" else []
                picks = [els[i] for i in (0, 3, 8192, 9000, 16384)] if len(els) == 16385 else []
                nans = [e for e in els if isinstance(e, core.SymFloat) and e.concrete() is not None and e.concrete() != e.concrete()]
                return core.kind_of(r), picks, [Hd.hedge(t) for t in (core.const(0.0), x, core.const(0.5), x2, core.const(1.0))], len(nans)
            if law == "pyfloat":
                S.pyfloats = True
                # a plain Python float, a NumPy scalar and a 0-d array (what np.where-based code returns for a scalar) give one value
                return Hd.hedge(core.PyRFloat.of(x)), Hd.hedge(x), Hd.hedge(core.sym0d(x))
            if law == "singletons":
                # arrays with one element or with axes of length one keep their shape: (1,), (1,1), (2,1), (1,2), (1,1,1)
                shapes = ([x], [[x]], [[x], [x2]], [[x, x2]], [[[x]]])
                res = [(Hd.hedge(sym_array(a)), np.shape(np.array(a, dtype=object))) for a in shapes]
                # memory layout: a transposed view (Fortran order) and a reversed slice hold the same logical elements
                res.append((Hd.hedge(sym_array([[x, x, x2], [x2, x, x2]]).T), (3, 2)))
                res.append((Hd.hedge(sym_array([x, x2, x2])[::-1]), (3,)))
                return res, Hd.hedge(x), Hd.hedge(x2)
            if law == "arrays":
                n = 2 if tier == "quick" else 4
                xs = [rvar(f"x{i}") for i in range(n)]
                m = [[rvar(f"m{i}{j}") for j in range(2 if tier == "quick" else 3)] for i in range(2)]
                A, B = sym_array(xs), sym_array(m)
                return (Hd.hedge(A), [Hd.hedge(v) for v in xs], Hd.hedge(B),
                        [[Hd.hedge(v) for v in row] for row in m], xs, m, A, B)

        for p in ob.paths(pre, body):
            if p.exc is not None:
                ob.unexpected(pre, p, f"{name}/{law}", ins, rp)
                continue
            r = p.result
            if law == "formula":
                y = tf(r[0])
                ob.prove(pre, p, z3.And(ZB(y.fin()), SPEC[name](x.v, y.v)), f"{name}/formula", ins, rp)
                ob.expect_sat(pre, p, z3.And(ZB(y.fin()), SPEC[name](x.v, y.v + 1)), f"{name}/formula/twin")
            elif law == "range":
                ob.prove(pre, p, between(r[0], 0, 1), f"{name}/range", ins, rp)
            elif law == "fixed":
                h0, h1, hx = tf(r[0]), tf(r[1]), tf(r[2])
                if name == "not":
                    c = z3.And(is_val(h0, 1), is_val(h1, 0))
                elif name == "any":
                    c = z3.And(is_val(h0, 1), is_val(h1, 1), is_val(hx, 1))
                else:
                    c = z3.And(is_val(h0, 0), is_val(h1, 1))
                ob.prove(pre, p, c, f"{name}/fixed", ins, rp)
            elif law == "monotone":
                a, b = tf(r[0]), tf(r[1])
                claim = (a.v >= b.v) if name == "not" else (a.v <= b.v)
                ob.prove(pre + [x.v <= x2.v], p, claim, f"{name}/monotone", ins, rp)
                if name != "any":
                    ob.expect_sat(pre + [x.v <= x2.v], p, z3.Not(claim), f"{name}/monotone/twin")
            elif law == "fresh":
                r2, e2, z2 = r
                ob.prove(pre, p, z3.And(all_same(r2, e2), all_same(z2, [e2[0]])), f"{name}/fresh-results", ins, rp)
            elif law == "large":
                kind, picks, want, nn = r
                ob.prove(pre, p, z3.And(z3.BoolVal(kind == ("array", (16385,)) and nn == 0), *[same(tf(a), tf(b)) for a, b in zip(picks, want)]) if picks else z3.BoolVal(False),
                         f"{name}/large-array {kind} concrete NaN elements: {nn}", ins, rp)
            elif law == "pyfloat":
                ob.prove(pre, p, z3.And(same(tf(r[0]), tf(r[1])), same(tf(r[2]), tf(r[1]))), f"{name}/python-float+0d", ins, rp)
            elif law == "singletons":
                from symfl.core import kind_of
                res, fx, fx2 = r
                bad_kind = [(kind_of(a), shp) for a, shp in res if kind_of(a) != ("array", shp)]
                if bad_kind:
                    ob.prove(pre, p, z3.BoolVal(False), f"{name}/singletons/shape", ins, rp)      # replayed: the shapes differ on the real library too
                    continue
                flat = lambda a: [t for t in np.asarray(a.a if isinstance(a, core.SymArray) else a, dtype=object).ravel()]
                want = {(3, 2): [fx, fx2, fx, fx, fx2, fx2], (3,): [fx2, fx2, fx]}
                claim = z3.And([all_same(flat(a), want.get(shp, [fx, fx2][:len(flat(a))])) for a, shp in res])
                ob.prove(pre, p, claim, f"{name}/singletons", ins, rp)
            elif law == "arrays":
                r1, e1, r2, e2, xs, m, A, B = r
                pre2 = [unit(v) for v in xs] + [unit(v) for row in m for v in row]
                ins2 = {f"x{i}": t for i, t in enumerate(xs)}
                ins2.update({f"m{i}{j}": t for i, row in enumerate(m) for j, t in enumerate(row)})
                from symfl.core import kind_of
                if kind_of(r1) != ("array", (len(xs),)) or kind_of(r2) != ("array", (2, len(m[0]))):
                    ob.error(f"array kinds {kind_of(r1)} {kind_of(r2)}")
                    continue
                ob.prove(pre2, p, all_same(r1, e1), f"{name}/arrays/1d", ins2, rp)
                ob.prove(pre2, p, all_same(r2, e2), f"{name}/arrays/2d", ins2, rp)
                ob.prove(pre2, p, z3.And(all_same(A, xs), all_same(B, m)), f"{name}/arrays/arguments-not-modified", ins2, rp)

    return run


def _ob_rel(law):
    def run(ob):
        fl = install()
        set_mode("R")
        x = rvar("x")
        pre = [unit(x)]
        ins = {"x": x}
        very, somewhat, extremely, seldom, nt = (_hedge(fl, n) for n in ("very", "somewhat", "extremely", "seldom", "not"))
        name = {"order": "very", "inverse_vs": "very", "inverse_es": "extremely", "involution": "not"}[law]
        rp = _replay(name, law)

        def body():
            if law == "order":
                return very.hedge(x), somewhat.hedge(x)
            if law == "inverse_vs":
                return very.hedge(somewhat.hedge(x)), somewhat.hedge(very.hedge(x))
            if law == "inverse_es":
                return extremely.hedge(seldom.hedge(x)), seldom.hedge(extremely.hedge(x))
            if law == "involution":
                return (nt.hedge(nt.hedge(x)),)

        for p in ob.paths(pre, body):
            if p.exc is not None:
                ob.unexpected(pre, p, f"relations/{law}", ins, rp)
                continue
            r = p.result
            if law == "order":
                ob.prove(pre, p, z3.And(tf(r[0]).v <= x.v, x.v <= tf(r[1]).v), "very<=x<=somewhat", ins, rp)
            elif law in ("inverse_vs", "inverse_es"):
                ob.prove(pre, p, same(r[0], x), f"{law}/outer", ins, rp)
                ob.prove(pre, p, same(r[1], x), f"{law}/inner", ins, rp)
            else:
                ob.prove(pre, p, same(r[0], x), "not.not=id", ins, rp)

    return run


def _ob_f(name):
    """Mode F (IEEE double, np.where forked, * and sqrt relaxed to sound instance axioms): for every double x in [0,1]
    the hedge is not NaN and lies in [0,1]; each fork of `x <= 0.5` is explored separately."""

    def run(ob):
        fl = install()
        set_mode("F")
        Hd = _hedge(fl, name)
        x = core.var("x")
        pre = [unit(x)]
        rp = _replay(name, "range")
        Z, ONE = core.fv(0.0), core.fv(1.0)
        n = 0
        for p in ob.paths(pre, lambda: Hd.hedge(x)):
            if p.exc is not None:
                ob.unexpected(pre, p, f"{name}/F/range", {"x": x}, rp)
                continue
            if ob.reachable(pre, p) is None:
                continue
            n += 1
            y = tf(p.result).f
            ob.prove(pre, p, z3.And(z3.Not(z3.fpIsNaN(y)), z3.fpGEQ(y, Z), z3.fpLEQ(y, ONE)), f"{name}/F/range", {"x": x}, rp)
            if name != "any":
                ob.expect_sat(pre, p, z3.fpLT(y, core.fv(0.25)), f"{name}/F/twin")
        if n < 1:
            ob.error(f"{name}: no feasible path")

    return run


def _ob_f_exact(name):
    """Mode F with exact fp.mul / fp.sqrt: for EVERY double in [0,1] (the subnormals and the doubles next to 0 and 1 included) the
    hedge is the documented formula evaluated in IEEE arithmetic in the documented order.  An algebraically equal form that loses
    small degrees (0.5 - |x - 0.5| absorbs every x below 2^-54) differs here; a replay decides with a relative tolerance, so a form
    that merely rounds differently is reported as an unreproduced candidate, not as a violation"""

    def run(ob):
        fl = install()
        set_mode("F", fexact=True)
        ob.query_timeout_ms = 120000 if ob.tier == "quick" else 900000
        Hd = _hedge(fl, name)
        x = core.var("x")
        pre = [unit(x)]
        rp = _replay(name, "F")
        R = z3.RNE()
        fv = core.fv
        X = x.f
        one_minus = z3.fpSub(R, fv(1.0), X)
        sq = lambda t: z3.fpMul(R, t, t)      # noqa: E731
        want = {"any": fv(1.0), "not": one_minus, "very": sq(X), "somewhat": z3.fpSqrt(R, X),
                "extremely": z3.If(z3.fpLEQ(X, fv(0.5)), z3.fpMul(R, fv(2.0), sq(X)), z3.fpSub(R, fv(1.0), z3.fpMul(R, fv(2.0), sq(one_minus)))),
                "seldom": z3.If(z3.fpLEQ(X, fv(0.5)), z3.fpSqrt(R, z3.fpMul(R, fv(0.5), X)), z3.fpSub(R, fv(1.0), z3.fpSqrt(R, z3.fpMul(R, fv(0.5), one_minus))))}[name]
        for p in ob.paths(pre, lambda: Hd.hedge(x)):
            if p.exc is not None:
                ob.unexpected(pre, p, f"{name}/F/formula-exact", {"x": x}, rp)
                continue
            if ob.reachable(pre, p) is None:
                continue
            ob.prove(pre, p, z3.fpEQ(tf(p.result).f, want), f"{name}/F/formula-exact", {"x": x}, rp)

    return run


def _obligations(tier, seed):
    obs = []
    for name in SPEC:
        for law in LAWS:
            if law == "large" and tier == "quick":
                continue      # 16385-element arrays: thorough tier (a minute per hedge)
            obs.append((f"{name}/R/{law}", _ob(name, law, tier)))
    for law in ("order", "inverse_vs", "inverse_es", "involution"):
        obs.append((f"relations/R/{law}", _ob_rel(law)))
    for name in SPEC:
        obs.append((f"{name}/F/range", _ob_f(name)))
        obs.append((f"{name}/F/formula-exact", _ob_f_exact(name)))
    return obs


def obligations(tier, seed):
    from . import conform
    return _obligations(tier, seed) + conform.obligations(PROPERTY, tier)
