"""C20  Temporary settings are always restored."""
from __future__ import annotations

import itertools

import z3

from symfl import core
from symfl.core import S, set_mode, tf, same, ZB, SymBool
from symfl.install import install
from symfl.replay import lit, replay_fn

from .common import rvar

PROPERTY = "C20"
EXPLANATION = ("Setting values are opaque symbols: objects whose truth value and mutual equality are symbolic booleans, so code that "
               "inspects a value (truthiness instead of `is None`, `==` against the current value) forks and the falsy / equal cases "
               "(decimals=0, alias='', a context repeating the current value) are explored. Which of the 7 settings each context names "
               "is a symbolic boolean per key and level, as is whether a level is left by an exception; a direct assignment inside the "
               "innermost block to a named or unnamed setting is enumerated. The real Settings.context runs; per path: on entry the "
               "named keys hold the requested values and the others are untouched, on exit every named key is identical to its value at "
               "entry of that level and the keys not named are exactly what the block left. Op.is_close (symbolic atol/rtol through the "
               "shim) and Op.str (decimals 0..9) must observe the innermost values inside and the outer ones again after exit.")
BOUNDS = {"quick": {"nesting": "depth 1 with all 2^7 subsets of named keys; depth 2 with all subsets of 3 keys per level (decimals, alias, factory_manager) "
                               "and of (atol, logger, float_type); depth 3 over 2 keys", "exits": "normal / exception at each level",
                    "assignment inside": "none, or to each of 4 keys"},
          "thorough": {"nesting": "quick + depth 2 over 4 and 5 keys per level; depth 3 over 3 keys; depth 4 over 2 keys; depth 5 over one key",
                       "base state": "the factory manager either created or the lazily initialised default (None)"}}
OUTSIDE = ["nesting deeper than the bound", "threads (the settings object is process-wide and not thread-safe by design)",
           "this is path exploration with symbolic data rather than arithmetic reasoning"]
ASSUMPTIONS = ["values of float_type, logger and factory_manager are truthy objects (the factory manager may also be the not-yet-created default None)",
               "at most one falsy value per setting"]
STUBS = ["opaque setting values with symbolic truthiness / equality", "Op.is_close observed through the shim's np.isclose model"]
OB_BUDGET_S = {"quick": 240, "thorough": 1500}

KEYS = ("float_type", "decimals", "atol", "rtol", "alias", "logger", "factory_manager")
ATTR = {k: ("_factory_manager" if k == "factory_manager" else k) for k in KEYS}
NO_FALSY = ("float_type", "logger", "factory_manager")

PYREF = '''
import logging
POOL = {"float_type": [np.float64, np.float32, float, np.float16], "decimals": [0, 3, 5, 7, 9], "atol": [0.0, 1e-3, 0.5, 0.25, 2.0],
        "rtol": [0.0, 0.1, 0.2, 0.3, 0.4], "alias": ["", "fl", "x", "*", "lib"],
        "logger": [logging.getLogger("verif%d" % i) for i in range(5)], "factory_manager": [fl.FactoryManager() for _ in range(5)]}
ATTR = {k: ("_factory_manager" if k == "factory_manager" else k) for k in POOL}
class Boom(Exception): pass
class BoomBase(BaseException): pass      # a context can be left by a BaseException that is not an Exception (KeyboardInterrupt, GeneratorExit, ...)
'''


REPLAY_PROGRAM = '''
st = fl.settings; saved = dict(vars(st)); bad = []; log = []
def level(lv):
    entry = dict(vars(st)); kw = {k: VAL[(k, "L%d" % lv)] for k in names[lv]}; left = inside = None
    try:
        with (CMS[lv] if precreate else st.context(**kw)):
            inside = dict(vars(st))
            try:
                if lv + 1 < depth: level(lv + 1)
                elif assign_key is not None: setattr(st, ATTR[assign_key], VAL[(assign_key, "assigned")])
                if raises[lv]: raise (BoomBase() if as_base else Boom())
            finally:
                left = dict(vars(st))
    finally:
        log.append((lv, names[lv], entry, inside, left, dict(vars(st))))
try:
    for k in KEYS: setattr(st, ATTR[k], VAL[(k, "base")])
    # the context objects may be created before any of them is entered (a list handed to an ExitStack, a decorator): what is rolled
    # back is the state at the time of ENTERING
    CMS = {lv: st.context(**{k: VAL[(k, "L%d" % lv)] for k in names[lv]}) for lv in range(depth)} if precreate else {}
    try: level(0)
    except (Boom, BoomBase): pass
finally:
    vars(st).clear(); vars(st).update(saved)
for (lv, named, entry, inside, left, after) in log:
    na = {ATTR[k] for k in named}
    for k in KEYS:
        a = ATTR[k]
        if a in na:
            if inside[a] is not VAL[(k, "L%d" % lv)]: bad.append("level %d: %s is %r inside, requested %r" % (lv, k, inside[a], VAL[(k, "L%d" % lv)]))
            if after[a] is not entry[a]: bad.append("level %d: %s is %r after exit, was %r at entry" % (lv, k, after[a], entry[a]))
        else:
            if inside[a] is not entry[a]: bad.append("level %d: %s (not named) touched on entry" % (lv, k))
            if after[a] is not left[a]: bad.append("level %d: %s (not named) is %r after exit, the block left %r" % (lv, k, after[a], left[a]))
'''


class Opaque:
    """opaque setting value: identity is what the property talks about; truthiness and equality are symbolic"""
    _eq = {}

    def __init__(self, key, tag):
        self.key, self.tag = key, tag
        self.truthy = z3.BoolVal(True) if key in NO_FALSY else z3.Bool(f"truthy!{key}!{tag}")

    def __bool__(self):
        return bool(SymBool(self.truthy))

    # a logger stand-in can be logged to (code under test may report through the logger in force)
    def debug(self, *a, **k): pass
    info = warning = error = critical = exception = log = debug

    def isEnabledFor(self, level): return False

    def eqvar(self, o):
        if o is self:
            return z3.BoolVal(True)
        a, b = sorted([(self.key, self.tag), (o.key, o.tag)])
        return z3.Bool(f"eq!{a[0]}!{a[1]}!{b[1]}") if a[0] == b[0] else z3.BoolVal(False)

    def __eq__(self, o):
        if not isinstance(o, Opaque):
            return False
        return SymBool(self.eqvar(o))

    def __ne__(self, o):
        if not isinstance(o, Opaque):
            return True
        return ~SymBool(self.eqvar(o))

    __hash__ = object.__hash__

    def __repr__(self):
        return f"<{self.key}:{self.tag}>"


def eq_axioms(ops):
    """equality is an equivalence compatible with truthiness; one falsy value per key"""
    ax = []
    by = {}
    for o in ops:
        by.setdefault(o.key, []).append(o)
    for k, xs in by.items():
        for a, b in itertools.combinations(xs, 2):
            ax.append(z3.Implies(a.eqvar(b), a.truthy == b.truthy))
            ax.append(z3.Implies(z3.And(z3.Not(a.truthy), z3.Not(b.truthy)), a.eqvar(b)))
        for a, b, c in itertools.permutations(xs, 3):
            ax.append(z3.Implies(z3.And(a.eqvar(b), b.eqvar(c)), a.eqvar(c)))
    return ax


class Boom(Exception):
    pass


class BoomBase(BaseException):
    """what leaves a context need not be an Exception (KeyboardInterrupt, SystemExit, GeneratorExit of a closed generator)"""


def ob_nesting(depth, keys, assign_key, label):
    """contexts nested `depth` deep over `keys` (presence symbolic per level), exception per level symbolic, optional assignment inside"""

    def run(ob):
        fl = install()
        set_mode("R")
        st = fl.settings
        pres = {(lv, k): z3.Bool(f"names!{lv}!{k}") for lv in range(depth) for k in keys}
        exc_at = {lv: z3.Bool(f"raise!{lv}") for lv in range(depth)}
        base = {k: Opaque(k, "base") for k in KEYS}
        req = {(lv, k): Opaque(k, f"L{lv}") for lv in range(depth) for k in keys}
        asg = Opaque(assign_key, "assigned") if assign_key else None
        ops = list(base.values()) + list(req.values()) + ([asg] if asg is not None else [])
        pre = eq_axioms(ops) + [z3.Or(*[z3.Not(e) for e in exc_at.values()])] if depth > 1 else eq_axioms(ops)
        # at most one level raises (an exception propagates through the outer levels anyway)
        pre = eq_axioms(ops) + [z3.Not(z3.And(a, b)) for a, b in itertools.combinations(exc_at.values(), 2)]
        fm_unset = z3.Bool("base!factory_manager!unset")
        as_base = z3.Bool("raise!as-base-exception")
        pre_cm = z3.Bool("contexts!created-before-entering")
        ins = {str(v): SymBool(v) for v in list(pres.values()) + list(exc_at.values()) + [fm_unset, as_base, pre_cm]}
        for o in ops:
            if not z3.is_true(o.truthy):
                ins[str(o.truthy)] = SymBool(o.truthy)
        eqs = {}
        for a, b in itertools.combinations(ops, 2):
            e = a.eqvar(b)
            if not z3.is_false(e):
                eqs[str(e)] = SymBool(e)
        ins.update(eqs)

        def rbody(v):
            # concretise the opaque values: equivalence classes per key -> distinct pool members, the falsy class gets the falsy member
            cls = {}
            lines = [PYREF]
            val = {}
            for k in KEYS:
                xs = [o for o in ops if o.key == k]
                groups = []
                for o in xs:
                    for g in groups:
                        if bool(v.get(str(o.eqvar(g[0])), False)) or o is g[0]:
                            g.append(o)
                            break
                    else:
                        groups.append([o])
                nxt = 1
                for g in groups:
                    falsy = (k not in NO_FALSY) and not bool(v.get(str(g[0].truthy), True))
                    idx = 0 if falsy else nxt
                    if not falsy:
                        nxt += 1
                    for o in g:
                        val[(o.key, o.tag)] = f"POOL[{k!r}][{idx}]"
            names = {lv: [k for k in keys if bool(v[str(pres[(lv, k)])])] for lv in range(depth)}
            raises = {lv: bool(v[str(exc_at[lv])]) for lv in range(depth)}
            if bool(v[str(fm_unset)]):
                val[("factory_manager", "base")] = "None"     # the lazily initialised default: no factory manager created yet
            lines.append("VAL = {" + ", ".join(f"{kt!r}: {src}" for kt, src in val.items()) + "}")
            lines.append(f"names = {names!r}; raises = {raises!r}; depth = {depth}; assign_key = {assign_key!r}; KEYS = {KEYS!r}; as_base = {bool(v[str(as_base)])!r}; precreate = {bool(v[str(pre_cm)])!r}")
            lines.append(REPLAY_PROGRAM)
            lines.append(f"verdict(bool(bad), {label!r} + ': ' + '; '.join(bad))")
            return "\n".join(lines)

        rp = replay_fn(PROPERTY, label, rbody, key=None)

        def body():
            saved = dict(vars(st))
            log = []
            try:
                for k in KEYS:
                    setattr(st, ATTR[k], base[k])
                if bool(SymBool(fm_unset)):
                    st._factory_manager = None
                names = {lv: [k for k in keys if bool(SymBool(pres[(lv, k)]))] for lv in range(depth)}
                raises = {lv: bool(SymBool(exc_at[lv])) for lv in range(depth)}
                base_exc = any(raises.values()) and bool(SymBool(as_base))
                precreate = depth > 1 and bool(SymBool(pre_cm))
                cms = {lv: st.context(**{k: req[(lv, k)] for k in names[lv]}) for lv in range(depth)} if precreate else {}

                def level(lv):
                    entry = dict(vars(st))
                    kw = {k: req[(lv, k)] for k in names[lv]}
                    left = None
                    try:
                        with (cms[lv] if precreate else st.context(**kw)):
                            inside = dict(vars(st))
                            try:
                                if lv + 1 < depth:
                                    level(lv + 1)
                                elif asg is not None:
                                    setattr(st, ATTR[assign_key], asg)
                                if raises[lv]:
                                    raise (BoomBase() if base_exc else Boom())
                            finally:
                                left = dict(vars(st))
                    finally:
                        after = dict(vars(st))
                        log.append((lv, names[lv], entry, inside, left, after))

                try:
                    level(0)
                except (Boom, BoomBase):
                    pass
                return log, names, raises
            finally:
                vars(st).clear()
                vars(st).update(saved)

        n = 0
        for p in ob.paths(pre, body):
            n += 1
            if p.exc is not None:
                ob.unexpected(pre, p, label, ins, rp)
                continue
            log, names, raises = p.result
            problems = []
            for (lv, named, entry, inside, left, after) in log:
                na = {ATTR[k] for k in named}
                for k in KEYS:
                    a = ATTR[k]
                    if a in na:
                        if inside[a] is not req[(lv, k)]:
                            problems.append(f"level {lv}: {k} is {inside[a]!r} inside, requested {req[(lv, k)]!r}")
                        if after[a] is not entry[a]:
                            problems.append(f"level {lv}: {k} is {after[a]!r} after exit, was {entry[a]!r} at entry")
                    else:
                        if inside[a] is not entry[a]:
                            problems.append(f"level {lv}: {k} (not named) touched on entry")
                        if after[a] is not left[a]:
                            problems.append(f"level {lv}: {k} (not named) is {after[a]!r} after exit, the block left {left[a]!r}")
            pat = ";".join(f"L{lv}:{','.join(names[lv]) or '-'}{'!' if raises[lv] else ''}" for lv in range(depth))
            ob.prove(pre, p, not problems, f"{label} [{pat}]: {problems}", ins, rp)
        if n:
            ob.r.vacuity_ok += 1
        else:
            ob.error("no path")

    return run


def ob_is_close(label):
    """Op.is_close observes the innermost atol/rtol inside nested contexts and the outer ones again after exit"""

    def run(ob):
        fl = install()
        set_mode("R")
        st = fl.settings
        a, b = rvar("a"), rvar("b")
        T = {n: rvar(n) for n in ("atol0", "rtol0", "atol1", "rtol1", "atol2")}
        pre = [x.v >= 0 for x in T.values()]
        ins = {"a": a, "b": b}
        ins.update(T)

        def rbody(v):
            g = lambda n: lit(v[n])
            return "\n".join([f"a, b = {g('a')}, {g('b')}", "st = fl.settings; saved = dict(vars(st)); res = []",
                              "try:",
                              f"    st.atol, st.rtol = {g('atol0')}, {g('rtol0')}",
                              "    res.append(bool(fl.Op.is_close(a, b)))",
                              f"    with st.context(atol={g('atol1')}, rtol={g('rtol1')}):",
                              "        res.append(bool(fl.Op.is_close(a, b)))",
                              f"        with st.context(atol={g('atol2')}):",
                              "            res.append(bool(fl.Op.is_close(a, b)))",
                              "        res.append(bool(fl.Op.is_close(a, b)))",
                              "    res.append(bool(fl.Op.is_close(a, b)))",
                              "finally:", "    vars(st).clear(); vars(st).update(saved)",
                              f"pairs = [({g('atol0')}, {g('rtol0')}), ({g('atol1')}, {g('rtol1')}), ({g('atol2')}, {g('rtol1')}), ({g('atol1')}, {g('rtol1')}), ({g('atol0')}, {g('rtol0')})]",
                              "exp = [bool(np.isclose(a, b, atol=t, rtol=r, equal_nan=True)) for t, r in pairs]",
                              "verdict(res != exp, 'Op.is_close observed %r, settings in force imply %r' % (res, exp))"])

        rp = replay_fn(PROPERTY, label, rbody, key=None)

        def body():
            saved = dict(vars(st))
            res = []
            try:
                st.atol, st.rtol = T["atol0"], T["rtol0"]
                res.append(fl.Op.is_close(a, b))
                with st.context(atol=T["atol1"], rtol=T["rtol1"]):
                    res.append(fl.Op.is_close(a, b))
                    with st.context(atol=T["atol2"]):
                        res.append(fl.Op.is_close(a, b))
                    res.append(fl.Op.is_close(a, b))
                res.append(fl.Op.is_close(a, b))
                return res
            finally:
                vars(st).clear()
                vars(st).update(saved)

        for p in ob.paths(pre, body):
            if p.exc is not None:
                ob.unexpected(pre, p, label, ins, rp)
                continue
            pairs = [("atol0", "rtol0"), ("atol1", "rtol1"), ("atol2", "rtol1"), ("atol1", "rtol1"), ("atol0", "rtol0")]
            claims = []
            for r, (t, rr) in zip(p.result, pairs):
                exp = core._isclose(a, b, rtol=T[rr], atol=T[t], equal_nan=True)
                claims.append(ZB(core.tb(r)) == ZB(exp.e))
            ob.prove(pre, p, z3.And(*claims), label, ins, rp)
            ob.expect_sat(pre, p, ZB(core.tb(p.result[2])) == ZB(core.tb(p.result[1])), f"{label}/twin")

    return run


def ob_str(label):
    """Op.str observes the innermost decimals inside nested contexts (concrete decimals 0..9, fixed probe values)"""

    def run(ob):
        fl = install()
        st = fl.settings
        xs = [0.0, 1.0, -2.5, 0.123456789, 1234.5678, 1e-7]
        problems = []
        saved = dict(vars(st))
        try:
            for d0, d1, d2 in itertools.product(range(0, 10, 3), range(0, 10), range(0, 10, 2)):
                st.decimals = d0
                got = []
                exp = []
                for x in xs:
                    got.append(fl.Op.str(x)); exp.append(f"{x:.{d0}f}")
                    try:
                        with st.context(decimals=d1):
                            got.append(fl.Op.str(x)); exp.append(f"{x:.{d1}f}")
                            with st.context(decimals=d2, alias="z"):
                                got.append(fl.Op.str(x)); exp.append(f"{x:.{d2}f}")
                                raise Boom()
                    except Boom:
                        pass
                    got.append(fl.Op.str(x)); exp.append(f"{x:.{d0}f}")
                if got != exp:
                    problems.append((d0, d1, d2))
        finally:
            vars(st).clear()
            vars(st).update(saved)
        ob.prove([], None, not problems, f"{label}: Op.str did not follow the decimals in force for (d0,d1,d2) in {problems[:3]}", None, None)

    return run


def obligations(tier, seed):
    obs = []
    obs.append(("depth1/all-keys", ob_nesting(1, KEYS, None, "depth1/all-keys")))
    for ak in ("decimals", "alias", "factory_manager", "atol"):
        obs.append((f"depth1/all-keys/assign-{ak}", ob_nesting(1, KEYS, ak, f"depth1/all-keys/assign-{ak}")))
    trip1, trip2 = ("decimals", "alias", "factory_manager"), ("atol", "logger", "float_type")
    for trip in (trip1, trip2):
        nm = f"depth2/{'+'.join(trip)}"
        obs.append((nm, ob_nesting(2, trip, None, nm)))
        for ak in (trip[0], trip[2], "rtol"):
            obs.append((f"{nm}/assign-{ak}", ob_nesting(2, trip, ak, f"{nm}/assign-{ak}")))
    obs.append(("depth3/decimals+factory_manager", ob_nesting(3, ("decimals", "factory_manager"), None, "depth3/decimals+factory_manager")))
    obs.append(("depth3/alias+atol/assign-alias", ob_nesting(3, ("alias", "atol"), "alias", "depth3/alias+atol/assign-alias")))
    if tier != "quick":
        obs.append(("depth2/4keys", ob_nesting(2, ("decimals", "alias", "factory_manager", "rtol"), "decimals", "depth2/4keys")))
        obs.append(("depth2/4keys-b", ob_nesting(2, ("float_type", "atol", "logger", "factory_manager"), "factory_manager", "depth2/4keys-b")))
        obs.append(("depth2/5keys", ob_nesting(2, ("decimals", "alias", "factory_manager", "atol", "float_type"), None, "depth2/5keys")))
        obs.append(("depth3/3keys", ob_nesting(3, ("decimals", "alias", "factory_manager"), "alias", "depth3/3keys")))
        obs.append(("depth3/3keys-b", ob_nesting(3, ("atol", "rtol", "logger"), "rtol", "depth3/3keys-b")))
        obs.append(("depth4/2keys", ob_nesting(4, ("decimals", "factory_manager"), "decimals", "depth4/2keys")))
        obs.append(("depth4/2keys-b", ob_nesting(4, ("alias", "atol"), None, "depth4/2keys-b")))
        obs.append(("depth5/1key", ob_nesting(5, ("factory_manager",), "factory_manager", "depth5/1key")))
    obs.append(("observe/is_close", ob_is_close("observe/is_close")))
    obs.append(("observe/str", ob_str("observe/str")))
    return obs
