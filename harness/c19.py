"""C19  An engine reported ready can be processed."""
from __future__ import annotations

import z3

from symfl import core
from symfl.core import S, set_mode, tf, same, ZB, elements, SymBool
from symfl.install import install
from symfl.replay import lit, replay_fn

from . import regeng
from .c02 import IN_TERMS, OUT_TERMS
from .common import rvar

PROPERTY = "C19"
EXPLANATION = ("For each engine skeleton the presence of every operator and defuzzifier (conjunction, disjunction, implication per block; "
               "aggregation and defuzzifier per output) is a symbolic boolean chosen when the engine is built, so every subset of missing "
               "components is a path; all input values are symbolic finite reals. The real Engine.is_ready(errors) runs, then the real "
               "Engine.process: on every path where is_ready reported no errors, no path of process may raise (for any finite inputs); "
               "on every path where a component the loaded rules/outputs need is absent, errors must be non-empty and name it.")
BOUNDS = {"quick": {"skeletons": "11 (and only / or only / both with hedges / `a or b and c` / no connectives / Takagi-Sugeno / Tsukamoto / hybrid "
                                 "with a rule concluding both kinds / weighted outputs before integral ones / two blocks / First activation)", "presence": "all subsets of up to 8 components per engine",
                    "inputs": "all finite reals"},
          "thorough": {"skeletons": "quick + 11 more: one per activation method (Last, Highest, Lowest, Proportional, Threshold, First with threshold) on rules "
                                    "with and/or/hedges/weights, a weighted-defuzzified output read by a later block, parentheses and weights, three blocks, "
                                    "an output variable read only in antecedents", "presence": "all subsets of up to 11 components per engine", "inputs": "all finite reals"}}
OUTSIDE = ["engines without an activation method or with unparenthesised-token rule texts (excluded by the statement)",
           "engine design errors is_ready does not look at (mixed term kinds under one weighted defuzzifier, Function terms with unknown variables)",
           "non-finite inputs"]
ASSUMPTIONS = ["inputs finite", "rule blocks have an activation method; rules are loaded"]
STUBS = ["presence of each operator/defuzzifier decided by a symbolic boolean at construction (forked by the explorer)"]
OB_BUDGET_S = {"quick": 240, "thorough": 1200}


def skeletons():
    def out(name, defz, terms=OUT_TERMS, agg="Maximum"):
        return {"name": name, "terms": terms, "aggregation": agg, "defuzzifier": defz}

    CONST = [("Constant", "a", 0.25), ("Constant", "b", 0.75)]
    MONO = [("Ramp", "a", 0.0, 1.0), ("Ramp", "b", 1.0, 0.0)]
    ins2 = [{"name": "X", "terms": IN_TERMS}, {"name": "Y", "terms": IN_TERMS}]
    blk = lambda rules, act=("General",): {"conjunction": "Minimum", "disjunction": "Maximum", "implication": "Minimum", "activation": act, "rules": rules}
    S_ = {}
    S_["and-only"] = {"inputs": ins2, "outputs": [out("O", ("Centroid", 2))], "blocks": [blk(["if X is a and Y is b then O is a", "if X is b then O is b"])]}
    S_["or-only"] = {"inputs": ins2, "outputs": [out("O", ("Centroid", 2))], "blocks": [blk(["if X is a or Y is b then O is a", "if X is b then O is b"])]}
    S_["both-hedged"] = {"inputs": ins2, "outputs": [out("O", ("MeanOfMaximum", 2))],
                         "blocks": [blk(["if X is very a and Y is b or X is not b then O is a", "if ( X is b or Y is a ) and Y is any then O is somewhat b"])]}
    S_["or-then-and"] = {"inputs": ins2, "outputs": [out("O", ("Centroid", 2))], "blocks": [blk(["if X is a or Y is a and X is b then O is a"])]}
    S_["no-connectives"] = {"inputs": ins2, "outputs": [out("O", ("Bisector", 2))], "blocks": [blk(["if X is a then O is a", "if Y is b then O is b"])]}
    S_["takagi-sugeno"] = {"inputs": ins2, "outputs": [out("O", ("WeightedAverage",), CONST, None)],
                           "blocks": [blk(["if X is a and Y is a then O is a", "if X is b or Y is b then O is b"])]}
    S_["tsukamoto"] = {"inputs": ins2, "outputs": [out("O", ("WeightedSum",), MONO, None)], "blocks": [blk(["if X is a then O is a", "if X is b and Y is a then O is b"])]}
    S_["hybrid-both-kinds"] = {"inputs": ins2, "outputs": [out("O", ("Centroid", 2)), out("P", ("WeightedAverage",), CONST, None)],
                               "blocks": [blk(["if X is a then O is a and P is b", "if Y is b then P is a and O is b"])]}
    S_["two-blocks"] = {"inputs": ins2, "outputs": [out("O", ("Centroid", 2)), out("P", ("WeightedAverage",), CONST, None)],
                        "blocks": [blk(["if X is a and Y is a then O is a"]), blk(["if X is b or O is a then P is b"])]}
    # outputs in the order weighted, integral, weighted, integral: a readiness scan must look at every output variable
    S_["hybrid-weighted-first"] = {"inputs": ins2, "outputs": [out("P", ("WeightedAverage",), CONST, None), out("O", ("Centroid", 2)),
                                                               out("Q", ("WeightedSum",), CONST, None), out("R", ("Bisector", 2))],
                                   "blocks": [blk(["if X is a then P is a and O is a", "if Y is b or X is b then O is b and Q is b and R is a"])]}
    # a rule whose consequent fails to load after its first conclusion (the loader's error is swallowed): the rule must stay unloaded
    bad = blk(["if X is a and Y is b then O is a", "if X is b then O is b and O is nosuchterm", "if Y is a then O is a and nosuchvariable is b"])
    bad["tolerate_rule_errors"] = True
    S_["rule-with-unloadable-consequent"] = {"inputs": ins2, "outputs": [out("O", ("Centroid", 2))], "blocks": [bad]}
    S_["weighted-output-read-later"] = {"inputs": ins2, "outputs": [out("O", ("WeightedAverage",), CONST, None), out("P", ("Centroid", 2))],
                                        "blocks": [blk(["if X is a and Y is a then O is a", "if X is b then O is b"]), blk(["if O is a or Y is b then P is b", "if O is b and X is a then P is a"])]}
    # ONE weighted defuzzifier object installed in two output variables of different term families (what Engine.configure does)
    S_["shared-weighted-defuzzifier"] = {"inputs": ins2, "outputs": [out("O", ("WeightedAverage",), MONO, None), out("P", ("WeightedAverage",), CONST, None)],
                                         "blocks": [blk(["if X is a then O is a and P is b", "if Y is b or X is b then P is a and O is b"])], "share_defuzzifier": True}
    S_["shared-weighted-defuzzifier-reversed"] = {"inputs": ins2, "outputs": [out("P", ("WeightedSum",), CONST, None), out("O", ("WeightedSum",), MONO, None)],
                                                  "blocks": [blk(["if X is a then O is a and P is b", "if Y is b or X is b then P is a and O is b"])], "share_defuzzifier": True}
    # every rule that uses `and` in its antecedent also joins its conclusions with `and`
    S_["and-rules-with-several-conclusions"] = {"inputs": ins2, "outputs": [out("O", ("Centroid", 2)), out("P", ("Centroid", 2))],
                                                "blocks": [blk(["if X is a and Y is b then O is a and P is b", "if X is b then O is b and P is a and O is a"])]}
    S_["first-activation"] = {"inputs": ins2, "outputs": [out("O", ("LargestOfMaximum", 2))],
                              "blocks": [blk(["if X is a and Y is b then O is a", "if X is b or Y is a then O is b"], ("First", 1, 0.0))]}
    return S_


def more_skeletons():
    """thorough tier: every activation method, an output variable with a weighted defuzzifier read by a later block, weights and
    parentheses, three blocks"""
    def out(name, defz, terms=OUT_TERMS, agg="Maximum"):
        return {"name": name, "terms": terms, "aggregation": agg, "defuzzifier": defz}

    CONST = [("Constant", "a", 0.25), ("Constant", "b", 0.75)]
    ins2 = [{"name": "X", "terms": IN_TERMS}, {"name": "Y", "terms": IN_TERMS}]
    blk = lambda rules, act=("General",): {"conjunction": "Minimum", "disjunction": "Maximum", "implication": "Minimum", "activation": act, "rules": rules}
    S_ = {}
    mixed = ["if X is a and Y is b then O is a", "if X is b or Y is a then O is b", "if Y is very a then O is a with 0.5"]
    for act in (("Last", 1, 0.0), ("Highest", 2), ("Lowest", 1), ("Proportional",), ("Threshold", ">", 0.25), ("First", 2, 0.5)):
        S_[f"activation-{act[0]}"] = {"inputs": ins2, "outputs": [out("O", ("Centroid", 2))], "blocks": [blk(mixed, act)]}
    S_["parentheses-and-weights"] = {"inputs": ins2, "outputs": [out("O", ("SmallestOfMaximum", 2))],
                                     "blocks": [blk(["if ( X is a or Y is b ) and ( X is b or Y is a ) then O is a with 0.25", "if X is a then O is b with 0.75"])]}
    S_["three-blocks"] = {"inputs": ins2, "outputs": [out("O", ("Centroid", 2)), out("P", ("WeightedSum",), CONST, None)],
                          "blocks": [blk(["if X is a then O is a"]), blk(["if X is b and Y is b then P is a"]), blk(["if Y is a or X is a then O is b and P is b"])]}
    S_["output-only-in-antecedent"] = {"inputs": ins2, "outputs": [out("O", ("Centroid", 2)), out("P", ("Bisector", 2))],
                                       "blocks": [blk(["if X is a then O is a"]), blk(["if O is a and O is b then P is a", "if O is any or X is b then P is b"])]}
    return S_


RULE_FLAGS = ("and-only", "or-only", "or-then-and")


def needs(spec, present=None):
    """the statement's 'needed' predicate, from the skeleton (never from fuzzylite).  Whether an output needs an aggregation
    operator / its rules an implication depends on its defuzzifier being an integral one, which can only be said when the
    defuzzifier is there (its absence is itself reported)."""
    need = []
    integral = {ov["name"]: ov["defuzzifier"][0] not in ("WeightedAverage", "WeightedSum") and (present is None or present[("output", oi, "defuzzifier")])
                for oi, ov in enumerate(spec["outputs"])}
    for bi, rb in enumerate(spec["blocks"]):
        antes = [r.split(" then ")[0] for r in rb["rules"]]
        cons = [r.split(" then ")[1] for r in rb["rules"]]
        if any(" and " in a for a in antes):
            need.append(("block", bi, "conjunction"))
        if any(" or " in a for a in antes):
            need.append(("block", bi, "disjunction"))
        vars_concluded = {c.split()[0] for cc in cons for c in cc.split(" and ")}
        if any(integral.get(v) for v in vars_concluded):
            need.append(("block", bi, "implication"))
    for oi, ov in enumerate(spec["outputs"]):
        need.append(("output", oi, "defuzzifier"))
        if integral[ov["name"]]:
            need.append(("output", oi, "aggregation"))
    return need


def components(spec):
    comps = []
    for bi in range(len(spec["blocks"])):
        comps += [("block", bi, c) for c in ("conjunction", "disjunction", "implication")]
    for oi in range(len(spec["outputs"])):
        comps += [("output", oi, c) for c in ("aggregation", "defuzzifier")]
    return comps


def with_presence(spec, present):
    sp = {"inputs": spec["inputs"], "outputs": [dict(o) for o in spec["outputs"]], "blocks": [dict(b) for b in spec["blocks"]]}
    if spec.get("share_defuzzifier"):
        sp["share_defuzzifier"] = True
    for (kind, i, c), p in present.items():
        if not p:
            (sp["blocks"] if kind == "block" else sp["outputs"])[i][c] = None
    return sp


def ob_skeleton(name, spec, label):
    def run(ob):
        fl = install()
        set_mode("R")
        S.box_scalars = any(rb.get("activation", ("General",))[0] == "Proportional" for rb in spec["blocks"])   # `sum_degrees += degree`
        build = regeng.builder(fl)
        names_in = [iv["name"] for iv in spec["inputs"]]
        X = {v: rvar(f"x_{v}") for v in names_in}
        comps = components(spec)
        flags = {c: z3.Bool(f"has_{c[0]}{c[1]}_{c[2]}") for c in comps}
        ins = {f"x_{v}": X[v] for v in names_in}
        ins.update({f"has_{c[0]}{c[1]}_{c[2]}": SymBool(flags[c]) for c in comps})
        pre = []
        # rules may be disabled (symbolic flag per rule, small skeletons only): a disabled rule is still loaded, its antecedent is still
        # evaluated by the activation method, so the operators it uses are still needed
        rule_ids = [(bi, ri) for bi, rb in enumerate(spec["blocks"]) for ri in range(len(rb["rules"]))] if name in RULE_FLAGS else []
        rflags = {rid: z3.Bool(f"rule{rid[0]}_{rid[1]}_enabled") for rid in rule_ids}
        ins.update({f"rule{rid[0]}_{rid[1]}_enabled": SymBool(rflags[rid]) for rid in rule_ids})

        def rbody(v):
            present = {c: bool(v[f"has_{c[0]}{c[1]}_{c[2]}"]) for c in comps}
            sp = with_presence(spec, present)
            need = needs(spec, present)
            return "\n".join([regeng.PY_BUILD, f"spec = {regeng.spec_literal(sp, lit, lambda x: x)}", "e = build_engine(spec)",
                              "globals()['EXPECT_NO_EXCEPTION'] = False", "import warnings; warnings.simplefilter('ignore')",
                              "for (bi, ri), en in {" + ", ".join(f"({bi}, {ri}): {bool(v[f'rule{bi}_{ri}_enabled'])!r}" for (bi, ri) in rule_ids) + "}.items(): e.rule_blocks[bi].rules[ri].enabled = en",
                              "errors = []; ready = e.is_ready(errors)",
                              f"missing_needed = {[c[2] for c in need if not present[c]]!r}",
                              "if missing_needed and ready: bad_report = 'needed but missing %r, yet is_ready() reports no errors' % (missing_needed,)",
                              "elif any(not any(m in err for err in errors) for m in missing_needed): bad_report = 'errors %r do not name every missing needed component %r' % (errors, missing_needed)",
                              "else: bad_report = None",
                              "for n, x in {" + ", ".join(f"{n!r}: {lit(v[f'x_{n}'])}" for n in names_in) + "}.items(): e.input_variable(n).value = x",
                              "raised = None",
                              "try: e.process()",
                              "except Exception as ex: raised = ex",
                              "if ready and raised is not None: verdict(True, 'is_ready() is True but process() raised %r' % (raised,))",
                              f"verdict(bad_report is not None, {name!r} + ': ' + str(bad_report))"])

        rp_proc = replay_fn(PROPERTY, label, rbody, key=None)

        def body():
            present = {c: bool(SymBool(flags[c])) for c in comps}
            e = build(with_presence(spec, present))
            for (bi, ri) in rule_ids:
                e.rule_blocks[bi].rules[ri].enabled = bool(SymBool(rflags[(bi, ri)]))
            errors = []
            ready = e.is_ready(errors)
            for v, x in X.items():
                e.input_variable(v).value = x
            raised = None
            try:
                e.process()
            except core.Unsupported:
                raise
            except Exception as ex:  # noqa
                raised = ex
            return present, ready, list(errors), raised

        n = 0
        for p in ob.paths(pre, body):
            n += 1
            if p.exc is not None:
                ob.unexpected(pre, p, label, ins, rp_proc)
                continue
            present, ready, errors, raised = p.result
            pat = ",".join(c[2][:4] + str(c[1]) for c in comps if not present[c]) or "none-missing"
            if ready:
                ob.prove(pre, p, raised is None, f"{label}: ready with missing [{pat}] but process() raised {raised!r}", ins, rp_proc)
            else:
                ob.prove(pre, p, True, f"{label}/not-ready", ins, rp_proc)
            missing_needed = [c for c in needs(spec, present) if not present[c]]
            ok = all(any(c[2] in err for err in errors) for c in missing_needed) and (not missing_needed or not ready)
            ob.prove(pre, p, bool(ok), f"{label}: missing needed {[c[2] for c in missing_needed]} with [{pat}] missing; is_ready={ready}, errors={errors}", ins, rp_proc)
        if n:
            ob.r.vacuity_ok += 1
        else:
            ob.error("no path")

    return run


def obligations(tier, seed):
    sk = dict(skeletons())
    if tier != "quick":
        sk.update(more_skeletons())
    return [(f"skeleton/{name}", ob_skeleton(name, spec, f"skeleton/{name}")) for name, spec in sk.items()]
