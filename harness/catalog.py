"""Catalogue of engine specs (harness.regeng format) that together cover every registered component class, with every
numeric parameter symbolic.  Used by C14 (FuzzyLite Language round trip) and C15 (Python export).

entry = (name, make) with make(sym) -> spec;  sym(name, kind) creates the symbolic number:
  kind 'p'  any finite value on the decimals grid          kind 'u'  in [0, 1]
  kind 'h'  a height: in (0,1], equal to 1 or further from 1 than the tolerance (the statement's precondition)
  kind 'w'  a rule weight: same precondition, in [0,1]
spec["compare_outputs"] = False for engines whose processing is outside the symbolic budget (default resolution 1000).
"""
from __future__ import annotations

TERM_PARAMS = {
    "Arc": ("start", "end"), "Bell": ("center", "width", "slope"), "Binary": ("start", "direction"), "Concave": ("inflection", "end"),
    "Cosine": ("center", "width"), "Gaussian": ("mean", "standard_deviation"),
    "GaussianProduct": ("mean_a", "standard_deviation_a", "mean_b", "standard_deviation_b"),
    "PiShape": ("bottom_left", "top_left", "top_right", "bottom_right"), "Ramp": ("start", "end"), "Rectangle": ("start", "end"),
    "SShape": ("start", "end"), "SemiEllipse": ("start", "end"), "Sigmoid": ("inflection", "slope"),
    "SigmoidDifference": ("left", "rising", "falling", "right"), "SigmoidProduct": ("left", "rising", "falling", "right"),
    "Spike": ("center", "width"), "Trapezoid": ("bottom_left", "top_left", "top_right", "bottom_right"), "Triangle": ("left", "top", "right"),
    "ZShape": ("start", "end"),
}
TNORMS = ["AlgebraicProduct", "BoundedDifference", "DrasticProduct", "EinsteinProduct", "HamacherProduct", "Minimum", "NilpotentMinimum"]
SNORMS = ["AlgebraicSum", "BoundedSum", "DrasticSum", "EinsteinSum", "HamacherSum", "Maximum", "NilpotentMaximum", "NormalizedSum", "UnboundedSum"]
T_A = ("Triangle", "a", 0.0, 0.25, 0.75)
T_B = ("Ramp", "b", 0.25, 1.0)
O_A = ("Triangle", "a", 0.0, 0.25, 0.5)
O_B = ("Triangle", "b", 0.25, 0.75, 1.0)


def base(inputs=None, outputs=None, blocks=None, **kw):
    sp = {"inputs": inputs or [{"name": "X", "terms": [T_A, T_B]}],
          "outputs": outputs or [{"name": "O", "terms": [O_A, O_B], "aggregation": "Maximum", "defuzzifier": ("Centroid", 2)}],
          "blocks": blocks or [{"name": "rules", "conjunction": "Minimum", "disjunction": "Maximum", "implication": "Minimum", "activation": ("General",),
                                "rules": ["if X is a then O is a", "if X is b then O is b"]}]}
    sp.update(kw)
    return sp


def catalog(tier="quick"):
    out = []

    # ---- one engine per shape term class: as input term (with a symbolic height) and as output term ----------------------------
    for cls, params in TERM_PARAMS.items():
        def make(sym, cls=cls, params=params):
            tin = (cls, "a") + tuple(sym(f"in_{p}", "p") for p in params) + (sym("in_h", "h"),)
            tout = (cls, "a") + tuple(sym(f"out_{p}", "p") for p in params)
            return base(inputs=[{"name": "X", "terms": [tin, T_B], "range": (sym("xlo", "p"), sym("xhi", "p"))}],
                        outputs=[{"name": "O", "terms": [tout, O_B], "aggregation": "Maximum", "defuzzifier": ("Centroid", 2)}])
        out.append((f"term/{cls}", make))

    def make_constant_linear(sym):
        return base(inputs=[{"name": "X", "terms": [T_A, T_B]}, {"name": "Y", "terms": [T_A, T_B]}],
                    outputs=[{"name": "O", "terms": [("Constant", "a", sym("c", "p")), ("Linear", "b", [sym("l0", "p"), sym("l1", "p"), sym("l2", "p")]),
                                                     ("Function", "f", "2.5 * X - Y * x + 0.125")], "aggregation": None, "defuzzifier": ("WeightedAverage",)}],
                    blocks=[{"name": "", "conjunction": None, "disjunction": None, "implication": None, "activation": ("General",),
                             "rules": ["if X is a then O is a", "if X is b then O is b", "if Y is a then O is f"]}])
    out.append(("term/Constant+Linear+Function", make_constant_linear))

    def make_discrete(sym):
        d = ("Discrete", "a", [sym("dx0", "p"), sym("dx1", "p"), sym("dx2", "p")], [sym("dy0", "u"), sym("dy1", "u"), sym("dy2", "u")], sym("dh", "h"))
        d2 = ("Discrete", "a", [sym("ex0", "p"), sym("ex1", "p")], [sym("ey0", "u"), sym("ey1", "u")])
        return base(inputs=[{"name": "X", "terms": [d, T_B]}], outputs=[{"name": "O", "terms": [d2, O_B], "aggregation": "Maximum", "defuzzifier": ("Centroid", 2)}],
                    sorted_x=[("dx0", "dx1", "dx2"), ("ex0", "ex1")])
    out.append(("term/Discrete", make_discrete))

    def make_discrete_small(sym):
        # a Discrete term with a single (x, y) pair (a constant membership function; its array of pairs has shape (1, 2))
        one = ("Discrete", "one", [sym("sx0", "p")], [sym("sy0", "u")])
        return base(inputs=[{"name": "X", "terms": [one, T_A, T_B]}],
                    outputs=[{"name": "O", "terms": [("Discrete", "a", [sym("tx0", "p")], [sym("ty0", "u")], sym("th", "h")), O_B], "aggregation": "Maximum", "defuzzifier": ("Centroid", 2)}],
                    blocks=[{"name": "rules", "conjunction": "Minimum", "disjunction": "Maximum", "implication": "Minimum", "activation": ("General",),
                             "rules": ["if X is one then O is a", "if X is b then O is b"]}])
    out.append(("term/Discrete-one-pair", make_discrete_small))

    # ---- norms in every role --------------------------------------------------------------------------------------------------
    for i, sn in enumerate(SNORMS):
        tn = TNORMS[i % len(TNORMS)]
        imp = TNORMS[(i + 3) % len(TNORMS)]
        agg = SNORMS[(i + 4) % len(SNORMS)]
        def make(sym, tn=tn, sn=sn, imp=imp, agg=agg):
            return base(inputs=[{"name": "X", "terms": [T_A, T_B]}, {"name": "Y", "terms": [T_A, T_B]}],
                        outputs=[{"name": "O", "terms": [O_A, O_B], "aggregation": agg, "defuzzifier": ("Centroid", 2)}],
                        blocks=[{"name": "rb", "conjunction": tn, "disjunction": sn, "implication": imp, "activation": ("General",),
                                 "rules": ["if X is a and Y is b then O is a", "if X is b or Y is a then O is b", "if Y is a then O is a"]}])
        out.append((f"norms/{tn}-{sn}-{imp}-{agg}", make))
    out.append(("norms/none", lambda sym: base(outputs=[{"name": "O", "terms": [("Constant", "a", sym("c0", "p")), ("Constant", "b", sym("c1", "p"))],
                                                          "aggregation": None, "defuzzifier": ("WeightedSum",)}],
                                               blocks=[{"name": "rb", "conjunction": None, "disjunction": None, "implication": None, "activation": ("General",),
                                                        "rules": ["if X is a then O is a", "if X is b then O is b"]}])))

    # ---- defuzzifiers with / without parameter -----------------------------------------------------------------------------------
    for dz in ("Bisector", "Centroid", "LargestOfMaximum", "MeanOfMaximum", "SmallestOfMaximum"):
        out.append((f"defuzzifier/{dz}/resolution3", lambda sym, dz=dz: base(outputs=[{"name": "O", "terms": [O_A, O_B], "aggregation": "Maximum", "defuzzifier": (dz, 3),
                                                                                       "range": (sym("olo", "p"), sym("ohi", "p"))}], valid_range=[("olo", "ohi")])))
        out.append((f"defuzzifier/{dz}/default-resolution", lambda sym, dz=dz: base(outputs=[{"name": "O", "terms": [O_A, O_B], "aggregation": "Maximum", "defuzzifier": (dz,)}],
                                                                                    compare_outputs=False)))
    for dz in ("WeightedAverage", "WeightedSum"):
        for ty in (None, "Automatic", "TakagiSugeno", "Tsukamoto"):
            def make(sym, dz=dz, ty=ty):
                terms = [("Ramp", "a", sym("r0", "p"), sym("r1", "p")), ("Ramp", "b", sym("r2", "p"), sym("r3", "p"))]
                return base(outputs=[{"name": "O", "terms": terms, "aggregation": "Maximum" if ty == "Tsukamoto" else None, "defuzzifier": (dz,) if ty is None else (dz, ty)}],
                            blocks=[{"name": "rb", "conjunction": None, "disjunction": None, "implication": None, "activation": ("General",),
                                     "rules": ["if X is a then O is a", "if X is b then O is b"]}], distinct=[("r0", "r1"), ("r2", "r3")])
            out.append((f"defuzzifier/{dz}/{ty or 'default'}", make))
    out.append(("defuzzifier/none", lambda sym: base(outputs=[{"name": "O", "terms": [O_A, O_B], "aggregation": None, "defuzzifier": None}], compare_outputs=False)))

    # ---- activation methods with parameters -------------------------------------------------------------------------------------
    acts = [("General",), ("Proportional",), ("First", 1, "t"), ("First", 2, "t"), ("Last", 1, "t"), ("Highest", 1), ("Highest", 2), ("Lowest", 1), ("Lowest", 3)]
    acts += [("Threshold", c, "t") for c in ("<", "<=", "==", "!=", ">=", ">")]
    for a in acts:
        def make(sym, a=a):
            act = tuple(sym("thr", "u") if x == "t" else x for x in a)
            return base(blocks=[{"name": "rb", "conjunction": "Minimum", "disjunction": "Maximum", "implication": "Minimum", "activation": act,
                                 "rules": ["if X is a then O is a", "if X is b then O is b with 0.5", "if X is not a then O is b"]}])
        out.append((f"activation/{'-'.join(str(x) for x in a)}", make))
    out.append(("activation/none", lambda sym: base(blocks=[{"name": "rb", "conjunction": "Minimum", "disjunction": "Maximum", "implication": "Minimum", "activation": None,
                                                            "rules": ["if X is a then O is a"]}], compare_outputs=False)))

    # ---- flags, descriptions, special numbers, rule weights, hedges -----------------------------------------------------------------
    def make_flags(sym):
        return {"name": "flags", "description": "an engine with every optional field",
                "inputs": [{"name": "X", "description": "first input", "enabled": False, "lock_range": True, "range": (sym("xlo", "p"), sym("xhi", "p")), "terms": [T_A, T_B]},
                           {"name": "Y", "terms": [T_A, T_B], "range": (float("-inf"), float("inf"))}],
                "outputs": [{"name": "O", "description": "the output", "terms": [O_A, O_B], "aggregation": "Maximum", "defuzzifier": ("Centroid", 2), "lock_previous": True,
                             "lock_range": True, "default": sym("dflt", "p"), "range": (sym("olo", "p"), sym("ohi", "p"))},
                            {"name": "P", "enabled": False, "terms": [("Constant", "a", sym("pc", "p"))], "aggregation": None, "defuzzifier": ("WeightedAverage",),
                             "default": float("nan")}],
                "blocks": [{"name": "first", "description": "the first block", "enabled": False, "conjunction": "Minimum", "disjunction": "Maximum", "implication": "Minimum",
                            "activation": ("General",), "rules": ["if X is a and Y is b then O is a and P is a"]},
                           {"name": "second", "conjunction": "AlgebraicProduct", "disjunction": "AlgebraicSum", "implication": "AlgebraicProduct", "activation": ("General",),
                            "rules": ["if X is very a or Y is somewhat b then O is b", "if Y is any then O is not a and P is a", "if (X is a or X is b) and Y is seldom extremely a then O is a"]}],
                "valid_range": [("xlo", "xhi"), ("olo", "ohi")]}
    out.append(("flags+descriptions+hedges", make_flags))

    def make_names(sym):
        # names that are valid FuzzyLite identifiers: Python keywords, leading underscore, digits inside
        return {"name": "lambda", "inputs": [{"name": "class", "terms": [("Triangle", "True", 0.0, 0.25, 0.75), ("Ramp", "pass", 0.25, 1.0), ("Ramp", "_x1", sym("n0", "p"), sym("n1", "p"))]}],
                "outputs": [{"name": "def", "terms": [("Triangle", "False", 0.0, 0.25, 0.5), ("Triangle", "None", 0.25, 0.75, 1.0)], "aggregation": "Maximum", "defuzzifier": ("Centroid", 2)}],
                "blocks": [{"name": "import", "conjunction": "Minimum", "disjunction": "Maximum", "implication": "Minimum", "activation": ("General",),
                            "rules": ["if class is True then def is False", "if class is pass or class is _x1 then def is None"]}], "distinct": [("n0", "n1")]}
    out.append(("names/keywords", make_names))

    def make_input_function(sym):
        # Function / Linear terms in an INPUT variable that read other engine variables (they need their engine reference after an import)
        return base(inputs=[{"name": "X", "terms": [T_A, ("Function", "near", "1 - abs(x - Y)"), ("Linear", "lin", [sym("k0", "p"), sym("k1", "p"), sym("k2", "p")])]},
                            {"name": "Y", "terms": [T_A, T_B]}],
                    blocks=[{"name": "rules", "conjunction": "Minimum", "disjunction": "Maximum", "implication": "Minimum", "activation": ("General",),
                             "rules": ["if X is near then O is a", "if X is lin or Y is b then O is b", "if X is a and Y is a then O is a"]}])
    out.append(("term/input-Function+Linear-reading-the-engine", make_input_function))

    def make_shared(sym):
        # one defuzzifier, aggregation and operator object shared by two output variables with different ranges and by two blocks
        return base(outputs=[{"name": "O", "terms": [O_A, O_B], "aggregation": "Maximum", "defuzzifier": ("Centroid", 2), "range": (0.0, 1.0)},
                             {"name": "P", "terms": [("Triangle", "a", -10.0, 0.0, 10.0), ("Triangle", "b", 10.0, 20.0, 30.0)], "aggregation": "Maximum",
                              "defuzzifier": ("Centroid", 2), "range": (sym("plo", "p"), sym("phi", "p"))}],
                    blocks=[{"name": "one", "conjunction": "Minimum", "disjunction": "Maximum", "implication": "Minimum", "activation": ("General",),
                             "rules": ["if X is a then O is a and P is b", "if X is b then O is b"]},
                            {"name": "two", "conjunction": "Minimum", "disjunction": "Maximum", "implication": "Minimum", "activation": ("General",),
                             "rules": ["if X is b or O is a then P is a"]}],
                    share_components=True, valid_range=[("plo", "phi")])
    out.append(("shared-component-objects", make_shared))

    def make_descriptions(sym):
        # descriptions are free text up to the end of the line: characters that some string functions treat as line boundaries
        # (form feed, vertical tab, the separators FS/GS/RS, NEL, U+2028/9), tabs, colons and runs of blanks must survive
        d = base(name="text", description="page one\x0cpage two: still\tthe  same line")
        d["inputs"][0]["description"] = "first\x0bsecond\x1cthird\x1dfourth\x1efifth"
        d["outputs"][0]["description"] = "left\x85right\u2028below\u2029end"
        d["blocks"][0]["description"] = "if X is a then O is b (not a rule): key: value"
        return d
    out.append(("descriptions/line-boundary-characters", make_descriptions))

    def make_quotes(sym):
        # quotation marks and backslashes in free text: an apostrophe alone, a doubled apostrophe, a double quote alone, both kinds, backslashes
        d = base(name="quotes", description="the operator's panel")
        d["inputs"][0]["description"] = "a 5'' sensor"
        d["outputs"][0]["description"] = 'the "valve" output'
        d["blocks"][0]["description"] = "both 'single' and \"double\" quotes, a back\\slash and a trailing one\\"
        return d
    out.append(("descriptions/quotes", make_quotes))

    def make_empty(sym):
        # components with nothing in them are still components: a variable without terms, a block without rules
        return base(inputs=[{"name": "X", "terms": [T_A, T_B]}, {"name": "Z", "range": (sym("zlo", "p"), sym("zhi", "p"))}],
                    outputs=[{"name": "O", "terms": [O_A, O_B], "aggregation": "Maximum", "defuzzifier": ("Centroid", 2)},
                             {"name": "Q", "aggregation": None, "defuzzifier": None}],
                    blocks=[{"name": "none", "conjunction": None, "disjunction": None, "implication": None, "activation": None, "rules": []},
                            {"name": "rules", "conjunction": "Minimum", "disjunction": "Maximum", "implication": "Minimum", "activation": ("General",),
                             "rules": ["if X is a then O is a", "if X is b then O is b"]},
                            {"name": "", "conjunction": None, "disjunction": None, "implication": None, "activation": ("General",), "rules": []}],
                    compare_outputs=False)
    out.append(("empty-components", make_empty))

    def make_assigned(sym):
        # parameter values that only an assignment (or an FLL text) produces: the constructors of Triangle and Trapezoid rewrite a NaN
        # last vertex (two-vertex shorthand); `term: open Triangle 0.000 1.000 nan` is expressible and must survive as it is
        nan = float("nan")
        a0, a1, a2, b0, b1, b2, b3 = (sym(n, "p") for n in ("a0", "a1", "a2", "b0", "b1", "b2", "b3"))
        blocks = [{"name": "rules", "conjunction": "Minimum", "disjunction": "Maximum", "implication": "Minimum", "activation": ("General",),
                   "rules": ["if X is open then O is a", "if X is b or X is shelf then O is b"]}]
        sp = base(inputs=[{"name": "X", "terms": [("Triangle", "open", a0, a1, a2), T_B, ("Trapezoid", "shelf", b0, b1, b2, b3)]}],
                  assign=[(("input_variables", 0, "terms", 0, "right"), nan), (("input_variables", 0, "terms", 2, "bottom_right"), nan)],
                  blocks=blocks, compare_outputs=False)
        # what the constructors make of the same arguments (the two-vertex shorthands): the signature of the finding recorded for C15
        sp["shorthand_spec"] = base(inputs=[{"name": "X", "terms": [("Triangle", "open", a0, a1, nan), T_B, ("Trapezoid", "shelf", b0, b1, b2, nan)]}], blocks=blocks)
        return sp
    out.append(("special/nan-vertex-assigned", make_assigned))

    def make_same_names(sym):
        # component names need not be unique: two rule blocks called "rules", two unnamed ones, two output variables' terms named alike
        rb = lambda name, rules: {"name": name, "conjunction": "Minimum", "disjunction": "Maximum", "implication": "Minimum", "activation": ("General",), "rules": rules}
        return base(blocks=[rb("rules", ["if X is a then O is a"]), rb("rules", ["if X is b then O is b"]), rb("", ["if X is not a then O is b with 0.5"]), rb("", ["if X is very b then O is a"])])
    out.append(("names/same-named-rule-blocks", make_same_names))

    def make_discrete_inf(sym):
        # a saturating look-up table: the first and last pairs sit at -inf / +inf
        inf = float("inf")
        d = ("Discrete", "a", [-inf, sym("qx0", "p"), sym("qx1", "p"), inf], [sym("qy0", "u"), sym("qy1", "u"), sym("qy2", "u"), sym("qy3", "u")])
        return base(inputs=[{"name": "X", "terms": [d, T_B]}], sorted_x=[("qx0", "qx1")])
    out.append(("term/Discrete-infinite-ends", make_discrete_inf))

    def make_weights(sym):
        return base(blocks=[{"name": "rb", "conjunction": "Minimum", "disjunction": "Maximum", "implication": "Minimum", "activation": ("General",),
                             "rules": ["if X is a then O is a", "if X is b then O is b", "if X is not b then O is a"]}],
                    weights={(0, 0): sym("w0", "w"), (0, 2): sym("w2", "w")})
    out.append(("rule-weights", make_weights))
    return out
