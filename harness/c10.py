"""C10  Weighted defuzzifiers compute the grouped weighted average / sum."""
from __future__ import annotations

import itertools

import numpy as np

import z3

from spec import norms as nspec
from spec import terms as tspec
from symfl import core
from symfl.core import S, set_mode, sym_array, tf, same, ZB, elements, RFloat
from symfl.install import install
from symfl.replay import lit, replay_fn

from .common import wf,  rvar, unit, is_nan, is_val

PROPERTY = "C10"
EXPLANATION = ("Fuzzy outputs are enumerated as skeletons (0-4 activations over 1-3 distinct terms with repetitions; term kinds "
               "Constant / Linear / Function / monotonic Ramp, Sigmoid, Concave, SShape, ZShape, Arc / non-monotonic Triangle); every "
               "activation degree, constant, coefficient, engine input and term parameter is symbolic. The real WeightedAverage / "
               "WeightedSum.defuzzify (with Aggregated.grouped_terms, infer_type and the real term methods) run on them for each type "
               "and aggregation operator; per path the result must equal the statement's grouped weighted average / sum (z3 terms "
               "with IEEE specials), an extra activation of degree exactly 0 must not change it, NaN iff no activations or zero "
               "total weight, averages of constants stay within [min,max] of the activated constants, and the inferred kind / "
               "TypeError for mixed kinds is as documented.")
BOUNDS = {"quick": {"activations": "0..3 (4 for constants) over <= 3 distinct terms", "degrees": "all reals in [0,1] (Tsukamoto: [0,1) so the inverse is defined), scalar and batch of 2",
                    "aggregation": "none, Maximum, AlgebraicSum, BoundedSum, UnboundedSum, EinsteinSum, NormalizedSum, DrasticSum, HamacherSum, NilpotentMaximum on repeated terms"},
          "thorough": {"activations": "0..4", "batch": "2 and 3"}}
OUTSIDE = ["rounding (Mode R)", "activation degrees outside [0,1]; Tsukamoto degrees equal to the term height", "more than 4 activations"]
ASSUMPTIONS = ["degrees in [0,1]; constants, coefficients, inputs, term parameters finite and valid (spec/terms.py validity)",
               "exp/log uninterpreted with instance axioms (Sigmoid)"]
STUBS = []
OB_BUDGET_S = {"quick": 200, "thorough": 1500}

TS_KINDS = ("Constant", "Linear", "Function", "Singular")
SINGULAR = "1 / x0"      # a Function term that is infinite at x0 = 0 (and NaN for a NaN input)
MONO = ("Ramp", "Sigmoid", "Concave", "SShape", "ZShape", "Arc")
AGGS = (None, "Maximum", "AlgebraicSum", "BoundedSum", "UnboundedSum", "EinsteinSum", "NormalizedSum", "DrasticSum", "HamacherSum", "NilpotentMaximum")
FORMULA = "2 * x0 - x1 * x1 + x"


def kind_class(kind):
    return "TS" if kind in TS_KINDS else ("Tsukamoto" if kind in MONO else "Other")


def term_params(kind, j):
    """symbolic parameters of term j and its validity precondition"""
    if kind == "Constant":
        P = {"value": rvar(f"c{j}")}
        return P, []
    if kind == "Linear":
        P = {"a": rvar(f"a{j}"), "b": rvar(f"b{j}"), "k": rvar(f"k{j}")}
        return P, []
    if kind in ("Function", "Singular"):
        return {}, []
    if kind == "Triangle":
        P = {k: rvar(f"{k}{j}") for k in ("vertex_a", "vertex_b", "vertex_c")}
        return P, [P["vertex_a"].v < P["vertex_b"].v, P["vertex_b"].v < P["vertex_c"].v]
    names = tspec.TERMS[kind][0]
    P = {k: rvar(f"{k}{j}") for k in names}
    return P, [tspec.TERMS[kind][1]({k: v.v for k, v in P.items()})]


def make_term(fl, kind, name, P, engine):
    if kind == "Constant":
        return fl.Constant(name, P["value"])
    if kind == "Linear":
        return fl.Linear(name, [P["a"], P["b"], P["k"]], engine)
    if kind == "Function":
        return fl.Function.create(name, FORMULA, engine)
    if kind == "Singular":
        return fl.Function.create(name, SINGULAR, engine)
    if kind == "Triangle":
        return fl.Triangle(name, P["vertex_a"], P["vertex_b"], P["vertex_c"])
    return getattr(fl, kind)(name, *[P[k] for k in tspec.TERMS[kind][0]])


def py_term(kind, name, P, v, j):
    g = lambda k: lit(v[f"{k}{j}"])
    if kind == "Constant":
        return f"fl.Constant({name!r}, {lit(v[f'c{j}'])})"
    if kind == "Linear":
        return f"fl.Linear({name!r}, [{g('a')}, {g('b')}, {g('k')}], engine)"
    if kind == "Function":
        return f"fl.Function.create({name!r}, {FORMULA!r}, engine)"
    if kind == "Singular":
        return f"fl.Function.create({name!r}, {SINGULAR!r}, engine)"
    if kind == "Triangle":
        return f"fl.Triangle({name!r}, {g('vertex_a')}, {g('vertex_b')}, {g('vertex_c')})"
    return f"fl.{kind}({name!r}, " + ", ".join(g(k) for k in tspec.TERMS[kind][0]) + ")"


PYREF = '''
def grouped(acts, agg):
    out = {}
    for name, w in acts:
        out[name] = w if name not in out else agg(out[name], w)
    return out
def reference(defuzz, kind, acts, terms, agg):
    """the statement: sum(w*z)/sum(w) resp. sum(w*z) over the grouped terms; a degree-0 term contributes nothing"""
    if not acts: return nan
    g = grouped(acts, agg)
    num = 0.0; den = 0.0
    with np.errstate(all="ignore"):
        for name, w in g.items():
            t = terms[name]
            z = float(np.squeeze(t.tsukamoto(w) if kind == "Tsukamoto" else t.membership(w)))
            if w != 0: num += w * z
            den += w
    if den == 0: return nan
    return num / den if defuzz == "WeightedAverage" else num
'''


def setup(fl, kinds, x0, x1):
    engine = fl.Engine("e", "", [fl.InputVariable("x0", minimum=-10, maximum=10), fl.InputVariable("x1", minimum=-10, maximum=10)], [], [])
    engine.input_variables[0].value = x0
    engine.input_variables[1].value = x1
    return engine


def oracle(fl, defuzz, kind, acts, terms, agg_name):
    """acts: list of (term index, degree RFloat) -> RFloat (statement semantics, exact reals with specials)"""
    if not acts:
        return core.const(float("nan"))
    groups = {}
    for j, w in acts:
        if j not in groups:
            groups[j] = w
        else:
            f = nspec.SNORMS[agg_name or "UnboundedSum"]
            groups[j] = RFloat(f(groups[j].v, w.v))
    num, den = core.const(0.0), core.const(0.0)
    for j, W in groups.items():
        t = terms[j]
        z = t.tsukamoto(W) if kind == "Tsukamoto" else t.membership(W)
        z = tf(elements(z)[0])
        num = num + core._select((W == 0.0).e, core.const(0.0), W * z)
        den = den + W
    if defuzz == "WeightedAverage":
        return num / den
    return core._select((den == 0.0).e, core.const(float("nan")), num)


def expected_kind(kinds_used, explicit):
    if explicit != "Automatic":
        return explicit
    cl = {kind_class(k) for k in kinds_used}
    if not cl:
        return "Automatic"
    if len(cl) > 1:
        return "TypeError"
    c = cl.pop()
    return {"TS": "TakagiSugeno", "Tsukamoto": "Tsukamoto", "Other": "Automatic"}[c]


def ob_value(defuzz, explicit, kinds, skeleton, agg_name, batch=0, zero_at=None, label="", special_inputs=False):
    """skeleton: tuple of term indexes (one per activation).  zero_at: (position, term index) of an extra activation whose
    degree is exactly 0 -- the result must equal the one without it."""

    def run(ob):
        fl = install()
        set_mode("R")
        B = batch or 1
        x0, x1 = rvar("x0", special=special_inputs), rvar("x1", special=special_inputs)
        Ps, pre = [], (wf(x0, x1) if special_inputs else [])
        for j, k in enumerate(kinds):
            P, v = term_params(k, j)
            Ps.append(P)
            pre += v
        W = [[rvar(f"w{i}_{b}") for b in range(B)] for i in range(len(skeleton))]
        used = [kinds[j] for j in sorted(set(skeleton) | ({zero_at[1]} if zero_at else set()))]
        kind = expected_kind(used, explicit)
        hi_open = kind == "Tsukamoto"
        for row in W:
            for w in row:
                pre += [w.v >= 0, (w.v < 1) if hi_open else (w.v <= 1)]
        ins = {"x0": x0, "x1": x1}
        for P in Ps:
            ins.update({x.v.decl().name(): x for x in P.values()})
        ins.update({f"w{i}_{b}": W[i][b] for i in range(len(skeleton)) for b in range(B)})
        agg_f = nspec.SNORMS[agg_name or "UnboundedSum"]
        if hi_open:
            # grouped degrees must stay below the height as well (the inverse is defined on (0,h))
            for b in range(B):
                g = {}
                for i, j in enumerate(skeleton):
                    g[j] = W[i][b].v if j not in g else agg_f(g[j], W[i][b].v)
                pre += [x < 1 for x in g.values()]

        def rbody(v):
            acts = [[(f"t{j}", v[f"w{i}_{b}"]) for i, j in enumerate(skeleton)] for b in range(B)]
            zl = ""
            if zero_at:
                zl = f"zero_at = ({zero_at[0]}, 't{zero_at[1]}')"
            return "\n".join([PYREF, f"x0, x1 = {lit(v['x0'])}, {lit(v['x1'])}",
                              "engine = fl.Engine('e', '', [fl.InputVariable('x0', minimum=-10, maximum=10), fl.InputVariable('x1', minimum=-10, maximum=10)], [], [])",
                              "engine.input_variables[0].value = x0; engine.input_variables[1].value = x1",
                              "terms = {" + ", ".join(f"'t{j}': {py_term(k, f't{j}', Ps[j], v, j)}" for j, k in enumerate(kinds)) + "}",
                              f"acts = {[[(n, None) for n, _ in row] for row in acts]!r}",
                              f"W = {lit([[w for _, w in row] for row in acts])}",
                              f"agg = {('fl.' + agg_name + '()') if agg_name else 'None'}",
                              f"aggf = (lambda a, b: {nspec.PY[agg_name or 'UnboundedSum']})",
                              f"D = fl.{defuzz}({explicit!r})", zl or "zero_at = None", "bad = None; got_all = []; exp_all = []",
                              f"B = {B}",
                              "names = [n for n, _ in acts[0]]",
                              "degs = [np.array([W[b][i] for b in range(B)]) if B > 1 else W[0][i] for i in range(len(names))]",
                              "alist = [fl.Activated(terms[n], d, None if i == 0 else fl.Minimum()) for i, (n, d) in enumerate(zip(names, degs))]",
                              "if zero_at is not None: alist.insert(zero_at[0], fl.Activated(terms[zero_at[1]], np.zeros(B) if B > 1 else 0.0, fl.Minimum()))",
                              "fo = fl.Aggregated('out', 0.0, 1.0, agg, alist)",
                              f"kind = {kind!r}",
                              "try:",
                              "    with np.errstate(all='ignore'): got = np.atleast_1d(np.asarray(D.defuzzify(fo), dtype=float))",
                              "    with np.errstate(all='ignore'): again = np.atleast_1d(np.asarray(D.defuzzify(fo), dtype=float))      # defuzzifying is a pure function of the set",
                              "    raised = None",
                              "except TypeError as ex:",
                              "    raised = ex; got = None",
                              "if kind == 'TypeError':",
                              "    verdict(raised is None, 'mixed kinds under Automatic were accepted: %r' % (got,))",
                              "if raised is not None: verdict(True, 'raised %r' % (raised,))",
                              "exp = [reference(type(D).__name__, kind, [(n, W[b][i]) for i, n in enumerate(names)], terms, aggf) for b in range(B)]",
                              "kept = all(same(a.degree, d) for a, d in zip([a for k_, a in enumerate(fo.terms) if zero_at is None or k_ != zero_at[0]], degs))",
                              f"verdict(not same(got, exp, 1e-9) or not same(again, exp, 1e-9) or not kept, '{defuzz}({explicit}) over %r degrees %r: %r, a second time %r, documented %r; degrees kept: %r' % (names, W, got.tolist(), again.tolist(), exp, kept))"])

        rp = replay_fn(PROPERTY, label, rbody, key=None)

        def build():
            engine = setup(fl, kinds, x0, x1)
            terms = [make_term(fl, k, f"t{j}", Ps[j], engine) for j, k in enumerate(kinds)]
            return engine, terms

        def body():
            engine, terms = build()
            # weighted defuzzifiers disregard the implication: the first activation carries none (as rule blocks without one produce)
            acts = [fl.Activated(terms[j], sym_array(W[i]) if batch else W[i][0], None if i == 0 else fl.Minimum()) for i, j in enumerate(skeleton)]
            if zero_at:
                z = sym_array([core.const(0.0)] * B) if batch else core.const(0.0)
                acts.insert(zero_at[0], fl.Activated(terms[zero_at[1]], z, fl.Minimum()))
            fo = fl.Aggregated("out", 0.0, 1.0, getattr(fl, agg_name)() if agg_name else None, acts)
            D = getattr(fl, defuzz)(explicit)
            got = D.defuzzify(fo)
            if kind == "TypeError":
                return got, None
            again = D.defuzzify(fo)           # a second defuzzification of the same set: same value, activations untouched
            kept = [(a.degree, sym_array(W[i]) if batch else W[i][0]) for i, a in enumerate(a_ for k_, a_ in enumerate(fo.terms) if not zero_at or k_ != zero_at[0])]
            # the statement's value, computed inside the exploration (term methods such as Arc.tsukamoto branch in Python)
            exps = [oracle(fl, defuzz, kind, [(j, W[i][b]) for i, j in enumerate(skeleton)], terms, agg_name) for b in range(B)]
            return got, exps, again, kept

        for p in ob.paths(pre, body, catch=(Exception,)):
            if kind == "TypeError":
                if isinstance(p.exc, TypeError):
                    ob.prove(pre, p, True, f"{label}/mixed-kinds-rejected", ins, rp)
                elif p.exc is not None:
                    ob.unexpected(pre, p, label, ins, rp)
                else:
                    ob.prove(pre, p, False, f"{label}: mixed kinds under Automatic accepted", ins, rp)
                continue
            if p.exc is not None:
                ob.unexpected(pre, p, label, ins, rp)
                continue
            got, exps, again, kept = p.result
            ge = elements(got)
            if len(ge) != B:
                ob.prove(pre, p, False, f"{label}: result has {len(ge)} elements for a batch of {B}", ins, rp)
                continue
            claims = []
            for b in range(B):
                claims.append(same(ge[b], exps[b]))
            ob.prove(pre, p, z3.And(*claims), label, ins, rp)
            ae = elements(again)
            ob.prove(pre, p, z3.And(len(ae) == B, *[same(ae[b], exps[b]) for b in range(min(B, len(ae)))],
                                    *[same(x, y) for g, w in kept for x, y in zip(elements(g), elements(w))]), f"{label}/defuzzified-again", ins, rp)
            if skeleton:
                # NaN exactly when the total weight is zero (finite z)
                for b in range(B):
                    tot = z3.Sum([W[i][b].v for i in range(len(skeleton))])
                    if (kind != "Tsukamoto" or all(kinds[j] not in ("Sigmoid", "Concave") for j in skeleton)) and not special_inputs and "Singular" not in kinds:
                        ob.prove(pre, p, is_nan(ge[b]) == (tot == 0), f"{label}/nan-iff-zero-weight", ins, rp)
                ob.expect_sat(pre, p, same(ge[0], core.const(12345.0)), f"{label}/twin")
            else:
                ob.prove(pre, p, is_nan(ge[0]), f"{label}/nan-when-empty", ins, rp)

    return run


def ob_fresh(defuzz, label):
    """the value returned by defuzzify belongs to the caller (OutputVariable.defuzzify writes the default value INTO it): overwriting
    one result in place must not show in the next result of the same object, of another object of the class, on an empty or a
    non-empty fuzzy output"""
    def run(ob):
        fl = install()
        set_mode("R")
        c0, c1, w0, w1, q = rvar("c0"), rvar("c1"), rvar("w0_0"), rvar("w1_0"), rvar("q")
        pre = [unit(w0), unit(w1), w0.v + w1.v > 0]
        ins = {"c0": c0, "c1": c1, "w0_0": w0, "w1_0": w1, "q": q}

        def rbody(v):
            return "\n".join([f"c0, c1, w0, w1, q = {lit(v['c0'])}, {lit(v['c1'])}, {lit(v['w0_0'])}, {lit(v['w1_0'])}, {lit(v['q'])}",
                              f"D = fl.{defuzz}()",
                              "empty = fl.Aggregated('out', 0.0, 1.0, None, [])",
                              "fo = fl.Aggregated('out', 0.0, 1.0, None, [fl.Activated(fl.Constant('a', c0), w0), fl.Activated(fl.Constant('b', c1), w1)])",
                              "def spoil(r):",
                              "    if isinstance(r, np.ndarray): r[...] = q",
                              "with np.errstate(all='ignore'):",
                              "    spoil(D.defuzzify(empty)); e2 = D.defuzzify(empty); e3 = type(D)().defuzzify(fl.Aggregated('other', 0.0, 1.0, None, []))",
                              "    spoil(D.defuzzify(fo)); f2 = D.defuzzify(fo)",
                              f"exp = (w0 * c0 + w1 * c1){' / (w0 + w1)' if defuzz == 'WeightedAverage' else ''}",
                              "verdict(not (np.all(np.isnan(e2)) and np.all(np.isnan(e3)) and same(f2, exp, 1e-9)), 'after overwriting earlier results with %r: empty -> %r, other object -> %r, two constants -> %r (documented %r)' % (q, e2, e3, f2, exp))"])

        rp = replay_fn(PROPERTY, label, rbody, key=None)

        def spoil(r):
            if isinstance(r, (np.ndarray, core.SymArray)):
                r[...] = q

        def body():
            D = getattr(fl, defuzz)()
            empty = fl.Aggregated("out", 0.0, 1.0, None, [])
            fo = fl.Aggregated("out", 0.0, 1.0, None, [fl.Activated(fl.Constant("a", c0), w0), fl.Activated(fl.Constant("b", c1), w1)])
            spoil(D.defuzzify(empty))
            e2 = D.defuzzify(empty)
            e3 = getattr(fl, defuzz)().defuzzify(fl.Aggregated("other", 0.0, 1.0, None, []))
            spoil(D.defuzzify(fo))
            return e2, e3, D.defuzzify(fo)

        for p in ob.paths(pre, body):
            if p.exc is not None:
                ob.unexpected(pre, p, label, ins, rp)
                continue
            e2, e3, f2 = p.result
            num = w0.v * c0.v + w1.v * c1.v
            exp = num / (w0.v + w1.v) if defuzz == "WeightedAverage" else num
            f2e = elements(f2)
            ob.prove(pre, p, z3.And(is_nan(elements(e2)[0]), is_nan(elements(e3)[0]), len(f2e) == 1, is_val(f2e[0], exp)), label, ins, rp)

    return run


def ob_int_degrees(defuzz, label):
    """activation degrees of integer type (Activated(term, 1), an integer batch): the value of a Constant term is its value, not its
    value cast to the dtype of the degree"""
    def run(ob):
        fl = install()
        set_mode("R")
        c0, c1 = rvar("c0"), rvar("c1")
        ins = {"c0": c0, "c1": c1}

        def rbody(v):
            return "\n".join([f"c0, c1 = {lit(v['c0'])}, {lit(v['c1'])}", f"D = fl.{defuzz}()",
                              "fo = fl.Aggregated('out', 0.0, 1.0, None, [fl.Activated(fl.Constant('a', c0), 1), fl.Activated(fl.Constant('b', c1), 2)])",
                              "fb = fl.Aggregated('out', 0.0, 1.0, None, [fl.Activated(fl.Constant('a', c0), np.array([1, 0, 2])), fl.Activated(fl.Constant('b', c1), np.array([1, 3, 0]))])",
                              f"norm = lambda w0, w1: (w0 + w1) if {defuzz == 'WeightedAverage'!r} else 1.0",
                              "with np.errstate(all='ignore'): got, gb = D.defuzzify(fo), D.defuzzify(fb)",
                              "exp = (1 * c0 + 2 * c1) / norm(1, 2); eb = [(w0 * c0 + w1 * c1) / norm(w0, w1) for w0, w1 in ((1, 1), (0, 3), (2, 0))]",
                              "verdict(not same(got, exp, 1e-9) or not same(gb, eb, 1e-9), 'integer degrees: %r and %r, documented %r and %r' % (got, gb, exp, eb))"])

        rp = replay_fn(PROPERTY, label, rbody, key=None)

        def body():
            D = getattr(fl, defuzz)()
            fo = fl.Aggregated("out", 0.0, 1.0, None, [fl.Activated(fl.Constant("a", c0), 1), fl.Activated(fl.Constant("b", c1), 2)])
            fb = fl.Aggregated("out", 0.0, 1.0, None, [fl.Activated(fl.Constant("a", c0), np.array([1, 0, 2])), fl.Activated(fl.Constant("b", c1), np.array([1, 3, 0]))])
            return D.defuzzify(fo), D.defuzzify(fb)

        for p in ob.paths([], body):
            if p.exc is not None:
                ob.unexpected([], p, label, ins, rp)
                continue
            got, gb = p.result
            norm = (lambda a, b: a + b) if defuzz == "WeightedAverage" else (lambda a, b: 1)
            ge, be = elements(got), elements(gb)
            claims = [z3.BoolVal(len(ge) == 1 and len(be) == 3)]
            if len(ge) == 1 and len(be) == 3:
                claims.append(is_val(ge[0], (c0.v + 2 * c1.v) / norm(1, 2)))
                for x, (w0, w1) in zip(be, ((1, 1), (0, 3), (2, 0))):
                    claims.append(is_val(x, (w0 * c0.v + w1 * c1.v) / norm(w0, w1)))
            ob.prove([], p, z3.And(*claims), label, ins, rp)

    return run


def ob_reuse_kinds(defuzz, order, label):
    """ONE Automatic defuzzifier object used on fuzzy outputs of different kinds (as when the object is shared by output variables):
    the kind is inferred from the fuzzy output at hand every time, and the object's own type stays Automatic"""
    def run(ob):
        fl = install()
        set_mode("R")
        c0, c1, s0, e0, w0, w1 = (rvar(n) for n in ("c0", "c1", "s0", "e0", "w0_0", "w1_0"))
        pre = [unit(w0), unit(w1), w0.v + w1.v > 0, s0.v != e0.v]
        ins = {"c0": c0, "c1": c1, "s0": s0, "e0": e0, "w0_0": w0, "w1_0": w1}

        def rbody(v):
            return "\n".join([f"c0, c1, s0, e0, w0, w1 = {lit(v['c0'])}, {lit(v['c1'])}, {lit(v['s0'])}, {lit(v['e0'])}, {lit(v['w0_0'])}, {lit(v['w1_0'])}",
                              f"D = fl.{defuzz}()",
                              "ts = fl.Aggregated('ts', 0.0, 1.0, None, [fl.Activated(fl.Constant('a', c0), w0), fl.Activated(fl.Constant('b', c1), w1)])",
                              "tk = fl.Aggregated('tk', 0.0, 1.0, None, [fl.Activated(fl.Ramp('a', s0, e0), w0), fl.Activated(fl.Ramp('b', e0, s0), w1)])",
                              f"order = {order!r}",
                              "with np.errstate(all='ignore'): got = [float(D.defuzzify(ts if k == 'ts' else tk)) for k in order]",
                              f"norm = (w0 + w1) if {defuzz == 'WeightedAverage'!r} else 1.0",
                              "exp = {'ts': (w0 * c0 + w1 * c1) / norm, 'tk': (w0 * (s0 + (e0 - s0) * w0) + w1 * (e0 + (s0 - e0) * w1)) / norm}",
                              "bad = not all(same(g, exp[k], 1e-9) for g, k in zip(got, order)) or D.type != fl.WeightedDefuzzifier.Type.Automatic",
                              "verdict(bad, 'one Automatic object on %r: %r, documented %r; type afterwards %r' % (order, got, [exp[k] for k in order], D.type))"])

        rp = replay_fn(PROPERTY, label, rbody, key=None)

        def body():
            D = getattr(fl, defuzz)()
            ts = fl.Aggregated("ts", 0.0, 1.0, None, [fl.Activated(fl.Constant("a", c0), w0), fl.Activated(fl.Constant("b", c1), w1)])
            tk = fl.Aggregated("tk", 0.0, 1.0, None, [fl.Activated(fl.Ramp("a", s0, e0), w0), fl.Activated(fl.Ramp("b", e0, s0), w1)])
            return [D.defuzzify(ts if k == "ts" else tk) for k in order], D.type

        for p in ob.paths(pre, body):
            if p.exc is not None:
                ob.unexpected(pre, p, label, ins, rp)
                continue
            got, dtype = p.result
            norm = (w0.v + w1.v) if defuzz == "WeightedAverage" else z3.RealVal(1)
            exp = {"ts": (w0.v * c0.v + w1.v * c1.v) / norm, "tk": (w0.v * (s0.v + (e0.v - s0.v) * w0.v) + w1.v * (e0.v + (s0.v - e0.v) * w1.v)) / norm}
            claims = [z3.BoolVal(dtype == fl.WeightedDefuzzifier.Type.Automatic)]
            for g, k in zip(got, order):
                ge = elements(g)
                claims.append(z3.And(len(ge) == 1, is_val(ge[0], exp[k])))
            ob.prove(pre, p, z3.And(*claims), label, ins, rp)

    return run


def ob_const_bounds(n, agg_name, label):
    """a weighted average of constants lies between the smallest and largest *activated* constant"""

    def run(ob):
        fl = install()
        set_mode("R")
        C = [rvar(f"c{j}") for j in range(n)]
        W = [rvar(f"w{j}_0") for j in range(n)]
        pre = [unit(w) for w in W]
        ins = {f"c{j}": C[j] for j in range(n)}
        ins.update({f"w{j}_0": W[j] for j in range(n)})

        def rbody(v):
            return "\n".join([f"C = {lit([v[f'c{j}'] for j in range(n)])}; W = {lit([v[f'w{j}_0'] for j in range(n)])}",
                              "terms = [fl.Constant('t%d' % j, C[j]) for j in range(len(C))]",
                              f"fo = fl.Aggregated('out', 0.0, 1.0, {('fl.' + agg_name + '()') if agg_name else 'None'}, [fl.Activated(t, w, fl.Minimum()) for t, w in zip(terms, W)])",
                              "y = float(fl.WeightedAverage().defuzzify(fo))",
                              "act = [c for c, w in zip(C, W) if w > 0]",
                              "verdict(bool(act) and not (min(act) - 1e-9 * max(1, abs(min(act))) <= y <= max(act) + 1e-9 * max(1, abs(max(act)))), 'weighted average %r of constants %r with weights %r' % (y, C, W))"])

        rp = replay_fn(PROPERTY, label, rbody, key=None)

        def body():
            terms = [fl.Constant(f"t{j}", C[j]) for j in range(n)]
            fo = fl.Aggregated("out", 0.0, 1.0, getattr(fl, agg_name)() if agg_name else None,
                               [fl.Activated(t, w, fl.Minimum()) for t, w in zip(terms, W)])
            return fl.WeightedAverage().defuzzify(fo)

        for p in ob.paths(pre, body):
            if p.exc is not None:
                ob.unexpected(pre, p, label, ins, rp)
                continue
            y = tf(elements(p.result)[0])
            some = z3.Or(*[w.v > 0 for w in W])
            lo_ok = z3.Or(*[z3.And(W[j].v > 0, C[j].v <= y.v) for j in range(n)])
            hi_ok = z3.Or(*[z3.And(W[j].v > 0, C[j].v >= y.v) for j in range(n)])
            ob.prove(pre + [some], p, z3.And(ZB(y.fin()), lo_ok, hi_ok), label, ins, rp)

    return run


def ob_infer(kinds, label):
    """WeightedDefuzzifier.infer_type on an Aggregated of the given term kinds"""

    def run(ob):
        fl = install()
        set_mode("R")
        x0, x1 = rvar("x0"), rvar("x1")
        Ps, pre = [], []
        for j, k in enumerate(kinds):
            P, v = term_params(k, j)
            Ps.append(P)
            pre += v
        want = expected_kind(kinds, "Automatic")

        def body():
            engine = setup(fl, kinds, x0, x1)
            terms = [make_term(fl, k, f"t{j}", Ps[j], engine) for j, k in enumerate(kinds)]
            fo = fl.Aggregated("out", 0.0, 1.0, None, [fl.Activated(t, 0.5, None) for t in terms])
            return fl.WeightedAverage.infer_type(fo).name

        for p in ob.paths(pre, body, catch=(Exception,)):
            if want == "TypeError":
                ob.prove(pre, p, isinstance(p.exc, TypeError), f"{label}: expected TypeError, got {p.exc!r} / {p.result!r}", None, None)
            elif p.exc is not None:
                ob.unexpected(pre, p, label, None, None)
            else:
                ob.prove(pre, p, p.result == want, f"{label}: inferred {p.result}, documented {want}", None, None)

    return run


def _obligations(tier, seed):
    obs = []

    def add(defuzz, explicit, kinds, skel, agg, batch=0, zero_at=None, special_inputs=False):
        nm = f"{defuzz}/{explicit}/{'+'.join(kinds)}/[{','.join(map(str, skel))}]/{agg or 'none'}" + (f"/batch{batch}" if batch else "") + (f"/zero@{zero_at[0]}:t{zero_at[1]}" if zero_at else "") + ("/special-inputs" if special_inputs else "")
        obs.append((nm, ob_value(defuzz, explicit, kinds, skel, agg, batch, zero_at, label=nm, special_inputs=special_inputs)))

    defs = ("WeightedAverage", "WeightedSum")
    # 1. Takagi-Sugeno kinds: grouping under every aggregation
    for d in defs:
        add(d, "Automatic", ("Constant",), (), None)
        for agg in AGGS:
            add(d, "Automatic", ("Constant", "Constant"), (0, 1, 0), agg)
        for skel in [(0,), (0, 1), (0, 0), (0, 1, 2), (1, 0, 1), (0, 0, 0)]:
            add(d, "Automatic", ("Constant", "Constant", "Constant"), skel, None)
            add(d, "Automatic", ("Constant", "Constant", "Constant"), skel, "Maximum")
        add(d, "Automatic", ("Constant", "Constant", "Constant"), (0, 1, 2, 1), "AlgebraicSum")
        add(d, "Automatic", ("Constant", "Linear", "Function"), (0, 1, 2), None)
        add(d, "Automatic", ("Linear", "Function"), (0, 1, 0), "BoundedSum")
        add(d, "TakagiSugeno", ("Constant", "Linear"), (0, 1), None)
        add(d, "Automatic", ("Constant", "Linear"), (0, 1, 1), "UnboundedSum", batch=2)
        add(d, "Automatic", ("Function", "Constant"), (0, 1), None, batch=2)
        # the same term activated twice with no aggregation operator: the degrees add up BEFORE a degree-dependent value is read
        add(d, "Automatic", ("Function", "Constant"), (0, 1, 0), None)
        add(d, "TakagiSugeno", ("Triangle", "Constant"), (0, 0, 1), None)
    # 2. Tsukamoto (inferred and explicit), inverse Tsukamoto, explicit TakagiSugeno on monotonic terms
    for d in defs:
        for k in MONO:
            add(d, "Automatic", (k, "Ramp"), (0, 1), None)
            add(d, "Tsukamoto", (k,), (0,), None)
            add(d, "TakagiSugeno", (k,), (0,), None)
        add(d, "Automatic", ("Ramp", "Ramp"), (0, 1, 0), "Maximum")
        add(d, "Automatic", ("Ramp", "Ramp"), (0, 1, 0), None)
        add(d, "Automatic", ("Ramp", "SShape"), (0, 1), None, batch=2)
        # batch degrees in which a term that is infinite at degree 0 is activated in one row and not in another
        add(d, "Automatic", ("Sigmoid", "Ramp"), (0, 1), None, batch=2)
        add(d, "Tsukamoto", ("Concave", "Sigmoid"), (0, 1, 0), "Maximum", batch=2)
        add(d, "Automatic", ("Triangle", "Triangle"), (0, 1), None)
        add(d, "Automatic", ("Triangle",), (0, 0), "AlgebraicSum")
        add(d, "Tsukamoto", ("Ramp", "ZShape"), (0, 1, 1), "Maximum")
    # 3. an activation of degree exactly 0 never changes the result
    for d in defs:
        for kinds in [("Constant", "Constant"), ("Ramp", "Ramp"), ("Sigmoid", "Ramp"), ("Concave", "Ramp"), ("Ramp", "Sigmoid"),
                      ("Linear", "Constant"), ("Triangle", "Triangle"), ("ZShape", "SShape"), ("Arc", "Ramp")]:
            for pos in (0, 1):
                add(d, "Automatic", kinds, (1,), None, zero_at=(pos, 0))
        add(d, "Automatic", ("Constant", "Constant"), (0, 1), "Maximum", zero_at=(1, 0))
        add(d, "Automatic", ("Ramp", "Ramp"), (0, 1), None, zero_at=(2, 1))
        add(d, "Automatic", ("Sigmoid", "Ramp"), (1,), None, batch=2, zero_at=(0, 0))
    # 3b. Takagi-Sugeno terms whose value is not finite (1/x0 at x0 = 0; Linear/Function of a NaN or infinite input) next to degree 0
    for d in defs:
        add(d, "Automatic", ("Singular", "Constant"), (1,), None, zero_at=(0, 0))
        add(d, "Automatic", ("Singular", "Constant"), (0, 1), None)
        add(d, "TakagiSugeno", ("Singular", "Constant"), (0, 1, 0), "Maximum", batch=2)
        add(d, "Automatic", ("Linear", "Constant"), (1,), None, zero_at=(1, 0), special_inputs=True)
        add(d, "Automatic", ("Function", "Linear"), (0, 1), None, special_inputs=True)
    # 4. mixed kinds under Automatic
    for d in defs:
        add(d, "Automatic", ("Constant", "Ramp"), (0, 1), None)
        add(d, "Automatic", ("Triangle", "Ramp"), (0, 1), None)
        add(d, "Automatic", ("Constant", "Triangle"), (0, 1), None)
    for d in defs:
        obs.append((f"{d}/fresh-results", ob_fresh(d, f"{d}/fresh-results")))
        obs.append((f"{d}/integer-degrees", ob_int_degrees(d, f"{d}/integer-degrees")))
        for order in (("ts", "tk", "ts"), ("tk", "ts")):
            nm = f"{d}/one-object/{'-'.join(order)}"
            obs.append((nm, ob_reuse_kinds(d, order, nm)))
    for n in (1, 2, 3):
        for agg in (None, "Maximum"):
            nm = f"constants-bounds/n{n}/{agg or 'none'}"
            obs.append((nm, ob_const_bounds(n, agg, nm)))
    for kinds in [("Constant",), ("Linear", "Function"), ("Ramp", "Sigmoid", "Concave"), ("SShape", "ZShape", "Arc"), ("Triangle",), ("Constant", "Ramp"),
                  ("Triangle", "Sigmoid"), ("Function", "Triangle"), ()]:
        nm = f"infer/{'+'.join(kinds) or 'empty'}"
        obs.append((nm, ob_infer(kinds, nm)))
    if tier != "quick":
        for d in defs:
            add(d, "Automatic", ("Constant", "Constant", "Constant"), (0, 1, 2, 0), "Maximum")
            add(d, "Automatic", ("Constant", "Constant", "Constant"), (0, 1, 2, 0), None, batch=3)
            add(d, "Automatic", ("Ramp", "Ramp", "Ramp"), (0, 1, 2, 1), "Maximum")
            for agg in AGGS:
                add(d, "Automatic", ("Ramp", "Ramp"), (0, 1, 1), agg)
    return obs


def obligations(tier, seed):
    from . import conform
    return _obligations(tier, seed) + conform.obligations(PROPERTY, tier)
