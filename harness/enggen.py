"""Bounded, seeded family of engine skeletons shared by C01/C02/C13/C19 and the reference interpreter of the documented
inference pipeline (General activation).  Structure is concrete; every number is supplied by the caller (symbolic).

skeleton = {
  "inputs":  ["X", "Y", ...]            input variable names (terms "a", "b" each)
  "outputs": ["O", "P", ...]            output variable names (terms "a", "b" each)
  "blocks":  [ [rule, ...], ... ]       rule = {"ante": tree (rulegen), "concl": [(var, hedges, term), ...]}
}
flags = {"var:X": bool, "block:0": bool, "rule:0.1": bool}  (missing = enabled)
"""
from __future__ import annotations

import random

from . import rulegen as rg

TERMS = ("a", "b")


def rule_text(rule):
    cons = " and ".join(f"{v} is {' '.join(h)}{' ' if h else ''}{t}" for v, h, t in rule["concl"])
    return f"if {rg.show(rule['ante'], 'minimal')} then {cons}"


def flag(flags, key):
    return flags.get(key, True)


def all_flag_keys(sk):
    keys = [f"var:{v}" for v in sk["inputs"] + sk["outputs"]]
    for bi, block in enumerate(sk["blocks"]):
        keys.append(f"block:{bi}")
        keys += [f"rule:{bi}.{ri}" for ri in range(len(block))]
    return keys


def flag_patterns(sk, pairs=0, rng=None):
    """all enabled, each single element disabled, and `pairs` random double-disabled patterns"""
    keys = all_flag_keys(sk)
    pats = [{}] + [{k: False} for k in keys]
    rng = rng or random.Random(0)
    for _ in range(pairs):
        a, b = rng.sample(keys, 2)
        pats.append({a: False, b: False})
    return pats


def fname(flags):
    off = sorted(k for k, v in flags.items() if not v)
    return "all-on" if not off else "off:" + "+".join(off)


# ---- the engine (real library objects) --------------------------------------------------------------------------------------
def build(fl, sk, ops, flags, weights):
    """ops: dict with callables producing library objects:
         in_term(var, term) -> Term ; out_term(var, term) -> Term ; conjunction() / disjunction() / implication() -> norm | None ;
         aggregation(var) -> SNorm | None ; defuzzifier(var) -> Defuzzifier ; out_range(var) -> (lo, hi)
       weights[(bi, ri)] -> rule weight"""
    ivs = [fl.InputVariable(v, enabled=flag(flags, f"var:{v}"), minimum=0, maximum=1, terms=[ops["in_term"](v, t) for t in TERMS]) for v in sk["inputs"]]
    ovs = []
    for v in sk["outputs"]:
        lo, hi = ops["out_range"](v)
        ovs.append(fl.OutputVariable(v, enabled=flag(flags, f"var:{v}"), minimum=lo, maximum=hi, aggregation=ops["aggregation"](v),
                                     defuzzifier=ops["defuzzifier"](v), terms=[ops["out_term"](v, t) for t in TERMS]))
    e = fl.Engine("e", "", ivs, ovs, [])
    for bi, block in enumerate(sk["blocks"]):
        rules = []
        for ri, rule in enumerate(block):
            r = fl.Rule.create(rule_text(rule), e)
            r.weight = weights[(bi, ri)]
            r.enabled = flag(flags, f"rule:{bi}.{ri}")
            rules.append(r)
        e.rule_blocks.append(fl.RuleBlock(f"rb{bi}", enabled=flag(flags, f"block:{bi}"), conjunction=ops["conjunction"](),
                                          disjunction=ops["disjunction"](), implication=ops["implication"](),
                                          activation=fl.General(), rules=rules))
    return e


# ---- reference interpreter of the statement -----------------------------------------------------------------------------------
def reference(sk, flags, weights, inputs, sem):
    """sem: dict of callables on values of the caller's number domain:
         mu_in(var, term, x), AND(a,b), OR(a,b), hedge(name, x), sanitize(d), times(w, d), zero, one,
         agg_degree(var)(a, b)   -- aggregation of activation degrees of a repeated term (plain sum when the variable has none)
         defuzz(var, activations) -- activations: list of (term, degree) in order of contribution -> crisp value
       -> (outputs {var: value or None when the variable is disabled}, fuzzy {var: [(term, degree)]}, degrees {(bi,ri): degree})"""
    fuzzy = {v: [] for v in sk["outputs"]}
    degrees = {}

    def enabled_var(v):
        return flag(flags, f"var:{v}")

    def membership(v, t):
        if v in sk["inputs"]:
            return sem["mu_in"](v, t, inputs[v])
        ds = [d for (tt, d) in fuzzy[v] if tt == t]
        if not ds:
            return sem["zero"]
        acc = ds[0]
        for d in ds[1:]:
            acc = sem["agg_degree"](v)(acc, d)
        return acc

    for bi, block in enumerate(sk["blocks"]):
        if not flag(flags, f"block:{bi}"):
            continue
        for ri, rule in enumerate(block):
            val = rg.evaluate(rule["ante"], lambda p: rg.prop_semantics(p, membership, sem["hedge"], enabled_var, sem["one"], sem["zero"]),
                              sem["AND"], sem["OR"])
            deg = sem["times"](weights[(bi, ri)], val)
            degrees[(bi, ri)] = deg
            if not flag(flags, f"rule:{bi}.{ri}"):
                continue
            for (v, hs, t) in rule["concl"]:
                if not enabled_var(v):
                    continue
                d = deg
                for h in reversed(hs):
                    d = sem["hedge"](h, d)
                fuzzy[v].append((t, sem["sanitize"](d)))
    outputs = {}
    for v in sk["outputs"]:
        outputs[v] = sem["defuzz"](v, fuzzy[v]) if enabled_var(v) else None
    return outputs, fuzzy, degrees


# ---- generation --------------------------------------------------------------------------------------------------------------
def gen_skeleton(rng, n_in=None, n_out=None, n_blocks=None, max_rules=3, depth=2, out_in_ante=True, hedges=True):
    n_in = n_in or rng.choice((1, 2, 2, 3))
    n_out = n_out or rng.choice((1, 1, 2))
    n_blocks = n_blocks or rng.choice((1, 1, 2))
    ins = ["X", "Y", "Z"][:n_in]
    outs = ["O", "P"][:n_out]
    blocks = []
    for bi in range(n_blocks):
        block = []
        for ri in range(rng.randint(1, max_rules)):
            vars_ = list(ins)
            if out_in_ante and (bi > 0 or ri > 0) and rng.random() < 0.5:
                vars_ = ins + outs
            pool = rg.HEDGES if hedges else ()
            ante = rg.gen_tree(rng, rng.randint(0, depth), vars_, TERMS, hedge_pool=pool or ("very",), max_hedges=2 if hedges else 0,
                               any_prob=0.08 if hedges else 0.0)
            k = rng.choice((1, 1, 2)) if n_out > 1 else rng.choice((1, 1, 1, 2))
            concl = []
            for ci in range(k):
                # hedges only on the LAST conclusion (earlier hedged conclusions leak into later ones: recorded C07 finding)
                hs = ()
                if hedges and ci == k - 1 and rng.random() < 0.4:
                    hs = (rng.choice(("very", "not", "somewhat", "h1", "h2")),)
                concl.append((rng.choice(outs), hs, rng.choice(TERMS)))
            block.append({"ante": ante, "concl": concl})
        blocks.append(block)
    return {"inputs": ins, "outputs": outs, "blocks": blocks}


def hand_skeletons():
    P = lambda v, t, hs=(): ("p", v, tuple(hs), t)
    sks = []
    # 1 input, 1 output, simple Mamdani pair of rules
    sks.append({"inputs": ["X"], "outputs": ["O"], "blocks": [[{"ante": P("X", "a"), "concl": [("O", (), "a")]},
                                                                {"ante": P("X", "b"), "concl": [("O", (), "b")]}]]})
    # and/or precedence, same term concluded twice (grouping), weights
    sks.append({"inputs": ["X", "Y"], "outputs": ["O"], "blocks": [[
        {"ante": ("or", P("X", "a"), ("and", P("Y", "a"), P("X", "b"))), "concl": [("O", (), "a")]},
        {"ante": ("and", ("or", P("X", "a"), P("Y", "b")), P("Y", "a", ("very",))), "concl": [("O", (), "a")]},
        {"ante": P("Y", "b", ("not",)), "concl": [("O", ("somewhat",), "b")]}]]})
    # output variable in the antecedent of a later rule and of a later block; two outputs; two conclusions
    sks.append({"inputs": ["X"], "outputs": ["O", "P"], "blocks": [
        [{"ante": P("X", "a"), "concl": [("O", (), "a"), ("P", (), "b")]},
         {"ante": ("and", P("O", "a"), P("X", "b")), "concl": [("P", (), "a")]},
         {"ante": P("X", "b"), "concl": [("O", (), "a")]}],
        [{"ante": ("or", P("O", "a"), P("P", "b", ("h1",))), "concl": [("P", ("not",), "b")]}]]})
    # any, disabled-sensitive structure, three inputs
    sks.append({"inputs": ["X", "Y", "Z"], "outputs": ["O"], "blocks": [[
        {"ante": ("and", P("X", None, ("any",)), ("or", P("Y", "a"), P("Z", "b", ("h2", "h1")))), "concl": [("O", (), "b")]},
        {"ante": ("or", ("or", P("X", "a"), P("Y", "b")), P("Z", "a")), "concl": [("O", ("very",), "a")]}]]})
    return sks


def skeletons(tier, seed, n_quick=20, n_thorough=200, **kw):
    rng = random.Random(100 + seed)
    sks = hand_skeletons()
    n = n_quick if tier == "quick" else n_thorough
    for _ in range(n):
        sks.append(gen_skeleton(rng, **kw))
    return sks
