"""C14  FuzzyLite Language export/import round-trips engines."""
from __future__ import annotations

import re

import numpy as np
import contextlib

import z3

from symfl import core, install as inst
from symfl.core import S, set_mode, tf, same, ZB, elements, SymFloat, SymArray, SymBool, SymInt
from symfl.install import install
from symfl.replay import lit, replay_fn

from . import regeng
from .catalog import catalog
from .common import rvar, wf

PROPERTY = "C14"
EXPLANATION = ("One engine per registered term class (as input and output term), every T-norm/S-norm in every role, every defuzzifier with and "
               "without parameter, every activation method with parameters, descriptions, disabled components, infinite ranges, NaN "
               "defaults, `none` operators, hedged rules and rule weights is built with every numeric parameter symbolic. The real "
               "FllExporter().to_string -> FllImporter().from_string -> to_string runs with numbers carried through the text as "
               "placeholder tokens (str() of a symbolic number is a registered token; to_float/float map it back - this stub is the "
               "statement's precondition 'representable at the configured decimals'); the real code forks on Op.is_close(height, 1), "
               "is_close(weight, 1), default-valued fields. Per path: the second text equals the first; the imported engine has the same "
               "structure; for every numeric field 'imported != original' is unsat (a swapped, dropped or defaulted parameter is a "
               "counterexample with a printable witness on the decimals grid); outputs of original and imported engine on symbolic inputs "
               "cannot differ; perturbed texts (comments, blank lines, extra spaces) reach a fixed point after one cycle.")
BOUNDS = {"quick": {"engines": "55 catalogue entries covering every registered component class", "numbers": "all values k/1000 (|k| <= 10^7), heights/weights 1 or "
                    "further from 1 than the tolerance", "text variants": "3 perturbations per engine"},
          "thorough": {"engines": "as quick", "text variants": "6 perturbations"}}
OUTSIDE = ["the digit-level behaviour of f'{x:.3f}' and float() (numbers travel as placeholder tokens; replays use the real formatting at decimals 3)",
           "names that are not identifiers / contain Python keywords", "arbitrary accepted texts beyond the perturbations listed"]
ASSUMPTIONS = ["every numeric parameter is representable at the configured decimals (token round trip is the identity)",
               "heights and rule weights are 1 or differ from 1 by more than the comparison tolerance"]
STUBS = ["str()/format() of a symbolic number -> placeholder token; to_float (all modules) and float (fuzzylite.rule) map tokens back to the symbolic number"]
OB_BUDGET_S = {"quick": 240, "thorough": 1500}

GRID = 1000


def sym_float_builtin(x=0.0):
    if isinstance(x, str) and x in S.tokens:
        return S.tokens[x]
    if isinstance(x, SymFloat):
        return x
    return float(x)


def make_syms(ob_pre, ins, unit_heights=False, used=None, decimals=None):
    """-> sym(name, kind) creating symbolic numbers and recording preconditions / replay inputs.
    Heights and weights: the statement's precondition has two cases - exactly 1 (unit_heights=True: the concrete 1.0) or
    further from 1 than the tolerance (symbolic)."""
    def sym(name, kind):
        if used is not None:
            used.add(kind)
        if kind in ("h", "w") and unit_heights:
            return 1.0
        x = rvar(name)
        ob_pre.append(z3.And(x.v >= -10 ** 4, x.v <= 10 ** 4))      # replays round the witness to the decimals grid
        if decimals is not None:      # the statement's precondition made explicit: the value is representable at the decimals in force
            ob_pre.append(x.v == z3.ToReal(z3.Int(f"grid!{name}")) / (10 ** decimals))
        if kind == "u":
            ob_pre.append(z3.And(x.v >= 0, x.v <= 1))
        elif kind in ("h", "w"):
            atol = core.rv(0.001)
            if kind == "w":     # rule weights: zero (a muted rule) and weights above one are weights too; only 1 +- tolerance is left out
                ob_pre.append(z3.Or(z3.And(x.v >= 0, 1 - x.v > 2 * atol), z3.And(x.v - 1 > 2 * atol, x.v <= 10)))
            else:
                ob_pre.append(z3.And(x.v > 0, x.v < 1, 1 - x.v > 2 * atol))
        ins[name] = x
        return x
    return sym


def spec_pre(spec, ins):
    pre = []
    for a, b in spec.get("valid_range", []):
        pre.append(ins[a].v < ins[b].v)
    for a, b in spec.get("distinct", []):
        pre.append(ins[a].v != ins[b].v)
    for xs in spec.get("sorted_x", []):
        pre += [ins[a].v < ins[b].v for a, b in zip(xs, xs[1:])]
    return pre


def compare(fl, a, b, path, numeric, problems, seen=None):
    """walk two object graphs in parallel: concrete mismatches -> problems; numeric pairs -> numeric list"""
    seen = seen if seen is not None else set()
    if isinstance(a, (SymFloat, SymArray, float, int, np.floating, np.integer, np.ndarray)) and not isinstance(a, bool) or \
       isinstance(b, (SymFloat, SymArray)):
        if isinstance(b, bool) or isinstance(a, bool):
            if a != b:
                problems.append(f"{path}: {a!r} vs {b!r}")
            return
        ea, eb = elements(a), elements(b)
        if len(ea) != len(eb):
            problems.append(f"{path}: {len(ea)} vs {len(eb)} values")
            return
        for i, (x, y) in enumerate(zip(ea, eb)):
            numeric.append((f"{path}[{i}]" if len(ea) > 1 else path, x, y))
        return
    if a is None or b is None or isinstance(a, (str, bool)):
        if a != b:
            problems.append(f"{path}: {a!r} vs {b!r}")
        return
    if type(a) is not type(b):
        problems.append(f"{path}: {type(a).__name__} vs {type(b).__name__}")
        return
    if isinstance(a, (list, tuple)):
        if len(a) != len(b):
            problems.append(f"{path}: {len(a)} vs {len(b)} elements")
            return
        for i, (x, y) in enumerate(zip(a, b)):
            compare(fl, x, y, f"{path}[{i}]", numeric, problems, seen)
        return
    if isinstance(a, dict):
        if sorted(a) != sorted(b):
            problems.append(f"{path}: keys {sorted(a)} vs {sorted(b)}")
            return
        for k in a:
            compare(fl, a[k], b[k], f"{path}.{k}", numeric, problems, seen)
        return
    import enum
    if isinstance(a, enum.Enum):
        if a is not b:
            problems.append(f"{path}: {a} vs {b}")
        return
    if type(a).__module__.startswith("fuzzylite"):
        if id(a) in seen:
            return
        seen.add(id(a))
        skip = {"engine", "root", "expression", "conclusions", "_value", "previous_value", "activation_degree", "triggered", "fuzzy"}
        for k in vars(a):
            if k in skip:
                continue
            compare(fl, vars(a)[k], vars(b).get(k), f"{path}.{k}", numeric, problems, seen)
        if isinstance(a, fl.OutputVariable):
            compare(fl, a.fuzzy.aggregation, b.fuzzy.aggregation, f"{path}.aggregation", numeric, problems, seen)
            compare(fl, [a.fuzzy.minimum, a.fuzzy.maximum], [b.fuzzy.minimum, b.fuzzy.maximum], f"{path}.range", numeric, problems, seen)
        if isinstance(a, fl.Rule):
            compare(fl, a.is_loaded(), b.is_loaded(), f"{path}.loaded", numeric, problems, seen)
        return
    if a != b:
        problems.append(f"{path}: {a!r} vs {b!r}")


def perturb(text, k):
    lines = text.split("\n")
    if k == 0:      # comments and blank lines
        out = ["# a comment", ""]
        for l in lines:
            out += [l + "   # trailing comment" if l.strip() else l, ""]
        return "\n".join(out)
    if k == 1:      # extra blanks around values and indentation
        return "\n".join(("      " + re.sub(r":\s*", ":    ", l.strip(), count=1)) if l.strip() else l for l in lines)
    if k == 2:      # optional keys omitted (defaults): lock-range / lock-previous false, enabled true
        return "\n".join(l for l in lines if l.strip() not in ("lock-range: false", "lock-previous: false", "enabled: true"))
    if k == 3:      # tabs
        return text.replace("  ", "\t")
    if k == 4:      # CRLF-free trailing spaces
        return "\n".join(l + "  " for l in lines)
    return text + "\n\n# end\n"


PY_COMPARE = '''
import enum
def compare(a, b, path, problems, seen):
    if isinstance(a, (float, int, np.floating, np.integer, np.ndarray)) and not isinstance(a, bool):
        if not same(a, b): problems.append("%s: %r vs %r" % (path, a, b))
        return
    if a is None or b is None or isinstance(a, (str, bool)):
        if a != b: problems.append("%s: %r vs %r" % (path, a, b))
        return
    if type(a) is not type(b): problems.append("%s: %s vs %s" % (path, type(a).__name__, type(b).__name__)); return
    if isinstance(a, (list, tuple)):
        if len(a) != len(b): problems.append("%s: %d vs %d elements" % (path, len(a), len(b))); return
        for i, (x, y) in enumerate(zip(a, b)): compare(x, y, "%s[%d]" % (path, i), problems, seen)
        return
    if isinstance(a, dict):
        if sorted(a) != sorted(b): problems.append("%s: keys differ" % path); return
        for k in a: compare(a[k], b[k], "%s.%s" % (path, k), problems, seen)
        return
    if isinstance(a, enum.Enum):
        if a is not b: problems.append("%s: %s vs %s" % (path, a, b))
        return
    if type(a).__module__.startswith("fuzzylite"):
        if id(a) in seen: return
        seen.add(id(a))
        for k in vars(a):
            if k in ("engine", "root", "expression", "conclusions", "_value", "previous_value", "activation_degree", "triggered", "fuzzy"): continue
            compare(vars(a)[k], vars(b).get(k), "%s.%s" % (path, k), problems, seen)
        if isinstance(a, fl.OutputVariable):
            compare(a.fuzzy.aggregation, b.fuzzy.aggregation, path + ".aggregation", problems, seen)
            compare([a.fuzzy.minimum, a.fuzzy.maximum], [b.fuzzy.minimum, b.fuzzy.maximum], path + ".range", problems, seen)
        return
    if a != b: problems.append("%s: %r vs %r" % (path, a, b))
'''


def ob_engine(name, make, tier, label, unit_heights=False, decimals=None):
    """decimals: the whole round trip runs under settings.context(decimals=...) with every parameter on that grid; a number printed with
    fewer decimals than those in force then stands for the ROUNDED value (symfl: SymFloat.__format__)"""
    def run(ob):
        fl = install()
        set_mode("R")
        S.box_scalars = True
        S.format_decimals = decimals
        GRID = 10 ** (decimals if decimals is not None else 3)
        ctx = (lambda: fl.settings.context(decimals=decimals)) if decimals is not None else contextlib.nullcontext
        build = regeng.builder(fl)
        pre, ins = [], {}
        sym = make_syms(pre, ins, unit_heights, decimals=decimals)
        spec = make(sym)
        pre += spec_pre(spec, ins)
        names_in = [iv["name"] for iv in spec["inputs"]]
        X = {v: rvar(f"x_{v}") for v in names_in}
        for v, x in X.items():
            ins[f"x_{v}"] = x
        rev = {id(x): n for n, x in ins.items()}
        nvar = 3 if tier == "quick" else 6
        do_out = spec.get("compare_outputs", True)

        def rbody(v):
            g = lambda val: round(float(val) * GRID) / GRID       # the witness on the decimals grid
            sp = regeng.spec_literal({k: val for k, val in spec.items() if k in ("name", "description", "inputs", "outputs", "blocks", "share_components", "assign")}, lit, lambda x: g(v[rev[id(x)]]))
            wl = "{" + ", ".join(f"{k!r}: {lit(g(v[rev[id(w)]]) if id(w) in rev else w)}" for k, w in spec.get("weights", {}).items()) + "}"
            return "\n".join([regeng.PY_BUILD, PY_COMPARE, f"spec = {sp}", f"weights = {wl}", "import warnings; warnings.simplefilter('ignore')",
                              f"fl.settings.decimals = {decimals if decimals is not None else 3}",
                              "e = build_engine(spec, weights)", "bad = []",
                              (f"with fl.settings.context(decimals=3): fl.FllExporter().to_string(e)      # an earlier export under other decimals leaves no trace" if decimals is not None else "pass"),
                              "t1 = fl.FllExporter().to_string(e); e2 = fl.FllImporter().from_string(t1); t2 = fl.FllExporter().to_string(e2)",
                              "if t1 != t2: bad.append('re-exported text differs:\\n%s\\n---\\n%s' % (t1, t2))",
                              "compare(e, e2, 'engine', bad, set())",
                              f"inputs = {{{', '.join(f'{n!r}: {lit(v[f'x_{n}'])}' for n in names_in)}}}",
                              f"if {do_out}:",
                              "    for eng in (e, e2):",
                              "        for n, x in inputs.items(): eng.input_variable(n).value = x",
                              "        eng.process()",
                              "    for a, b in zip(e.output_variables, e2.output_variables):",
                              "        if not same(a.value, b.value): bad.append('output %s: original %r, imported %r' % (a.name, a.value, b.value))",
                              f"verdict(bool(bad), {name!r} + ': ' + '; '.join(bad)[:1500])"])

        rp = replay_fn(PROPERTY, label, rbody, key=None)

        def body():
            S.tokens.clear()
            S.token_of.clear()
            with inst.shadow(fl.rule, float=sym_float_builtin), ctx():
                e = build({k: val for k, val in spec.items() if k in ("name", "description", "inputs", "outputs", "blocks", "share_components", "assign")}, spec.get("weights"))
                if decimals is not None:
                    with fl.settings.context(decimals=3):
                        fl.FllExporter().to_string(e)      # an earlier export under other decimals leaves no trace
                t1 = fl.FllExporter().to_string(e)
                e2 = fl.FllImporter().from_string(t1)
                t2 = fl.FllExporter().to_string(e2)
                fixed = []
                for k in range(nvar):
                    tp = perturb(t1, k)
                    ta = fl.FllExporter().to_string(fl.FllImporter().from_string(tp))
                    tb = fl.FllExporter().to_string(fl.FllImporter().from_string(ta))
                    fixed.append((k, ta, tb))
                outs = None
                if do_out:
                    outs = []
                    for eng in (e, e2):
                        for n, x in X.items():
                            eng.input_variable(n).value = x
                        eng.process()
                        outs.append([ov.value for ov in eng.output_variables])
            return e, e2, t1, t2, fixed, outs

        for p in ob.paths(pre, body):
            if p.exc is not None:
                ob.unexpected(pre, p, label, ins, rp)
                continue
            e, e2, t1, t2, fixed, outs = p.result
            if t1 != t2:
                d = next((f"{a!r} -> {b!r}" for a, b in zip(t1.split("\n"), t2.split("\n")) if a != b), "length")
                ob.prove(pre, p, False, f"{label}: re-exported text differs at {d}", ins, rp)
            else:
                ob.prove(pre, p, True, f"{label}/text-fixed-point", ins, rp)
            bad = [k for k, ta, tb in fixed if ta != tb]
            ob.prove(pre, p, not bad, f"{label}: perturbed texts {bad} are not normalised to a fixed point by one cycle", ins, rp)
            numeric, problems = [], []
            compare(fl, e, e2, "engine", numeric, problems)
            ob.prove(pre, p, not problems, f"{label}: structure differs: {problems[:4]}", ins, rp)
            for path, x, y in numeric:
                if x is y:
                    continue
                ob.prove(pre, p, same(x, y), f"{label}/field {path}", ins, rp)
            if outs is not None:
                claims = []
                for a, b in zip(*outs):
                    ea, eb = elements(a), elements(b)
                    claims.append(z3.And(*[same(x, y) for x, y in zip(ea, eb)]) if len(ea) == len(eb) else z3.BoolVal(False))
                ob.prove(pre, p, z3.And(*claims), f"{label}/outputs", ins, rp)
            ob.r.vacuity_ok += 1
            if numeric:
                _, x, y = numeric[0]
                ob.expect_sat(pre, p, same(x, core.const(987654.0)), f"{label}/twin")

    return run


def obligations(tier, seed):
    obs = []
    for name, make in catalog(tier):
        obs.append((f"roundtrip/{name}", ob_engine(name, make, tier, f"roundtrip/{name}")))
        used = set()
        make(make_syms([], {}, True, used))
        if used & {"h", "w"}:
            obs.append((f"roundtrip/{name}/unit-height", ob_engine(name, make, tier, f"roundtrip/{name}/unit-height", unit_heights=True)))
        # the same round trip with more decimals in force than the default (every number on that finer grid)
        if tier != "quick" or name.startswith(("activation/", "rule-weights", "flags", "term/Constant", "term/Discrete", "defuzzifier/WeightedAverage")):
            obs.append((f"roundtrip/{name}/decimals5", ob_engine(name, make, tier, f"roundtrip/{name}/decimals5", decimals=5)))
    return obs
