"""C18  FuzzyLite Dataset export is a faithful tabulation of the engine."""
from __future__ import annotations

import io
import itertools

import numpy as np
import z3

from symfl import core, install as inst
from symfl.core import S, set_mode, sym_array, tf, same, ZB, elements, SymInt, SymBool, RFloat, SymArray
from symfl.install import install
from symfl.replay import lit, replay_fn
from symfl.solve import check, value_of

from . import regeng
from .common import rvar

PROPERTY = "C18"
EXPLANATION = ("np.savetxt is stubbed to capture the array and header. (a) Grid: the real FldExporter.write_from_scope runs with `values` a "
               "symbolic integer v, symbolic input ranges, n = 1..3 inputs; pow() is a nondeterministic libm stub (any real r with r^n within "
               "2^-45 relative of v), int() truncates; every Python branch of the resolution computation and of the Op.increment-driven "
               "enumeration is explored and per path the captured table must have K^n rows with K^n <= v < (K+1)^n (integer arithmetic) "
               "resp. v^n rows, row j / column i = min_i + digit_i(j) (max_i-min_i)/(K-1) with the last input fastest; inactive "
               "variables keep their value. (b) Op.increment on symbolic digit lists is the mixed-radix successor. (c) every exported "
               "row's outputs equal a separate scalar process() of that row; header/inputs/outputs switches enumerated. (d) reader: "
               "texts with placeholder numbers, blank/comment lines and skip_lines enumerated, tabulates exactly the given rows.")
BOUNDS = {"quick": {"all variables = v": "v symbolic in [1,40] (n=1), [1,90] (n=2), [1,130] (n=3)", "each variable = v": "v symbolic in [1,4], n <= 2 ([1,3] for n=3)",
                    "increment": "lists of length <= 3, digits/bounds symbolic integers in [0,3]", "reader": "<= 4 data rows, 6 line layouts x skip_lines 0..3"},
          "thorough": {"all variables = v": "v in [1,200] (n=1), [1,700] (n=2), [1,1100] (n=3); windows around every perfect power"}}
OUTSIDE = ["the printed digits and separators (inside np.savetxt; number formatting is not modelled)", "v beyond the bound",
           "accuracy of libm pow beyond the stated relative error"]
ASSUMPTIONS = ["pow(v, 1/n) returns a real r with |r^n - v| <= 2^-45 v (a superset of a correctly rounded result)", "input ranges finite, min < max"]
STUBS = ["np.savetxt -> capture of (array, header, fmt, delimiter)", "builtins int/pow shadowed in fuzzylite.exporter: pow = nondeterministic libm stub, "
         "int = truncation on the symbolic result"]
OB_BUDGET_S = {"quick": 280, "thorough": 1800}
TOTAL_BUDGET_S = {"quick": 600, "thorough": 3300}

EPS = z3.Q(1, 2 ** 45)


def sym_pow(v, e):
    if isinstance(v, SymInt):
        n = int(round(1.0 / e))
        r = z3.Real(f"pow!{next(S.fresh)}")
        rn = r
        for _ in range(n - 1):
            rn = rn * r
        vr = z3.ToReal(v.i)
        S.add_side(z3.And(r > 0, rn >= vr * (1 - EPS), rn <= vr * (1 + EPS)))
        return RFloat(r)
    return pow(v, e)


def sym_int(x):
    if isinstance(x, RFloat):
        return SymInt(z3.ToInt(x.v))
    if isinstance(x, SymInt):
        return x
    return int(x)


def tiny_engine(fl, n, ranges, values=None, same_names=False, disabled=None):
    ivs = [fl.InputVariable("X0" if same_names else f"X{i}", minimum=ranges[i][0], maximum=ranges[i][1], terms=[fl.Rectangle("a", -1e6, 1e6)]) for i in range(n)]
    ov = fl.OutputVariable("O", minimum=0, maximum=1, defuzzifier=fl.WeightedAverage(), terms=[fl.Constant("a", 0.5)])
    e = fl.Engine("e", "", ivs, [ov], [])
    e.rule_blocks.append(fl.RuleBlock("rb", activation=fl.General(), rules=[fl.Rule.create("if X0 is a then O is a", e)]))
    if values is not None:
        for iv, v in zip(ivs, values):
            iv.value = v
    if disabled is not None:
        ivs[disabled].enabled = False
    return e


def ob_used_engine(vfix, label):
    """an engine that was USED before the export (one scalar evaluation that left a value in a lock-previous output variable): the
    dataset holds "exactly the output values the engine produces" for the grid - the rows of a restarted engine; nothing of the
    earlier evaluation shows, in particular not in leading rows that defuzzify to NaN"""
    def run(ob):
        fl = install()
        set_mode("R")
        lo, hi, t0 = rvar("lo"), rvar("hi"), rvar("t0")
        pre = [lo.v < t0.v, t0.v < hi.v]
        ins = {"lo": lo, "hi": hi, "t0": t0}

        def rbody(v):
            return "\n".join([f"lo, hi, t0, v = {lit(v['lo'])}, {lit(v['hi'])}, {lit(v['t0'])}, {vfix}",
                              "X = fl.InputVariable('X', minimum=lo, maximum=hi, terms=[fl.Binary('a', t0, float('inf'))])",
                              "O = fl.OutputVariable('O', minimum=0, maximum=1, lock_previous=True, defuzzifier=fl.WeightedAverage(), terms=[fl.Constant('k', 0.5)])",
                              "e = fl.Engine('e', '', [X], [O], [])",
                              "e.rule_blocks.append(fl.RuleBlock('rb', activation=fl.General(), rules=[fl.Rule.create('if X is a then O is k', e)]))",
                              "X.value = hi; e.process()            # the engine has been used: O holds 0.5",
                              "captured = {}",
                              "import numpy; orig = numpy.savetxt",
                              "numpy.savetxt = lambda w, T, **kw: captured.update(T=numpy.array(T, dtype=float))",
                              "try:",
                              "    fl.FldExporter().write_from_scope(e, None, v, fl.FldExporter.ScopeOfValues.EachVariable, None)",
                              "finally: numpy.savetxt = orig",
                              "T = captured['T']; xs = [lo + i * ((hi - lo) / (v - 1)) for i in range(v)]",
                              "exp, last = [], float('nan')",
                              "for x in xs:",
                              "    last = 0.5 if x >= t0 else last",
                              "    exp.append(last)",
                              "verdict(T.shape != (v, 2) or not same(T[:, 1], exp, 1e-9), 'output column %r, a restarted engine gives %r (inputs %r, term starts at %r)' % (T[:, 1].tolist() if T.ndim == 2 else T, exp, xs, t0))"])

        rp = replay_fn(PROPERTY, label, rbody, key=None)

        def body():
            X = fl.InputVariable("X", minimum=lo, maximum=hi, terms=[fl.Binary("a", t0, float("inf"))])
            O = fl.OutputVariable("O", minimum=0, maximum=1, lock_previous=True, defuzzifier=fl.WeightedAverage(), terms=[fl.Constant("k", 0.5)])
            e = fl.Engine("e", "", [X], [O], [])
            e.rule_blocks.append(fl.RuleBlock("rb", activation=fl.General(), rules=[fl.Rule.create("if X is a then O is k", e)]))
            X.value = hi
            e.process()
            inst.NP.savetxt_calls.clear()
            fl.FldExporter().write_from_scope(e, None, vfix, fl.FldExporter.ScopeOfValues.EachVariable, None)
            T, kw = inst.NP.savetxt_calls[-1]
            return T

        for p in ob.paths(pre, body):
            if p.exc is not None:
                ob.unexpected(pre, p, label, ins, rp)
                continue
            A = core._obj(p.result)
            if A.shape != (vfix, 2):
                ob.prove(pre, p, False, f"{label}: table of shape {A.shape}", ins, rp)
                continue
            claims, last = [], None          # last: (z3 real value, z3 "is NaN")
            lastv, lastnan = z3.RealVal(0), z3.BoolVal(True)
            for i in range(vfix):
                x = lo.v + i * ((hi.v - lo.v) / (vfix - 1))
                fires = x >= t0.v
                lastv, lastnan = z3.If(fires, z3.RealVal("0.5"), lastv), z3.And(z3.Not(fires), lastnan)
                o = tf(A[i, 1])
                claims.append(z3.If(lastnan, ZB(o.nan), z3.And(ZB(o.fin()), o.v == lastv)))
            ob.prove(pre, p, z3.And(*claims), label, ins, rp)

    return run


def ob_outputs_only(vfix, label):
    """only the output columns are exported (input_values=False) and no output depends on the swept inputs (the one rule reads a
    disabled input variable): still one row per grid point"""
    def run(ob):
        fl = install()
        set_mode("R")
        R = [(rvar(f"lo{i}"), rvar(f"hi{i}")) for i in range(2)]
        pre = [lo.v < hi.v for lo, hi in R]
        ins = {}
        for i, (lo, hi) in enumerate(R):
            ins[f"lo{i}"], ins[f"hi{i}"] = lo, hi

        def rbody(v):
            return "\n".join([f"R = {lit([[v[f'lo{i}'], v[f'hi{i}']] for i in range(2)])}; v = {vfix}",
                              "ivs = [fl.InputVariable('X%d' % i, minimum=R[i][0], maximum=R[i][1], terms=[fl.Rectangle('a', -1e6, 1e6)]) for i in range(2)]",
                              "ov = fl.OutputVariable('O', minimum=0, maximum=1, default_value=0.25, defuzzifier=fl.WeightedAverage(), terms=[fl.Constant('a', 0.5)])",
                              "e = fl.Engine('e', '', ivs, [ov], [])",
                              "e.rule_blocks.append(fl.RuleBlock('rb', activation=fl.General(), rules=[fl.Rule.create('if X0 is a then O is a', e)]))",
                              "ivs[0].enabled = False",
                              "captured = {}",
                              "import numpy; orig = numpy.savetxt",
                              "numpy.savetxt = lambda w, T, **kw: captured.update(T=numpy.atleast_2d(numpy.array(T, dtype=float)))",
                              "try:",
                              "    fl.FldExporter(input_values=False).write_from_scope(e, None, v, fl.FldExporter.ScopeOfValues.EachVariable, None)",
                              "finally: numpy.savetxt = orig",
                              "T = captured['T']",
                              "verdict(T.shape != (v * v, 1), 'outputs-only table of shape %r for a grid of %d points' % (T.shape, v * v))"])

        rp = replay_fn(PROPERTY, label, rbody, key=None)

        def body():
            e = tiny_engine(fl, 2, R, disabled=0)
            e.output_variables[0].default_value = 0.25
            inst.NP.savetxt_calls.clear()
            fl.FldExporter(input_values=False).write_from_scope(e, None, vfix, fl.FldExporter.ScopeOfValues.EachVariable, None)
            T, kw = inst.NP.savetxt_calls[-1]
            return T

        for p in ob.paths(pre, body):
            if p.exc is not None:
                ob.unexpected(pre, p, label, ins, rp)
                continue
            A = np.atleast_2d(core._obj(p.result))
            ob.prove(pre, p, A.shape == (vfix * vfix, 1), f"{label}: table of shape {A.shape}", ins, rp)

    return run


def ob_grid(scope, n, vmax, inactive=None, label="", vmin=1, same_names=False, disabled=None):
    def run(ob):
        fl = install()
        set_mode("R")
        v = SymInt.var("v")
        R = [(rvar(f"lo{i}"), rvar(f"hi{i}")) for i in range(n)]
        held = rvar("held")
        pre = [v.i >= vmin, v.i <= vmax] + [lo.v < hi.v for lo, hi in R]
        ins = {"v": v, "held": held}
        for i, (lo, hi) in enumerate(R):
            ins[f"lo{i}"] = lo
            ins[f"hi{i}"] = hi
        all_scope = scope == "all"

        def rbody(vals):
            return "\n".join([f"n = {n}; v = {vals['v']}; inactive = {inactive!r}; held = {lit(vals['held'])}",
                              f"R = {lit([[vals[f'lo{i}'], vals[f'hi{i}']] for i in range(n)])}",
                              f"ivs = [fl.InputVariable({'chr(88) + chr(48)' if same_names else '(chr(88) + str(i))'}, minimum=R[i][0], maximum=R[i][1], terms=[fl.Rectangle('a', -1e6, 1e6)]) for i in range(n)]",
                              "ov = fl.OutputVariable('O', minimum=0, maximum=1, defuzzifier=fl.WeightedAverage(), terms=[fl.Constant('a', 0.5)])",
                              "e = fl.Engine('e', '', ivs, [ov], [])",
                              "e.rule_blocks.append(fl.RuleBlock('rb', activation=fl.General(), rules=[fl.Rule.create('if X0 is a then O is a', e)]))",
                              f"disabled = {disabled!r}",
                              "if disabled is not None: ivs[disabled].enabled = False      # a disabled input variable is still a column that is swept",
                              "if inactive is not None: ivs[inactive].value = held",
                              "active = None if inactive is None else {iv for i, iv in enumerate(ivs) if i != inactive}",
                              "captured = {'calls': 0}",
                              "import numpy; orig = numpy.savetxt",
                              "numpy.savetxt = lambda w, X, **kw: captured.update(X=numpy.array(X, dtype=float), kw=kw, calls=captured['calls'] + 1)",
                              "try:",
                              f"    fl.FldExporter().write_from_scope(e, None, v, fl.FldExporter.ScopeOfValues.{'AllVariables' if all_scope else 'EachVariable'}, active)",
                              "finally: numpy.savetxt = orig",
                              "X = captured['X']",
                              "na = n if inactive is None else n - 1",
                              ("K = 1\nwhile (K + 1) ** n <= v: K += 1" if all_scope else "K = v"),
                              "import itertools",
                              "digits = list(itertools.product(*[range(K) if i != inactive else [0] for i in range(n)]))",
                              "exp = [[(R[i][0] + d[i] * ((R[i][1] - R[i][0]) / max(1, K - 1))) if i != inactive else held for i in range(n)] for d in digits]",
                              "bad = None",
                              "if captured['calls'] != 1: bad = 'the table was written in %d pieces (each with its own header)' % captured['calls']",
                              "elif X.shape[0] != len(exp): bad = '%d rows, the grid of K=%d values per input has %d' % (X.shape[0], K, len(exp))",
                              "elif not same(X[:, :n], exp, 1e-9): bad = 'grid values/order differ: %r vs %r' % (X[:, :n].tolist()[:6], exp[:6])",
                              f"verdict(bad is not None, '{scope} variables = %d, %d inputs: %s' % (v, n, bad))"])

        rp = replay_fn(PROPERTY, label, rbody, key=None)

        def body():
            e = tiny_engine(fl, n, R, same_names=same_names, disabled=disabled)
            active = None
            if inactive is not None:
                e.input_variables[inactive].value = held
                active = {iv for i, iv in enumerate(e.input_variables) if i != inactive}
            inst.NP.savetxt_calls.clear()
            sc = fl.FldExporter.ScopeOfValues.AllVariables if all_scope else fl.FldExporter.ScopeOfValues.EachVariable
            with inst.shadow(fl.exporter, int=sym_int, pow=sym_pow):
                fl.FldExporter().write_from_scope(e, None, v, sc, active)
            X, kw = inst.NP.savetxt_calls[-1]
            return X, kw, len(inst.NP.savetxt_calls)

        npaths = 0
        for p in ob.paths(pre, body, incremental=vmin > 100):
            npaths += 1
            if p.exc is not None:
                ob.unexpected(pre, p, label, ins, rp)
                continue
            X, kw, ncalls = p.result
            if ncalls != 1:
                ob.prove(pre, p, False, f"{label}: the table was written in {ncalls} pieces (each with its own header)", ins, rp)
                continue
            A = core._obj(X)
            rows = A.shape[0]
            K = z3.Int("K!oracle")
            if all_scope:
                Kn, K1n = K, K + 1
                for _ in range(n - 1):
                    Kn, K1n = Kn * K, K1n * (K + 1)
                kdef = [K >= 1, Kn <= v.i, v.i < K1n]
            else:
                kdef = [K == v.i]
            na = n if inactive is None else n - 1
            # the path pins the number of rows; the oracle's K must be the one with K^na == rows, and each entry must match
            Kna = z3.IntVal(1)
            for _ in range(na):
                Kna = Kna * K
            claims = [Kna == rows]
            # on this path rows is concrete: the K consistent with it (if any) is concrete too
            kc = round(rows ** (1.0 / na)) if na else 1
            if na and kc ** na == rows and A.shape[1] >= n:
                for j, d in enumerate(itertools.product(*[range(kc) if i != inactive else [0] for i in range(n)])):
                    for i in range(n):
                        if i == inactive:
                            claims.append(same(A[j, i], held))
                        else:
                            lo, hi = R[i]
                            expv = lo.v + d[i] * ((hi.v - lo.v) / max(1, kc - 1))
                            claims.append(z3.And(ZB(tf(A[j, i]).fin()), tf(A[j, i]).v == expv))
            cons = list(pre) + p.constraints() + kdef + [z3.Not(z3.And(*claims))]
            # counterexamples are replayed with the real pow(); models the real libm does not reproduce (e.g. v = 27) are blocked
            status = "proved"
            for attempt in range(12):
                st, m, dt = check(cons, ob.query_timeout_ms)
                ob.r.solver_s += dt
                ob.r.queries += 1
                if st == "unsat":
                    break
                if st == "unknown":
                    status = "unknown"
                    break
                vals = {k: value_of(m, x)[0] for k, x in ins.items()}
                rep = rp(vals)
                if rep.get("reproduced"):
                    status = "violated"
                    ob.r.sat += 1
                    if len(ob.r.violations) < 3:
                        ob.r.violations.append({"label": f"{label} rows={rows}", "inputs": {k: (vv if isinstance(vv, int) else repr(vv)) for k, vv in vals.items()},
                                                "replay": rep.get("path"), "detail": rep.get("detail"), "key": label})
                    break
                ob.r.meta["libm_stub_models_not_reproduced"] = ob.r.meta.get("libm_stub_models_not_reproduced", 0) + 1
                cons.append(v.i != vals["v"])
            else:
                status = "unknown"
            if status == "proved":
                ob.r.proved += 1
            elif status == "unknown":
                ob.r.unknown += 1
                ob.r.inconclusive.append(f"{label}: rows={rows}: solver unknown or only non-reproducing libm models")
        if npaths:
            ob.r.vacuity_ok += 1
        else:
            ob.error("no path")

    return run


def ob_increment(length, label):
    def run(ob):
        fl = install()
        set_mode("R")
        x = [SymInt.var(f"x{i}") for i in range(length)]
        lo = [SymInt.var(f"lo{i}") for i in range(length)]
        hi = [SymInt.var(f"hi{i}") for i in range(length)]
        pre = []
        for i in range(length):
            pre += [lo[i].i >= 0, hi[i].i <= 3, lo[i].i <= x[i].i, x[i].i <= hi[i].i]
        ins = {f"x{i}": x[i] for i in range(length)}
        ins.update({f"lo{i}": lo[i] for i in range(length)})
        ins.update({f"hi{i}": hi[i] for i in range(length)})

        def rbody(v):
            X = [v[f"x{i}"] for i in range(length)]
            LO = [v[f"lo{i}"] for i in range(length)]
            HI = [v[f"hi{i}"] for i in range(length)]
            return "\n".join([f"x = {X!r}; lo = {LO!r}; hi = {HI!r}; x0 = list(x)", "r = fl.Op.increment(x, lo, hi)",
                              "exp = list(x0); i = len(exp) - 1; carried = True",
                              "while i >= 0:",
                              "    if exp[i] < hi[i]: exp[i] += 1; carried = False; break",
                              "    exp[i] = lo[i]; i -= 1",
                              "verdict(x != exp or r != (not carried), 'increment(%r, %r, %r) -> %r, %r; mixed-radix successor %r, %r' % (x0, lo, hi, x, r, exp, not carried))"])

        rp = replay_fn(PROPERTY, label, rbody, key=None)

        def body():
            xs = list(x)
            r = fl.Op.increment(xs, list(lo), list(hi))
            return xs, r

        for p in ob.paths(pre, body):
            if p.exc is not None:
                ob.unexpected(pre, p, label, ins, rp)
                continue
            xs, r = p.result
            # oracle: mixed radix successor, last digit fastest; False exactly when every digit was at its maximum
            claims = []
            allmax = z3.And(*[x[i].i == hi[i].i for i in range(length)])
            claims.append(z3.BoolVal(bool(r)) == z3.Not(allmax))
            for i in range(length):
                right_max = z3.And(*[x[j].i == hi[j].i for j in range(i + 1, length)]) if i + 1 < length else z3.BoolVal(True)
                got = xs[i].i if isinstance(xs[i], SymInt) else z3.IntVal(int(xs[i]))
                exp = z3.If(right_max, z3.If(x[i].i < hi[i].i, x[i].i + 1, lo[i].i), x[i].i)
                claims.append(got == exp)
            ob.prove(pre, p, z3.And(*claims), label, ins, rp)
            ob.expect_sat(pre, p, z3.BoolVal(bool(r)) == allmax, f"{label}/twin")

    return run


ENGINE = {"inputs": [{"name": "X", "terms": [("Triangle", "a", 0.0, 0.25, 0.75), ("Ramp", "b", 0.25, 1.0)]},
                     {"name": "Y", "terms": [("Triangle", "a", 0.0, 0.25, 0.75), ("Ramp", "b", 0.25, 1.0)]}],
          "outputs": [{"name": "O", "terms": [("Triangle", "a", 0.0, 0.25, 0.5), ("Triangle", "b", 0.25, 0.75, 1.0)], "aggregation": "Maximum", "defuzzifier": ("Centroid", 2)},
                      {"name": "P", "terms": [("Constant", "a", 0.25), ("Linear", "b", [1.0, -0.5, 0.25])], "aggregation": None, "defuzzifier": ("WeightedAverage",)}],
          "blocks": [{"conjunction": "Minimum", "disjunction": "Maximum", "implication": "Minimum",
                      "rules": ["if X is a then O is a and P is a", "if X is b or Y is a then O is b with 0.5", "if Y is b then P is b"]}]}


def ob_rows(headers, inputs, outputs, via, label, reconf=False):
    """every exported row holds the inputs of its grid point and exactly the outputs a separate scalar process() gives.
    reconf: the exporter is constructed under one decimals setting / separator / switches and reconfigured through the settings and its
    attributes before it writes: number format, separator, header and columns are those in force at the time of writing"""

    def run(ob):
        fl = install()
        set_mode("R")
        build = regeng.builder(fl)
        N = 3
        X = [[rvar(f"x{r}_{c}") for c in range(2)] for r in range(N)]
        pre = []
        ins = {f"x{r}_{c}": X[r][c] for r in range(N) for c in range(2)}
        layout = {"plain": ["{0}", "{1}", "{2}"], "comments": ["# head", "{0}", "", "   ", "{1}", "#{2}", "{2}"], "skip2": ["X Y", "# c", "{0}", "{1}", "{2}"]}

        def rbody(v):
            rows = [[v[f"x{r}_{c}"] for c in range(2)] for r in range(N)]
            return "\n".join([regeng.PY_BUILD, f"spec = {regeng.spec_literal(ENGINE, lit, lambda x: x)}", f"rows = {lit(rows)}",
                              "import warnings, io, numpy; warnings.simplefilter('ignore')", "e = build_engine(spec); captured = {}; orig = numpy.savetxt",
                              "numpy.savetxt = lambda w, X, **kw: captured.update(X=numpy.array(X, dtype=float), kw=kw)",
                              (f"ex = fl.FldExporter(headers={headers}, input_values={inputs}, output_values={outputs})" if not reconf else
                               f"ex = fl.FldExporter(separator=',', headers={not headers}, input_values=True, output_values=True); ex.separator = '; '; ex.headers = {headers}; ex.input_values = {inputs}; ex.output_values = {outputs}; fl.settings.decimals = 6"),
                              "try:",
                              ("    ex.write(e, None, np.array(rows, dtype=float))" if via == "write" else
                               f"    ex.write_from_reader(e, None, io.StringIO('\\n'.join(l.format(*[' '.join(repr(float(x)) for x in r) for r in rows]) for l in {layout[via][0]!r})), {layout[via][1]})"),
                              "finally: numpy.savetxt = orig; fl.settings.decimals = 3",
                              "T = captured['X']; exp = []",
                              f"if {reconf} and (captured['kw'].get('fmt') != '%0.6f' or captured['kw'].get('delimiter') != '; '): verdict(True, 'written with fmt=%r delimiter=%r, in force: %r %r' % (captured['kw'].get('fmt'), captured['kw'].get('delimiter'), '%0.6f', '; '))",
                              "for r in rows:",
                              "    f = build_engine(spec)",
                              "    for iv, x in zip(f.input_variables, r): iv.value = float(x)",
                              "    f.process()",
                              f"    exp.append(({'list(r)' if inputs else '[]'}) + ({'[float(ov.value) for ov in f.output_variables]' if outputs else '[]'}))",
                              f"hdr = {('; ' if reconf else ' ')!r}.join(({'[iv.name for iv in e.input_variables]' if inputs else '[]'}) + ({'[ov.name for ov in e.output_variables]' if outputs else '[]'})) if {headers} else ''",
                              "bad = None",
                              "if captured['kw'].get('header') != hdr: bad = 'header %r, expected %r' % (captured['kw'].get('header'), hdr)",
                              "elif T.shape[0] != len(rows) or not same(T, exp, 1e-9): bad = 'table %r, a separate process() of each row gives %r' % (T.tolist(), exp)",
                              f"verdict(bad is not None, {label!r} + ': ' + str(bad))"])

        if via != "write":
            layout[via] = (layout[via], {"plain": 0, "comments": 1, "skip2": 2}[via])
        rp = replay_fn(PROPERTY, label, rbody, key=None)

        def body():
            e = build(ENGINE)
            inst.NP.savetxt_calls.clear()
            import contextlib
            if reconf:
                ex = fl.FldExporter(separator=",", headers=not headers, input_values=True, output_values=True)
                ex.separator, ex.headers, ex.input_values, ex.output_values = "; ", headers, inputs, outputs
                ctx = fl.settings.context(decimals=6)
            else:
                ex = fl.FldExporter(headers=headers, input_values=inputs, output_values=outputs)
                ctx = contextlib.nullcontext()
            with ctx:
                if via == "write":
                    ex.write(e, None, sym_array([list(r) for r in X]))
                else:
                    lines, skip = layout[via]
                    text = "\n".join(l.format(*[" ".join(str(x) for x in r) for r in X]) for l in lines)
                    ex.write_from_reader(e, None, io.StringIO(text), skip)
            T, kw = inst.NP.savetxt_calls[-1]
            exp = []
            for r in X:
                f = build(ENGINE)
                for iv, x in zip(f.input_variables, r):
                    iv.value = x
                f.process()
                exp.append((list(r) if inputs else []) + ([ov.value for ov in f.output_variables] if outputs else []))
            hdr = ("; " if reconf else " ").join(([iv.name for iv in e.input_variables] if inputs else []) + ([ov.name for ov in e.output_variables] if outputs else [])) if headers else ""
            return T, kw, exp, hdr

        for p in ob.paths(pre, body):
            if p.exc is not None:
                ob.unexpected(pre, p, label, ins, rp)
                continue
            T, kw, exp, hdr = p.result
            A = core._obj(T)
            ok_shape = A.ndim == 2 and A.shape[0] == N and A.shape[1] == len(exp[0])
            if reconf and (kw.get("fmt") != "%0.6f" or kw.get("delimiter") != "; "):
                ob.prove(pre, p, False, f"{label}: written with fmt={kw.get('fmt')!r} delimiter={kw.get('delimiter')!r}; in force: '%0.6f' and '; '", ins, rp)
                continue
            if not ok_shape or kw.get("header") != hdr:
                ob.prove(pre, p, False, f"{label}: table shape {A.shape} header {kw.get('header')!r}; expected {N}x{len(exp[0])} header {hdr!r}", ins, rp)
                continue
            claims = [same(A[r, c], elements(exp[r][c])[0]) for r in range(N) for c in range(len(exp[0]))]
            ob.prove(pre, p, z3.And(*claims) if claims else True, label, ins, rp)
            if claims:
                ob.expect_sat(pre, p, same(A[0, 0], core.const(4242.0)), f"{label}/twin")

    return run


def obligations(tier, seed):
    obs = []
    vm = {1: 40, 2: 90, 3: 130} if tier == "quick" else {1: 200, 2: 700, 3: 1100}
    for n in (1, 2, 3):
        obs.append((f"grid/all-variables/n{n}", ob_grid("all", n, vm[n], label=f"grid/all-variables/n{n}")))
        obs.append((f"grid/each-variable/n{n}", ob_grid("each", n, 4 if n < 3 else 3, label=f"grid/each-variable/n{n}")))
    obs.append(("grid/all-variables/n2/inactive0", ob_grid("all", 2, 20, inactive=0, label="grid/all-variables/n2/inactive0")))
    # input variables need not have distinct names (unnamed variables share the name ""): columns are per variable, not per name
    obs.append(("grid/each-variable/n2/same-names", ob_grid("each", 2, 3, label="grid/each-variable/n2/same-names", same_names=True)))
    obs.append(("grid/outputs-only/disabled0/v3", ob_outputs_only(3, "grid/outputs-only/disabled0/v3")))
    for vfix in (2, 3):
        obs.append((f"grid/used-engine-lock-previous/v{vfix}", ob_used_engine(vfix, f"grid/used-engine-lock-previous/v{vfix}")))
    obs.append(("grid/each-variable/n2/disabled1", ob_grid("each", 2, 3, label="grid/each-variable/n2/disabled1", disabled=1)))
    obs.append(("grid/all-variables/n2/disabled0", ob_grid("all", 2, 9, label="grid/all-variables/n2/disabled0", disabled=0)))
    obs.append(("grid/each-variable/n3/inactive1", ob_grid("each", 3, 3, inactive=1, label="grid/each-variable/n3/inactive1")))
    # grids of more than a thousand rows (one table, one header, whatever the size): a window of values around 1024 and 33 x 33
    obs.append(("grid/each-variable/n1/large", ob_grid("each", 1, 1025, label="grid/each-variable/n1/large", vmin=1025)))
    if tier != "quick":
        obs.append(("grid/all-variables/n2/large", ob_grid("all", 2, 1089, label="grid/all-variables/n2/large", vmin=1089)))
        obs.append(("grid/each-variable/n1/larger", ob_grid("each", 1, 2049, label="grid/each-variable/n1/larger", vmin=2049)))
    for L in (1, 2, 3):
        obs.append((f"increment/len{L}", ob_increment(L, f"increment/len{L}")))
    for headers, inputs, outputs in itertools.product((True, False), repeat=3):
        if not inputs and not outputs:
            continue      # nothing selected: nothing to tabulate
        nm = f"rows/write/h{int(headers)}i{int(inputs)}o{int(outputs)}"
        obs.append((nm, ob_rows(headers, inputs, outputs, "write", nm)))
    for via in ("plain", "comments", "skip2"):
        nm = f"rows/reader/{via}"
        obs.append((nm, ob_rows(True, True, True, via, nm)))
    obs.append(("rows/write/reconfigured", ob_rows(True, True, True, "write", "rows/write/reconfigured", reconf=True)))
    obs.append(("rows/write/reconfigured-h0o0", ob_rows(False, True, False, "write", "rows/write/reconfigured-h0o0", reconf=True)))
    obs.append(("rows/reader/reconfigured", ob_rows(True, False, True, "plain", "rows/reader/reconfigured", reconf=True)))
    return obs
