"""C04  T-norms and S-norms compute their formulas and obey the norm laws."""
from __future__ import annotations

import numpy as np
import z3

from spec import norms as spec
from symfl import core
from symfl.core import S, set_mode, sym_array, tf, same, elements, kind_of
from symfl.install import install
from symfl.replay import lit, replay_fn

from .common import unit, is_val, between, rvar, all_same

PROPERTY = "C04"
EXPLANATION = ("Every registered TNorm/SNorm.compute is executed on symbolic a, b (and c, a') in [0,1]; the documented "
               "formula, range, commutativity, monotonicity, associativity, identity, annihilator, the min/max bound and "
               "the same-family duality are each one SMT query over all reals in [0,1] (Mode R), plus bit-exact IEEE-754 "
               "queries (Mode F) for the norms built from add/sub/compare only.")
BOUNDS = {
    "quick": {"operands": "all finite reals in [0,1] (Mode R: exact arithmetic, no rounding); all doubles in [0,1] (Mode F, "
                          "add/sub/compare-only norms)", "arrays": "1-D of 2 and (2,1)x(1,2) broadcast"},
    "thorough": {"operands": "as quick", "arrays": "1-D of 3 and (2,1)x(1,3) broadcast"},
}
OUTSIDE = ["rounding of the multiplicative norms (a+b-a*b may exceed 1 by an ulp): Mode R only",
           "operands outside [0,1], NaN operands", "NormLambda / NormFunction (user supplied)"]
ASSUMPTIONS = ["a, b, c in [0,1]", "Mode R: IEEE specials over exact reals (no rounding)"]
STUBS = []

LAWS_T = ["formula", "range", "commutative", "monotone", "associative", "identity", "annihilator", "le_min", "arrays", "kinds", "fresh"]
LAWS_S = ["formula", "range", "commutative", "monotone", "associative", "identity", "annihilator", "ge_max", "arrays", "kinds", "fresh"]
F_EXACT = ["Minimum", "Maximum", "BoundedDifference", "BoundedSum", "DrasticProduct", "DrasticSum",
           "NilpotentMinimum", "NilpotentMaximum", "UnboundedSum"]


def _norm(fl, name):
    return getattr(fl, name)()


def _replay(name, law, other=None):
    def body(v):
        a, b, c, a2 = (v.get(k, 0.0) for k in ("a", "b", "c", "a2"))
        lines = ["v = {" + ", ".join(f"{k!r}: {lit(x)}" for k, x in v.items()) + "}",
                 f"a, b, c, a2 = {lit(a)}, {lit(b)}, {lit(c)}, {lit(a2)}",
                 f"N = fl.{name}()",
                 "f = lambda a, b: float(N.compute(a, b))",
                 f"spec = lambda a, b: {spec.PY[name]}",
                 "tol = 1e-9"]
        chk = {
            "formula": "bad = not same(f(a,b), spec(a,b), tol)",
            "range": "bad = not (0.0 - tol <= f(a,b) <= 1.0 + tol)" if name != "UnboundedSum" else "bad = not same(f(a,b), a+b, tol)",
            "commutative": "bad = not same(f(a,b), f(b,a), tol)",
            "monotone": "bad = (a <= a2) and not (f(a,b) <= f(a2,b) + tol)",
            "associative": "bad = not same(f(f(a,b),c), f(a,f(b,c)), tol)",
            "identity": f"bad = not same(f(a,{'1.0' if name in spec.TNORMS else '0.0'}), a, tol)",
            "annihilator": f"bad = not same(f(a,{'0.0' if name in spec.TNORMS else '1.0'}), {'0.0' if name in spec.TNORMS else '1.0'}, tol)",
            "le_min": "bad = not (f(a,b) <= min(a,b) + tol)",
            "ge_max": "bad = not (f(a,b) >= max(a,b) - tol)",
            "arrays": "X = [v[k] for k in sorted(v) if k.startswith('x')]; Y = [v[k] for k in sorted(v) if k.startswith('y')]\n"
                      "A, B = np.array(X), np.array(Y); r = N.compute(A, B)\n"
                      "col, row = np.array([[X[0]], [X[1]]]), np.array([Y]); r2 = N.compute(col, row)\n"
                      "for p0, q0 in ((1.0, 1.0), (0.0, 0.0), (1.0, 0.0)):\n"
                      "    if not same(N.compute(np.array([p0, X[0], X[1]]), np.array([q0, Y[0], Y[1]])), [f(p0, q0), f(X[0], Y[0]), f(X[1], Y[1])], tol): verdict(True, 'an array whose first pair is (%r, %r): %r' % (p0, q0, N.compute(np.array([p0, X[0], X[1]]), np.array([q0, Y[0], Y[1]]))))\n"
                      "MA = np.array([[X[0], X[0], X[1]], [X[1], X[0], X[1]]]).T; MB = np.array([[Y[0], Y[1], Y[1]], [Y[0], Y[0], Y[1]]]).T; rT = N.compute(MA, MB)\n"
                      "for P, Q in ((np.array([X[0]]), np.array([Y[0]])), (np.array([[X[0]], [X[1]]]), np.array([[Y[0]], [Y[1]]])), (np.array([[X[0], X[1]]]), np.array([[Y[0], Y[1]]])), (np.array([[X[0]]]), np.array([Y[0]]))):\n"
                      "    if np.shape(N.compute(P, Q)) != np.broadcast_shapes(P.shape, Q.shape): verdict(True, 'shape %r for operands %r %r' % (np.shape(N.compute(P, Q)), P.shape, Q.shape))\n"
                      "bad = not (same(rT, np.vectorize(f)(MA, MB), tol) and same(r, [f(p, q) for p, q in zip(X, Y)], tol) and same(r2, [[f(p, q) for q in Y] for p in X[:2]], tol)"
                      " and same(A, X) and same(B, Y) and same(col, [[X[0]], [X[1]]]) and same(row, [Y]))",
            "dual": f"M = fl.{other}(); bad = not same(float(M.compute(a,b)), 1 - f(1-a,1-b), tol)" if other else "bad = False",
            "fresh": "r1 = np.asarray(N.compute(np.array([a, b]), np.array([c, a2])), dtype=float); r1 *= 0.5; r2 = N.compute(np.array([c, a2]), np.array([a, b]))\n"
                     "z1 = np.asarray(N.compute(np.array(a), np.array(b)), dtype=float); z1 *= 0.5; z2 = N.compute(np.array(b), np.array(a))\n"
                     "bad = not (same(r2, [spec(c, a), spec(a2, b)], tol) and same(z2, spec(b, a), tol))",
            "kinds": "pb, qb = bool(v.get('p', False)), bool(v.get('q', False))\n"
                     "r1 = N.compute(np.bool_(pb), np.bool_(qb)); r2 = N.compute(np.array([pb, qb]), np.array([qb, qb])); r3 = N.compute([a, b], [c, a2]); r4 = N.compute((a, b), np.array([c, a2]))\n"
                     "r5 = N.compute(float(a), float(b)); r6 = N.compute(float(a), np.float64(b))\n"
                     "bad = not (same(r5, spec(a, b), tol) and same(r6, spec(a, b), tol) and same(r1, spec(float(pb), float(qb)), tol) and same(r2, [spec(float(pb), float(qb)), spec(float(qb), float(qb))], tol)"
                     " and same(r3, [spec(a, c), spec(b, a2)], tol) and same(r4, [spec(a, c), spec(b, a2)], tol))",
        }[law]
        lines.append(chk)
        lines.append(f"verdict(bad, '{name}.{law} a=%r b=%r c=%r a2=%r -> %r' % (a,b,c,a2,f(a,b)))")
        return "\n".join(lines)

    return replay_fn(PROPERTY, f"{name}.{law}", body, key=f"{name}/{law}")


def _ob_law(name, law, is_t, tier):
    def run(ob):
        fl = install()
        set_mode("R")
        N = _norm(fl, name)
        a, b, c, a2 = rvar("a"), rvar("b"), rvar("c"), rvar("a2")
        pre = [unit(a), unit(b), unit(c), unit(a2)]
        ins = {"a": a, "b": b, "c": c, "a2": a2}
        f = spec.TNORMS[name] if is_t else spec.SNORMS[name]
        one, zero = core.const(1.0), core.const(0.0)

        def body():
            if law == "formula" or law == "range" or law in ("le_min", "ge_max"):
                return (N.compute(a, b),)
            if law == "commutative":
                return N.compute(a, b), N.compute(b, a)
            if law == "monotone":
                return N.compute(a, b), N.compute(a2, b)
            if law == "associative":
                return N.compute(N.compute(a, b), c), N.compute(a, N.compute(b, c))
            if law == "identity":
                return (N.compute(a, one if is_t else zero), N.compute(one if is_t else zero, a))
            if law == "annihilator":
                return (N.compute(a, zero if is_t else one), N.compute(zero if is_t else one, a))
            if law == "fresh":
                # the result of one call belongs to the caller: scaling it in place must not show in the result of the next call
                r1 = N.compute(sym_array([a, b]), sym_array([c, a2]))
                if isinstance(r1, (core.SymArray, np.ndarray)):
                    r1 *= 0.5
                r2 = N.compute(sym_array([c, a2]), sym_array([a, b]))
                z1 = N.compute(core.sym0d(a), core.sym0d(b))
                if isinstance(z1, (core.SymArray, np.ndarray)):
                    z1 *= 0.5
                z2 = N.compute(core.sym0d(b), core.sym0d(a))
                return r2, z2
            if law == "kinds":
                # operands that are not float64: crisp (boolean) degrees - whose own `+`/`*` are logical or/and - and Python sequences
                P, Q = core.SymBool(z3.Bool("p")), core.SymBool(z3.Bool("q"))
                S.pyfloats = True
                py = core.PyRFloat.of          # plain Python floats (ZeroDivisionError semantics until NumPy touches them)
                return (N.compute(P, Q), N.compute(sym_array([P, Q]), sym_array([Q, Q])), N.compute([a, b], [c, a2]), N.compute((a, b), sym_array([c, a2])), P, Q,
                        N.compute(py(a), py(b)), N.compute(py(a), b), N.compute(a, b))
            if law == "arrays":
                n = 2 if tier == "quick" else 3
                xs = [rvar(f"x{i}") for i in range(n)]
                ys = [rvar(f"y{i}") for i in range(n)]
                A, B = sym_array(xs), sym_array(ys)
                r1 = N.compute(A, B)
                col = sym_array([[xs[0]], [xs[1]]])
                row = sym_array([ys])
                r2 = N.compute(col, row)
                el1 = [N.compute(x, y) for x, y in zip(xs, ys)]
                el2 = [[N.compute(x, y) for y in ys] for x in xs[:2]]
                # memory layout: transposed views (Fortran order) of 2x3 operands hold the same logical elements
                MA = [[xs[0], xs[0], xs[1]], [xs[1], xs[0], xs[1]]]
                MB = [[ys[0], ys[1], ys[1]], [ys[0], ys[0], ys[1]]]
                rT = N.compute(sym_array(MA).T, sym_array(MB).T)
                eT = [N.compute(MA[i][j], MB[i][j]) for j in range(3) for i in range(2)]
                # operands with one element or with axes of length one: the result has the broadcast shape
                sing = [(N.compute(sym_array(p), sym_array(q)), np.broadcast_shapes(np.shape(np.array(p, dtype=object)), np.shape(np.array(q, dtype=object))))
                        for p, q in (([xs[0]], [ys[0]]), ([[xs[0]], [xs[1]]], [[ys[0]], [ys[1]]]), ([[xs[0], xs[1]]], [[ys[0], ys[1]]]), ([[xs[0]]], [ys[0]]))]
                # the FIRST pair of an array is a special pair ((1,1), (0,0), (1,0)): the other elements are computed as ever
                firsts = [(N.compute(sym_array([core.const(p0), xs[0], xs[1]]), sym_array([core.const(q0), ys[0], ys[1]])), [N.compute(core.const(p0), core.const(q0)), el1[0], el1[1]])
                          for p0, q0 in ((1.0, 1.0), (0.0, 0.0), (1.0, 0.0))]
                return r1, el1, r2, el2, xs, ys, (A, B, col, row), rT, eT, sing, firsts
            raise AssertionError(law)

        for p in ob.paths(pre, body):
            if p.exc is not None:
                if law == "arrays":
                    n = 2 if tier == "quick" else 3
                    ins2 = {f"x{i}": rvar(f"x{i}") for i in range(n)}
                    ins2.update({f"y{i}": rvar(f"y{i}") for i in range(n)})
                    ob.unexpected([unit(v) for v in ins2.values()], p, f"{name}/{law}", ins2, _replay(name, law))
                else:
                    ob.unexpected(pre, p, f"{name}/{law}", ins, _replay(name, law))
                continue
            r = p.result
            rp = _replay(name, law)
            if law == "formula":
                ob.prove(pre, p, is_val(r[0], f(a.v, b.v)), f"{name}/formula", ins, rp)
                ob.expect_sat(pre, p, is_val(r[0], f(a.v, b.v) + 1), f"{name}/formula/twin")
            elif law == "range":
                x = tf(r[0])
                if name == "UnboundedSum":
                    ob.prove(pre, p, is_val(x, a.v + b.v), f"{name}/range", ins, rp)
                else:
                    ob.prove(pre, p, between(x, 0, 1), f"{name}/range", ins, rp)
            elif law == "commutative":
                ob.prove(pre, p, same(r[0], r[1]), f"{name}/commutative", ins, rp)
            elif law == "monotone":
                ob.prove(pre + [a.v <= a2.v], p, tf(r[0]).v <= tf(r[1]).v, f"{name}/monotone", ins, rp)
                ob.expect_sat(pre + [a.v <= a2.v], p, tf(r[0]).v >= tf(r[1]).v, f"{name}/monotone/twin")
            elif law == "associative":
                ob.prove(pre, p, same(r[0], r[1]), f"{name}/associative", ins, rp)
            elif law == "identity":
                ob.prove(pre, p, z3.And(same(r[0], a), same(r[1], a)), f"{name}/identity", ins, rp)
            elif law == "annihilator":
                z = zero if is_t else one
                ob.prove(pre, p, z3.And(same(r[0], z), same(r[1], z)), f"{name}/annihilator", ins, rp)
            elif law == "le_min":
                x = tf(r[0])
                ob.prove(pre, p, z3.And(x.v <= a.v, x.v <= b.v), f"{name}/le_min", ins, rp)
            elif law == "ge_max":
                x = tf(r[0])
                ob.prove(pre, p, z3.And(x.v >= a.v, x.v >= b.v), f"{name}/ge_max", ins, rp)
            elif law == "fresh":
                r2, z2 = r
                e2 = core.elements(r2)
                if len(e2) != 2:
                    ob.prove(pre, p, False, f"{name}/fresh/shape {kind_of(r2)}", ins, rp)
                    continue
                ob.prove(pre, p, z3.And(is_val(e2[0], f(c.v, a.v)), is_val(e2[1], f(a2.v, b.v)), is_val(core.elements(z2)[0], f(b.v, a.v))), f"{name}/fresh-results", ins, rp)
            elif law == "kinds":
                r1, r2, r3, r4, P, Q, rpy, rmixed, rnp = r
                ob.prove(pre, p, z3.And(same(tf(rpy), tf(rnp)), same(tf(rmixed), tf(rnp))), f"{name}/kinds/python-floats", ins, rp)
                ins3 = dict(ins)
                ins3.update({"p": P, "q": Q})
                fz = lambda x: z3.If(x.e, z3.RealVal(1), z3.RealVal(0))   # noqa: E731
                if kind_of(r2) != ("array", (2,)) or kind_of(r3) != ("array", (2,)) or kind_of(r4) != ("array", (2,)):
                    ob.prove(pre, p, False, f"{name}/kinds/shape {kind_of(r2)} {kind_of(r3)} {kind_of(r4)}", ins3, rp)
                    continue
                e2, e3, e4 = core.elements(r2), core.elements(r3), core.elements(r4)
                ob.prove(pre, p, z3.And(is_val(r1, f(fz(P), fz(Q))), is_val(e2[0], f(fz(P), fz(Q))), is_val(e2[1], f(fz(Q), fz(Q)))), f"{name}/kinds/boolean", ins3, rp)
                ob.prove(pre, p, z3.And(is_val(e3[0], f(a.v, c.v)), is_val(e3[1], f(b.v, a2.v)), is_val(e4[0], f(a.v, c.v)), is_val(e4[1], f(b.v, a2.v))),
                         f"{name}/kinds/sequences", ins3, rp)
            elif law == "arrays":
                r1, el1, r2, el2, xs, ys, (A, B, col, row), rT, eT, sing, firsts = r
                pre2 = [unit(v) for v in xs + ys]
                n = len(xs)
                ins2 = {f"x{i}": x for i, x in enumerate(xs)}
                ins2.update({f"y{i}": y for i, y in enumerate(ys)})
                if kind_of(r1) != ("array", (n,)) or kind_of(r2) != ("array", (2, n)):
                    ob.prove(pre2, p, False, f"{name}/arrays/shape {kind_of(r1)} {kind_of(r2)}", ins2, rp)
                    continue
                wrong = [(kind_of(a), shp) for a, shp in sing if kind_of(a) != ("array", shp)]
                if wrong:
                    ob.prove(pre2, p, False, f"{name}/arrays/singleton-shape {wrong[0]}", ins2, rp)
                    continue
                if kind_of(rT) != ("array", (3, 2)):
                    ob.prove(pre2, p, False, f"{name}/arrays/transposed-shape {kind_of(rT)}", ins2, rp)
                    continue
                ob.prove(pre2, p, all_same(rT, eT), f"{name}/arrays/memory-layout", ins2, rp)
                ob.prove(pre2, p, z3.And([all_same(a, e) for a, e in firsts]), f"{name}/arrays/special-first-pair", ins2, rp)
                ob.prove(pre2, p, all_same(r1, el1), f"{name}/arrays/1d", ins2, rp)
                ob.prove(pre2, p, all_same(r2, [e for row in el2 for e in row]), f"{name}/arrays/broadcast", ins2, rp)
                ob.prove(pre2, p, z3.And(all_same(A, xs), all_same(B, ys), all_same(col, xs[:2]), all_same(row, ys)),
                         f"{name}/arrays/arguments-not-modified", ins2, rp)

    return run


def _ob_dual(t, s):
    def run(ob):
        fl = install()
        set_mode("R")
        T, Sn = _norm(fl, t), _norm(fl, s)
        a, b = rvar("a"), rvar("b")
        pre = [unit(a), unit(b)]

        def body():
            return Sn.compute(a, b), 1.0 - T.compute(1.0 - a, 1.0 - b)

        for p in ob.paths(pre, body):
            if p.exc is not None:
                ob.unexpected(pre, p, f"{t}~{s}/dual", {"a": a, "b": b}, _replay(t, "dual", s))
                continue
            ob.prove(pre, p, same(p.result[0], p.result[1]), f"{t}~{s}/dual", {"a": a, "b": b}, _replay(t, "dual", s))

    return run


def _ob_fexact_mul(name):
    """Mode F with the exact fp.mul / fp.div encodings, for the norms that multiply or divide: bit-exact equality with the documented
    formula evaluated in IEEE arithmetic in the documented order, for all doubles in [0,1] (subnormals included).  The terms coincide
    syntactically on a faithful implementation, so the query is instant; an algebraically equal form that loses small operands or
    divides first differs.  The replay compares with a relative tolerance of 1e-12: a form that merely rounds differently is reported
    as an unreproduced candidate, not as a violation.  (Range and commutativity in floats are NOT claimed here: a + b - a*b may exceed
    1 by an ulp.)"""

    def run(ob):
        fl = install()
        set_mode("F", fexact=True)
        ob.query_timeout_ms = 120000 if ob.tier == "quick" else 900000
        N = _norm(fl, name)
        a, b = core.var("a"), core.var("b")
        pre = [unit(a), unit(b)]
        R = core.RNE
        fa, fb = a.f, b.f
        ONE, ZERO, TWO = core.fv(1.0), core.fv(0.0), core.fv(2.0)
        add, mul = z3.fpAdd(R, fa, fb), z3.fpMul(R, fa, fb)
        expected = {
            "AlgebraicProduct": mul,
            "AlgebraicSum": z3.fpSub(R, add, mul),
            "EinsteinProduct": z3.fpDiv(R, mul, z3.fpSub(R, TWO, z3.fpSub(R, add, mul))),
            "EinsteinSum": z3.fpDiv(R, add, z3.fpAdd(R, ONE, mul)),
            "HamacherProduct": z3.If(z3.Not(z3.fpEQ(add, ZERO)), z3.fpDiv(R, mul, z3.fpSub(R, add, mul)), ZERO),
            "HamacherSum": z3.If(z3.Not(z3.fpEQ(mul, ONE)), z3.fpDiv(R, z3.fpSub(R, add, z3.fpMul(R, z3.fpMul(R, TWO, fa), fb)), z3.fpSub(R, ONE, mul)), ONE),
            "NormalizedSum": z3.fpDiv(R, add, z3.If(z3.Or(z3.fpIsNaN(ONE), z3.fpIsNaN(add)), core.fv(float("nan")), z3.fpMax(ONE, add))),      # np.maximum propagates NaN
        }[name]
        rpf = replay_fn(PROPERTY, f"{name}.Fx", lambda v: "\n".join([
            f"a, b = {lit(v['a'])}, {lit(v['b'])}", f"N = fl.{name}()", f"spec = lambda a, b: {spec.PY[name]}",
            "with np.errstate(all='ignore'): r = float(N.compute(a, b)); e = float(spec(a, b))",
            "rel = lambda x, y: x == y or (x != x and y != y) or abs(x - y) <= 1e-12 * max(abs(x), abs(y))",
            f"verdict(not rel(r, e), '{name} a=%r b=%r -> %r (documented %r)' % (a, b, r, e))"]), key=f"{name}/Fx")
        for p in ob.paths(pre, lambda: N.compute(a, b)):
            if p.exc is not None:
                ob.unexpected(pre, p, f"{name}/F/formula-exact", {"a": a, "b": b}, rpf)
                continue
            if ob.reachable(pre, p) is None:
                continue
            r0 = tf(p.result).f
            ob.prove(pre, p, z3.Or(z3.fpEQ(r0, expected), z3.And(z3.fpIsNaN(r0), z3.fpIsNaN(expected))), f"{name}/F/formula-exact", {"a": a, "b": b}, rpf)

    return run


def _ob_fexact(name, is_t):
    """Mode F: bit-exact equality with the documented formula evaluated in IEEE double arithmetic in the documented order,
    range and commutativity over all doubles in [0,1]."""

    def run(ob):
        fl = install()
        set_mode("F")
        N = _norm(fl, name)
        a, b = core.var("a"), core.var("b")
        pre = [unit(a), unit(b)]
        fa, fb = a.f, b.f
        ONE, ZERO = core.fv(1.0), core.fv(0.0)
        add = z3.fpAdd(core.RNE, fa, fb)
        mn, mx = z3.fpMin(fa, fb), z3.fpMax(fa, fb)
        expected = {
            "Minimum": mn, "Maximum": mx,
            "BoundedDifference": z3.fpMax(ZERO, z3.fpSub(core.RNE, add, ONE)),
            "BoundedSum": z3.fpMin(ONE, add),
            "DrasticProduct": z3.If(z3.fpEQ(mx, ONE), mn, ZERO),
            "DrasticSum": z3.If(z3.fpEQ(mn, ZERO), mx, ONE),
            "NilpotentMinimum": z3.If(z3.fpGT(add, ONE), mn, ZERO),
            "NilpotentMaximum": z3.If(z3.fpLT(add, ONE), mx, ONE),
            "UnboundedSum": add,
        }[name]

        def body():
            return N.compute(a, b), N.compute(b, a)

        def rp(v):
            return None

        rpf = replay_fn(PROPERTY, f"{name}.F", lambda v: "\n".join([
            f"a, b = {lit(v['a'])}, {lit(v['b'])}", f"N = fl.{name}()", f"spec = lambda a, b: {spec.PY[name]}",
            "r = float(N.compute(a, b)); r2 = float(N.compute(b, a))",
            "bad = (r != spec(a, b)) or (r != r2)" + ("" if name == "UnboundedSum" else " or not (0.0 <= r <= 1.0)"),
            f"verdict(bad, '{name} a=%r b=%r -> %r (spec %r, swapped %r)' % (a, b, r, spec(a, b), r2))"]), key=f"{name}/F")
        for p in ob.paths(pre, body):
            if p.exc is not None:
                ob.unexpected(pre, p, f"{name}/F", {"a": a, "b": b}, rpf)
                continue
            r0, r1 = tf(p.result[0]), tf(p.result[1])
            ins = {"a": a, "b": b}
            ob.prove(pre, p, z3.fpEQ(r0.f, expected), f"{name}/F/formula", ins, rpf)
            ob.prove(pre, p, z3.fpEQ(r0.f, r1.f), f"{name}/F/commutative", ins, rpf)
            if name != "UnboundedSum":
                ob.prove(pre, p, z3.And(z3.fpGEQ(r0.f, ZERO), z3.fpLEQ(r0.f, ONE)), f"{name}/F/range", ins, rpf)
            ob.expect_sat(pre, p, z3.Not(z3.fpEQ(r0.f, expected)), f"{name}/F/twin")

    return run


def _obligations(tier, seed):
    obs = []
    for name in spec.TNORMS:
        for law in LAWS_T:
            obs.append((f"{name}/R/{law}", _ob_law(name, law, True, tier)))
    for name in spec.SNORMS:
        for law in LAWS_S:
            if name == "NormalizedSum" and law == "associative":
                continue            # excluded by the statement
            if name == "UnboundedSum" and law in ("annihilator", "ge_max", "associative", "monotone", "commutative", "identity"):
                # statement: bounded S-norm laws do not apply; keep formula/range(a+b)/arrays (+ cheap algebraic ones)
                if law in ("annihilator",):
                    continue
            obs.append((f"{name}/R/{law}", _ob_law(name, law, False, tier)))
    for t, s in spec.DUALS:
        obs.append((f"{t}~{s}/R/dual", _ob_dual(t, s)))
    for name in F_EXACT:
        obs.append((f"{name}/F/exact", _ob_fexact(name, name in spec.TNORMS)))
    for name in ("AlgebraicProduct", "AlgebraicSum", "EinsteinProduct", "EinsteinSum", "HamacherProduct", "HamacherSum", "NormalizedSum"):
        obs.append((f"{name}/F/formula-exact", _ob_fexact_mul(name)))
    return obs


def obligations(tier, seed):
    from . import conform
    return _obligations(tier, seed) + conform.obligations(PROPERTY, tier)
