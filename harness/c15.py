"""C15  Python export reconstructs an identical engine."""
from __future__ import annotations

import z3

from symfl import core, install as inst
from symfl.core import S, set_mode, tf, same, ZB, elements, SymFloat, SymArray
from symfl.install import install
from symfl.replay import lit, replay_fn

from . import regeng
from .c14 import compare, make_syms, spec_pre, sym_float_builtin, PY_COMPARE, GRID
from .catalog import catalog, base, T_A, T_B, O_A, O_B
from .common import rvar

PROPERTY = "C15"
EXPLANATION = ("The catalogue engines of C14 (every registered component class, flags, special numbers, hedged rules, rule weights, keyword-like "
               "names) are built with every numeric parameter symbolic. For each library alias ('fl', '', '*', a custom one - one after another "
               "in the same process) the real repr(engine) and PythonExporter(formatted, encapsulated).to_string(engine) produce code in which "
               "symbolic numbers appear as placeholder identifiers; the library's own import_statement() is executed and the code is "
               "eval/exec-uted in a namespace that maps the placeholders back. Per path (the real code forks on is_close(height,1), default-"
               "valued fields, resolution == default, type == Automatic): repr and FLL export of the rebuilt engine equal the original's, no "
               "numeric field can differ (SMT), outputs on symbolic inputs cannot differ, and the same holds for each component alone.")
BOUNDS = {"quick": {"engines": "the C14 catalogue + negative zero / infinities / NaN parameters", "aliases": "fl, '', '*', flx in sequence",
                    "forms": "repr; PythonExporter plain+unformatted, encapsulated+unformatted, encapsulated+formatted (black runs concretely) on a subset"},
          "thorough": {"forms": "all four forms for every engine"}}
OUTSIDE = ["black's formatting is executed concretely, not modelled", "digit-level repr(float) (numbers travel as placeholder identifiers)",
           "NormLambda / HedgeLambda / user classes (not representable)"]
ASSUMPTIONS = ["rule weights representable at the configured decimals; heights and weights 1 or further from 1 than the tolerance"]
STUBS = ["repr() of a symbolic number -> placeholder identifier resolved by the evaluation namespace", "Representation.repr_SymArray = Representation.repr_ndarray "
         "(reprlib dispatches on the type name)", "float shadowed in fuzzylite.rule (rule weights inside rule texts)"]
OB_BUDGET_S = {"quick": 280, "thorough": 1800}
TOTAL_BUDGET_S = {"quick": 600, "thorough": 3300}

ALIASES = ("fl", "", "*", "flx")


def extra_catalog():
    out = []
    nz = -0.0
    out.append(("special/negative-zero", lambda sym: base(outputs=[{"name": "O", "terms": [("Constant", "a", nz), ("Constant", "b", sym("c1", "p"))], "aggregation": None,
                                                                    "defuzzifier": ("WeightedAverage",), "default": nz}],
                                                          blocks=[{"name": "rb", "conjunction": None, "disjunction": None, "implication": None, "activation": ("Threshold", ">=", nz),
                                                                   "rules": ["if X is a then O is a", "if X is b then O is b"]}])))
    inf = float("inf")
    out.append(("special/infinities+nan", lambda sym: base(inputs=[{"name": "X", "range": (-inf, inf), "terms": [("Ramp", "a", -inf, sym("r1", "p")), ("Binary", "b", sym("b0", "p"), inf),
                                                                                                                  ("Trapezoid", "c", -inf, sym("t1", "p"), sym("t2", "p"), inf)]}],
                                                           outputs=[{"name": "O", "terms": [O_A, O_B], "aggregation": "Maximum", "defuzzifier": ("Centroid", 2), "default": float("nan"),
                                                                     "range": (sym("olo", "p"), sym("ohi", "p"))}], valid_range=[("olo", "ohi")], compare_outputs=False)))
    # constructor shortcuts (Triangle / Trapezoid built from their two outer vertices) with infinite outer vertices: the inner vertices
    # come out as NaN, and the representation (which spells out all vertices) must rebuild exactly that term
    out.append(("special/shortcut-constructors", lambda sym: base(
        inputs=[{"name": "X", "range": (-inf, inf), "terms": [("Trapezoid", "a", -inf, sym("t1", "p")), ("Trapezoid", "b", sym("t2", "p"), inf), ("Triangle", "c", -inf, sym("t3", "p")),
                                                              ("Triangle", "d", sym("t4", "p"), sym("t5", "p")), ("Trapezoid", "e", sym("t6", "p"), sym("t7", "p"))]}],
        blocks=[{"name": "rb", "conjunction": "Minimum", "disjunction": "Maximum", "implication": "Minimum", "activation": ("General",),
                 "rules": ["if X is a or X is e then O is a", "if X is not b and X is d then O is b", "if X is c then O is a"]}],
        valid_range=[("t4", "t5"), ("t6", "t7")], compare_outputs=False)))
    # containers and strings beyond reprlib's default limits (6 list/tuple items, 4 dict entries, 30 characters, 6 levels)
    def make_sizes(sym):
        xs = [sym(f"dx{i}", "p") for i in range(8)]
        ys = [sym(f"dy{i}", "u") for i in range(8)]
        many_terms = [("Triangle", f"t{i}", float(i), float(i) + 0.5, float(i) + 1.0) for i in range(8)]
        fvars = {"va": sym("va", "p"), "vb": -2.0, "vc": 0.001, "vd": 7.25, "ve": float("inf"), "vf": sym("vf", "p"), "vg": 0.5}
        rules = [f"if X is t{i} then O is a" for i in range(8)] + ["if X is d and Y is t0 or X is t1 and Y is t2 or X is t3 and Y is t4 or X is t5 then O is f with 0.5"]
        return {"name": "sizes", "description": "a description that is considerably longer than thirty characters, to be kept in full",
                "inputs": [{"name": "X", "description": "x" * 45, "terms": many_terms + [("Discrete", "d", xs, ys)]}, {"name": "Y", "terms": many_terms[:5]}],
                "outputs": [{"name": "O", "terms": [("Constant", "a", sym("c", "p")), ("Linear", "l", [sym("l0", "p"), 0.25, -0.5, 0.125, 2.0, -3.0, 0.75, 1.5]),
                                                    ("Function", "f", "va * X + vb - vc * vd + vf / vg + min(ve, Y)", fvars)],
                             "aggregation": None, "defuzzifier": ("WeightedAverage",)}],
                "blocks": [{"name": "rules", "description": "y" * 40, "conjunction": "Minimum", "disjunction": "Maximum", "implication": None, "activation": ("General",), "rules": rules}],
                "valid_range": [(f"dx{i}", f"dx{i + 1}") for i in range(7)], "compare_outputs": False}
    out.append(("sizes/beyond-reprlib-defaults", make_sizes))
    return out


def rebuild(fl, code, form, ns, engine_name):
    if form == "repr" or form == "plain":
        return eval(code, ns)
    exec(code, ns)
    cls = ns[fl.Op.pascal_case(engine_name)]
    return cls().engine


def ob_engine(name, make, tier, label, unit_heights=False, forms=("repr",)):
    def run(ob):
        fl = install()
        set_mode("R")
        S.box_scalars = True
        R = type(fl.library.representation)
        if not hasattr(R, "repr_SymArray"):
            R.repr_SymArray = R.repr_ndarray
        build = regeng.builder(fl)
        pre, ins = [], {}
        sym = make_syms(pre, ins, unit_heights)
        spec = make(sym)
        pre += spec_pre(spec, ins)
        names_in = [iv["name"] for iv in spec["inputs"]]
        X = {v: rvar(f"x_{v}") for v in names_in}
        for v, x in X.items():
            ins[f"x_{v}"] = x
        rev = {id(x): n for n, x in ins.items()}
        do_out = spec.get("compare_outputs", True)
        core_spec = {k: val for k, val in spec.items() if k in ("name", "description", "inputs", "outputs", "blocks", "share_components", "assign")}
        core_spec.setdefault("name", "demo")

        def rbody(v):
            g = lambda val: round(float(val) * GRID) / GRID
            sp = regeng.spec_literal(core_spec, lit, lambda x: (g(v[rev[id(x)]]) if rev[id(x)].startswith("w") else v[rev[id(x)]]))
            wl = "{" + ", ".join(f"{k!r}: {lit(g(v[rev[id(w)]]) if id(w) in rev else w)}" for k, w in spec.get("weights", {}).items()) + "}"
            return "\n".join([regeng.PY_BUILD, PY_COMPARE, f"spec = {sp}", f"weights = {wl}", "import warnings; warnings.simplefilter('ignore')",
                              "e = build_engine(spec, weights)", "bad = []",
                              f"for alias in {ALIASES!r}:",
                              "    with fl.settings.context(alias=alias):",
                              f"        for form in {forms!r}:",
                              "            ns = {}; exec(fl.library.representation.import_statement(), ns)",
                              "            if form == 'repr': code = repr(e)",
                              "            else: code = fl.PythonExporter(formatted=form.endswith('formatted') and not form.endswith('unformatted'), encapsulated=form.startswith('encapsulated')).to_string(e)",
                              "            try:",
                              "                if form in ('repr', 'plain-unformatted', 'plain-formatted'): e2 = eval(code, ns)",
                              "                else: exec(code, ns); e2 = ns[fl.Op.pascal_case(e.name)]().engine",
                              "            except Exception as ex: bad.append('alias %r form %s: generated code does not evaluate: %r' % (alias, form, ex)); continue",
                              "            if repr(e2) != repr(e): bad.append('alias %r form %s: repr differs' % (alias, form))",
                              "            if fl.FllExporter().to_string(e2) != fl.FllExporter().to_string(e): bad.append('alias %r form %s: FLL export differs' % (alias, form))",
                              "            compare(e, e2, 'engine', bad, set())",
                              f"            if {do_out}:",
                              f"                inputs = {{{', '.join(f'{n!r}: {lit(v[f'x_{n}'])}' for n in names_in)}}}",
                              "                for eng in (e, e2):",
                              "                    for n, x in inputs.items(): eng.input_variable(n).value = x",
                              "                    eng.process()",
                              "                for a, b in zip(e.output_variables, e2.output_variables):",
                              "                    if not same(a.value, b.value) or (np.signbit(a.value) != np.signbit(b.value)).any(): bad.append('alias %r form %s output %s: %r vs %r' % (alias, form, a.name, a.value, b.value))",
                              f"verdict(bool(bad), {name!r} + ': ' + '; '.join(bad)[:1500])"])

        rp = replay_fn(PROPERTY, label, rbody, key=None)
        # recorded finding (known_findings.json): a Triangle / Trapezoid whose LAST vertex is NaN is written as a constructor call whose
        # NaN argument the constructor reads as its two-vertex shorthand.  Signature: the rebuilt engine is exactly the engine the
        # constructors make of those arguments (spec["shorthand_spec"]); anything else is reported under the obligation's own name
        rp_known = replay_fn(PROPERTY, label, rbody, key=KNOWN_NAN_LAST_VERTEX)
        short_spec = spec.get("shorthand_spec")

        def components(e):
            cs = []
            for v in e.variables:
                cs.append(v)
                cs += list(v.terms)
            for ov in e.output_variables:
                cs += [c for c in (ov.aggregation, ov.defuzzifier) if c is not None]
            for rb in e.rule_blocks:
                cs.append(rb)
                cs += [c for c in (rb.conjunction, rb.disjunction, rb.implication, rb.activation) if c is not None]
                cs += list(rb.rules)
            return cs

        def body():
            S.tokens.clear()
            S.token_of.clear()
            results = []
            with inst.shadow(fl.rule, float=sym_float_builtin):
                e = build(core_spec, spec.get("weights"))
                e_short = build(dict(short_spec, name=core_spec["name"]), spec.get("weights")) if short_spec else None
                fll0 = fl.FllExporter().to_string(e)
                for alias in ALIASES:
                    with fl.settings.context(alias=alias):
                        r0 = repr(e)
                        for form in forms:
                            ns = {}
                            exec(fl.library.representation.import_statement(), ns)
                            ns.update(S.tokens)
                            if form == "repr":
                                code = r0
                            else:
                                code = fl.PythonExporter(formatted=form.endswith("-formatted"), encapsulated=form.startswith("encapsulated")).to_string(e)
                            ns.update(S.tokens)
                            if form in ("repr", "plain-unformatted", "plain-formatted"):
                                e2 = eval(code, ns)
                            else:
                                exec(code, ns)
                                e2 = ns[fl.Op.pascal_case(e.name)]().engine
                            outs = None
                            if do_out and alias in ("fl", "*"):
                                outs = []
                                for eng in (e, e2):
                                    for n, x in X.items():
                                        eng.input_variable(n).value = x
                                    eng.process()
                                    outs.append([ov.value for ov in eng.output_variables])
                                for eng in (e, e2):
                                    eng.restart()
                            sig = e_short is not None and repr(e2) == repr(e_short) and fl.FllExporter().to_string(e2) == fl.FllExporter().to_string(e_short)
                            results.append((alias, form, e2, repr(e2) == r0, fl.FllExporter().to_string(e2) == fll0, outs, sig))
                        # every component on its own
                        comp_bad = []
                        if alias in ("fl", "flx"):
                            for c in components(e):
                                ns = {}
                                exec(fl.library.representation.import_statement(), ns)
                                rc = repr(c)
                                ns.update(S.tokens)
                                try:
                                    c2 = eval(rc, ns)
                                    if repr(c2) != rc:
                                        comp_bad.append(f"{type(c).__name__}: repr of the rebuilt component differs: {rc[:80]} vs {repr(c2)[:80]}")
                                except core.Abort:
                                    raise
                                except Exception as ex:  # noqa
                                    comp_bad.append(f"{type(c).__name__}: {rc[:80]} does not evaluate: {ex!r}")
                        results.append((alias, "components", None, not comp_bad, comp_bad, None, e_short is not None and all("Triangle" in b or "Trapezoid" in b for b in comp_bad)))
            return e, results

        rp_plain = rp
        for p in ob.paths(pre, body):
            if p.exc is not None:
                ob.unexpected(pre, p, label, ins, rp_plain)
                continue
            e, results = p.result
            for alias, form, e2, repr_ok, fll_ok, outs, sig in results:
                lab = f"{label}/alias={alias!r}/{form}"
                rp = rp_known if sig else rp_plain
                if form == "components":
                    ob.prove(pre, p, bool(repr_ok), f"{lab}: {fll_ok[:3]}", ins, rp)
                    continue
                ob.prove(pre, p, bool(repr_ok), f"{lab}: repr of the rebuilt engine differs", ins, rp)
                ob.prove(pre, p, bool(fll_ok), f"{lab}: FLL export of the rebuilt engine differs", ins, rp)
                numeric, problems = [], []
                compare(fl, e, e2, "engine", numeric, problems)
                ob.prove(pre, p, not problems, f"{lab}: structure differs: {problems[:4]}", ins, rp)
                diff = [same(x, y) for _, x, y in numeric if x is not y]
                if diff:
                    ob.prove(pre, p, z3.And(*diff), f"{lab}/fields", ins, rp)
                if outs is not None:
                    claims = []
                    for a, b in zip(*outs):
                        ea, eb = elements(a), elements(b)
                        claims.append(z3.And(*[same(x, y) for x, y in zip(ea, eb)]) if len(ea) == len(eb) else z3.BoolVal(False))
                    ob.prove(pre, p, z3.And(*claims), f"{lab}/outputs", ins, rp)
            ob.r.vacuity_ok += 1

    return run


KNOWN_NAN_LAST_VERTEX = "repr/nan-last-vertex-read-as-two-vertex-shorthand"


def obligations(tier, seed):
    obs = []
    entries = catalog(tier) + extra_catalog()
    all_forms = ("repr", "plain-unformatted", "encapsulated-unformatted", "encapsulated-formatted")
    rich = {"flags+descriptions+hedges", "rule-weights", "term/Constant+Linear+Function", "term/Discrete", "names/keywords", "special/negative-zero", "special/infinities+nan", "sizes/beyond-reprlib-defaults", "special/shortcut-constructors"}
    for name, make in entries:
        if name == "term/Discrete-infinite-ends":
            continue      # (C14 only: the shim writes concrete infinities inside a symbolic array itself, as bare `inf`; the library's row writer is not executed for them)
        forms = all_forms if (tier != "quick" or name in rich) else ("repr",)
        obs.append((f"python/{name}", ob_engine(name, make, tier, f"python/{name}", forms=forms)))
        used = set()
        make(make_syms([], {}, True, used))
        if used & {"h", "w"}:
            obs.append((f"python/{name}/unit-height", ob_engine(name, make, tier, f"python/{name}/unit-height", unit_heights=True, forms=forms)))
    return obs
