"""C13  Processing is history-free; restart and copy give clean independent engines."""
from __future__ import annotations

import z3

from symfl import core
from symfl.core import S, set_mode, sym_array, tf, same, ZB, elements, SymFloat, SymArray
from symfl.install import install
from symfl.replay import lit, replay_fn

from . import regeng
from .c02 import engines
from .common import rvar, wf

PROPERTY = "C13"
EXPLANATION = ("Operation sequences over {set inputs + process, restart, copy, edit a parameter / rule weight of one engine, toggle-and-"
               "restore an enabled flag, batch step} run on engines of registered components (Mamdani, Takagi-Sugeno with Linear and "
               "Function terms holding engine references, Tsukamoto, hedged consequents, two blocks with an output variable in an "
               "antecedent), lock-previous off, with the inputs of every step and the edited value symbolic (all extended reals). After "
               "each processing step the solver is asked whether the outputs can differ from those of a freshly built engine given only "
               "that step's inputs (both computed by the real code); an edit of the copy must not show in the original and vice versa "
               "(the edited value is a fresh symbol); after restart the engine state equals a fresh engine's; after copy the mutable "
               "object graphs are disjoint and engine references of Linear/Function terms and loaded rules point into the copy.")
BOUNDS = {"quick": {"sequences": "10 sequence shapes of up to 5 operations x 6 engines", "inputs": "all extended reals per step and input"},
          "thorough": {"sequences": "as quick plus all orders of {copy, restart, toggle} between three processing steps"}}
OUTSIDE = ["sequences longer than the bound", "lock-previous on (history is intended there: C12)", "rounding (Mode R)"]
ASSUMPTIONS = ["Mode R: IEEE specials over exact reals", "the edited values keep the engine well-formed (weight in [0,1], term parameter finite)"]
STUBS = []
OB_BUDGET_S = {"quick": 240, "thorough": 1500}

# how to edit one parameter of an engine (by engine name): python statements over `e` and the value `q`
EDITS = {
    "mamdani-centroid": "e.output_variable('O').term('a').top = q",
    "takagi-sugeno": "e.output_variable('O').term('b').coefficients[0] = q",
    "tsukamoto": "e.output_variable('O').term('a').end = q",
    "hedged-consequent": "e.input_variable('X').term('a').top = q",
    "two-blocks-output-antecedent": "e.output_variable('P').term('a').value = q",
    "takagi-sugeno-sum": "e.output_variable('O').term('b').value = q",
    "multi-conclusion-hedged": "e.output_variable('P').term('b').top = q",
    "function-input": "e.output_variable('O').term('a').top = q",
    "first-activation": "e.output_variable('O').term('a').top = q",
    "last-activation": "e.output_variable('O').term('a').top = q",
}
ENGINES = list(EDITS)


def extra_engines(E):
    """engines of this check only: activation methods that decide rule by rule and keep no state between activations (they reject
    batches, so the sequences with batch steps are left out for them)"""
    import copy
    for name, act in (("first-activation", ("First", 1, 0.0)), ("last-activation", ("Last", 1, 0.25))):
        sp = copy.deepcopy(E["mamdani-centroid"])
        sp["blocks"][0]["activation"] = act
        E[name] = sp
    return E

SEQS = {
    "twice": ["P0", "P0"],
    "no-trace": ["P0", "P1"],
    "restart": ["P0", "R", "CHECK_RESTARTED", "P1"],
    "copy-then-both": ["P0", "C", "cP1", "P2", "cP0"],
    "copy-fresh-then-edit-copy": ["C", "cE", "P0", "cP0"],
    "edit-original-after-copy": ["P0", "C", "E", "cP1", "P1"],
    "edit-weight-of-copy": ["C", "cW", "P0", "cP0"],
    "toggle-block": ["Tb", "P0", "Ub", "P1"],
    "toggle-rule-restart": ["P0", "Tr", "P1", "Ur", "R", "P2"],
    "batch-then-scalar": ["B0", "P1", "B2"],
    "copy-of-restarted": ["P0", "R", "C", "cP1", "cCHECK_GRAPH"],
    "weight-then-copy": ["W", "P0", "C", "cP0", "cP1", "P1"],          # a copy carries the rule weight as it is (all its digits)
    "copy-twice": ["P0", "C", "cE", "cP1", "C", "cCHECK_GRAPH", "cP0", "P1"],          # the second copy is again a copy of the ORIGINAL as it is now
    "copy-again-after-edit": ["C", "cP0", "E", "C", "cP1", "P1"],
    "toggle-variable": ["Tv", "P0", "Uv", "P1"],
    "restart-while-output-disabled": ["P0", "Tv", "R", "Uv", "CHECK_RESTARTED", "P1"],
    "restart-while-input-disabled": ["P0", "Ti", "R", "Ui", "CHECK_RESTARTED", "P1"],
    "process-again": ["P0", "A", "A", "P1", "A"],            # A: process once more without touching the inputs
    "batch-again": ["B0", "A", "C", "cA", "A"],
}


def _outputs(e):
    return [ov.value for ov in e.output_variables], [[a.degree for a in ov.fuzzy.terms] for ov in e.output_variables]


def graph_disjoint(fl, e, c):
    """concrete: mutable objects reachable from e and from c are disjoint; references of c point into c"""
    import types

    def walk(root):
        seen = {}
        stack = [root]
        while stack:
            o = stack.pop()
            if id(o) in seen or isinstance(o, (str, bytes, int, float, bool, type(None), types.FunctionType, types.BuiltinFunctionType, type,
                                               SymFloat, core.SymBool, core.SymInt)):
                continue
            mod = type(o).__module__
            if isinstance(o, (list, dict, set, tuple)):
                if not isinstance(o, tuple):
                    seen[id(o)] = o
                stack.extend(o.values() if isinstance(o, dict) else o)
            elif mod.startswith("fuzzylite"):
                if isinstance(o, __import__("enum").Enum):
                    continue
                seen[id(o)] = o
                stack.extend(vars(o).values() if hasattr(o, "__dict__") else [])
        return seen

    a, b = walk(e), walk(c)
    shared = [type(a[i]).__name__ for i in a if i in b]
    problems = [f"shared mutable objects: {sorted(set(shared))}"] if shared else []
    cvars = {id(v) for v in c.variables}
    cterms = {id(t) for v in c.variables for t in v.terms}
    for v in c.variables:
        for t in v.terms:
            if isinstance(t, (fl.Linear, fl.Function)) and t.engine is not c:
                problems.append(f"{type(t).__name__} term '{t.name}' of the copy references another engine")
    for rb in c.rule_blocks:
        for r in rb.rules:
            if not r.is_loaded():
                problems.append(f"rule '{r.text}' of the copy is not loaded")
                continue
            props = list(r.consequent.conclusions)
            stack = [r.antecedent.expression]
            while stack:
                n = stack.pop()
                if isinstance(n, fl.rule.Proposition):
                    props.append(n)
                elif n is not None:
                    stack += [n.left, n.right]
            for pr in props:
                if id(pr.variable) not in cvars or (pr.term is not None and id(pr.term) not in cterms):
                    problems.append(f"rule '{r.text}' of the copy refers to a variable/term outside the copy")
    return problems


def ob_sequence(ename, spec, sname, seq, label):
    # (S.format_decimals = 17 below: no parameter is assumed to lie on a decimals grid here, so any text made of a number with fewer
    #  decimals stands for the ROUNDED number - a copy that goes through a rule's text loses digits of the weight)
    def run(ob):
        fl = install()
        set_mode("R")
        S.format_decimals = 17
        build = regeng.builder(fl)
        names_in = [iv["name"] for iv in spec["inputs"]]
        nsteps = 1 + max([int(op.lstrip("c")[1:]) for op in seq if op.lstrip("c")[0] in "PB" and op.lstrip("c")[1:].isdigit()] + [0])
        X = [[rvar(f"x{k}_{v}", special=True) for v in names_in] for k in range(nsteps)]
        X2 = [[rvar(f"y{k}_{v}", special=True) for v in names_in] for k in range(nsteps)]     # second row of batch steps
        q = rvar("q")
        pre = wf(*[x for row in X + X2 for x in row]) + [q.v >= 0, q.v <= 1]
        ins = {f"x{k}_{v}": X[k][i] for k in range(nsteps) for i, v in enumerate(names_in)}
        ins.update({f"y{k}_{v}": X2[k][i] for k in range(nsteps) for i, v in enumerate(names_in)})
        ins["q"] = q
        edit_src = EDITS[ename]

        def apply_edit(e, kind, qv):
            if kind == "E":
                target, attr = edit_src.split(" = ")[0].rsplit(".", 1) if "[" not in edit_src.split(" = ")[0].rsplit(".", 1)[-1] else (None, None)
                if target is not None and not hasattr(eval(target, {"e": e}), attr):
                    raise AssertionError(f"edit {edit_src!r}: the object has no attribute {attr!r} (the edit would be vacuous)")
                exec(edit_src, {"e": e, "q": qv})
            else:
                e.rule_blocks[0].rules[0].weight = qv

        def execute(fresh_factory, setrow, setbatch, qv):
            """runs the sequence; returns list of (label, got (values, degrees), expected (values, degrees) or concrete problems)"""
            checks = []
            e = fresh_factory([])
            c = None
            edits_e, edits_c = [], []       # edits applied so far to original / copy (replayed on the fresh engines)
            toggled = {}
            last_step = None
            for op in seq:
                on_copy = op.startswith("c")
                o = op[1:] if on_copy else op
                tgt = c if on_copy else e
                eds = edits_c if on_copy else edits_e
                if o == "A":
                    kind, k = last_step
                    fr = fresh_factory(eds)
                    (setrow if kind == "P" else setbatch)(fr, k)
                    tgt.process()
                    fr.process()
                    checks.append((f"{op}", _outputs(tgt), _outputs(fr)))
                    checks.append((f"{op}/inputs-untouched", _inputs(tgt), _inputs_expected(kind, k)))
                elif o[0] == "P" or o[0] == "B":
                    k = int(o[1:])
                    last_step = (o[0], k)
                    fr = fresh_factory(eds)
                    # replicate current toggles on the fresh engine (toggles are part of the configuration at this step)
                    for (who, kind, idx), val in toggled.items():
                        if who == ("c" if on_copy else "e"):
                            _toggle(fr, kind, idx, val)
                    if o[0] == "P":
                        setrow(tgt, k)
                        setrow(fr, k)
                    else:
                        setbatch(tgt, k)
                        setbatch(fr, k)
                    tgt.process()
                    fr.process()
                    checks.append((f"{op}", _outputs(tgt), _outputs(fr)))
                    checks.append((f"{op}/inputs-untouched", _inputs(tgt), _inputs_expected(o[0], k)))
                elif o == "R":
                    tgt.restart()
                elif o == "CHECK_RESTARTED":
                    fr = fresh_factory(eds)
                    probs = []
                    for a, b in zip(tgt.input_variables, fr.input_variables):
                        if not _is_nan(a.value):
                            probs.append(f"input {a.name} = {a.value!r} after restart")
                    for a in tgt.output_variables:
                        if not _is_nan(a.value) or not _is_nan(a.previous_value) or a.fuzzy.terms:
                            probs.append(f"output {a.name}: value {a.value!r} previous {a.previous_value!r} fuzzy {len(a.fuzzy.terms)} after restart")
                    for rb in tgt.rule_blocks:
                        for r in rb.rules:
                            if not r.is_loaded() or bool(r.triggered) or not _is_zero(r.activation_degree):
                                probs.append(f"rule '{r.text}' loaded={r.is_loaded()} triggered={r.triggered} degree={r.activation_degree!r} after restart")
                    checks.append((op, probs, None))
                elif o == "C":
                    c = e.copy()
                    edits_c = list(edits_e)
                    for (who, kind, idx), val in list(toggled.items()):     # the copy is a copy of the configuration as it is now
                        if who == "e":
                            toggled[("c", kind, idx)] = val
                    checks.append((op, graph_disjoint(fl, e, c), None))
                elif o == "CHECK_GRAPH":
                    checks.append((op, graph_disjoint(fl, e, c), None))
                elif o in ("E", "W"):
                    apply_edit(tgt, o, qv)
                    eds.append(o)
                elif o[0] == "T":
                    _toggle(tgt, o[1], 0, False)
                    toggled[("c" if on_copy else "e", o[1], 0)] = False
                elif o[0] == "U":
                    _toggle(tgt, o[1], 0, True)
                    toggled.pop(("c" if on_copy else "e", o[1], 0), None)
                else:
                    raise AssertionError(op)
            return checks

        def _inputs(eng):
            return [iv.value for iv in eng.input_variables], []

        def _inputs_expected(kind, k):
            return ([X[k][i] for i in range(len(names_in))] if kind == "P" else [sym_array([X[k][i], X2[k][i]]) for i in range(len(names_in))]), []

        def _toggle(eng, kind, idx, val):
            if kind == "b":
                eng.rule_blocks[idx].enabled = val
            elif kind == "r":
                eng.rule_blocks[0].rules[idx].enabled = val
            elif kind == "i":
                eng.input_variables[idx].enabled = val
            else:
                eng.output_variables[idx].enabled = val

        def _is_nan(v):
            els = elements(v)
            return len(els) == 1 and bool(core._isnan(els[0]))

        def _is_zero(v):
            els = elements(v)
            return len(els) == 1 and bool(tf(els[0]) == 0.0)

        def rbody(v):
            rows = [[v[f"x{k}_{n}"] for n in names_in] for k in range(nsteps)]
            rows2 = [[v[f"y{k}_{n}"] for n in names_in] for k in range(nsteps)]
            return "\n".join([regeng.PY_BUILD, f"spec = {regeng.spec_literal(spec, lit, lambda x: x)}", f"rows = {lit(rows)}; rows2 = {lit(rows2)}; q = {lit(v['q'])}",
                              f"seq = {seq!r}", "import warnings; warnings.simplefilter('ignore')",
                              "def edit(e, kind, q):",
                              f"    if kind == 'E': {edit_src}",
                              "    else: e.rule_blocks[0].rules[0].weight = q",
                              "def fresh(eds):",
                              "    e = build_engine(spec)",
                              "    for k in eds: edit(e, k, q)",
                              "    return e",
                              "def toggle(eng, kind, val):",
                              "    if kind == 'b': eng.rule_blocks[0].enabled = val",
                              "    elif kind == 'r': eng.rule_blocks[0].rules[0].enabled = val",
                              "    elif kind == 'i': eng.input_variables[0].enabled = val",
                              "    else: eng.output_variables[0].enabled = val",
                              "def outs(e): return [np.atleast_1d(np.asarray(ov.value, dtype=float)).tolist() for ov in e.output_variables], [[np.atleast_1d(np.asarray(a.degree, dtype=float)).tolist() for a in ov.fuzzy.terms] for ov in e.output_variables]",
                              "e = fresh([]); c = None; ee, ec = [], []; tog = {}; bad = None; last = None",
                              "def given(kind, k): return [float(rows[k][i]) if kind == 'P' else np.array([rows[k][i], rows2[k][i]], dtype=float) for i in range(len(rows[k]))]",
                              "for op in seq:",
                              "    oc = op.startswith('c'); o = op[1:] if oc else op; tgt = c if oc else e; eds = ec if oc else ee",
                              "    if o[0] in 'PBA':",
                              "        again = o == 'A'",
                              "        if not again: last = (o[0], int(o[1:]))",
                              "        kind, k = last; fr = fresh(eds)",
                              "        for (who, tk), val in tog.items():",
                              "            if who == ('c' if oc else 'e'): toggle(fr, tk, val)",
                              "        for eng in (tgt, fr):",
                              "            if not (again and eng is tgt):",
                              "                for i, iv in enumerate(eng.input_variables): iv.value = given(kind, k)[i]",
                              "            eng.process()",
                              "        if not all(same(iv.value, g0) for iv, g0 in zip(tgt.input_variables, given(kind, k))): bad = 'step %s: input values are %r after processing, %r were given' % (op, [iv.value for iv in tgt.input_variables], given(kind, k)); break",
                              "        g, w = outs(tgt), outs(fr)",
                              "        if not (same(g[0], w[0], 1e-9) and len(g[1]) == len(w[1]) and all(len(a) == len(b) and all(same(x, y, 1e-9) for x, y in zip(a, b)) for a, b in zip(g[1], w[1]))): bad = 'step %s: outputs %r fuzzy %r; a fresh engine gives %r fuzzy %r' % (op, g[0], g[1], w[0], w[1]); break",
                              "    elif o == 'R': tgt.restart()",
                              "    elif o == 'CHECK_RESTARTED':",
                              "        if not all(np.isnan(iv.value) for iv in tgt.input_variables) or not all(np.isnan(ov.value) and np.isnan(ov.previous_value) and not ov.fuzzy.terms for ov in tgt.output_variables) or not all(r.is_loaded() and not r.triggered and float(r.activation_degree) == 0.0 for rb in tgt.rule_blocks for r in rb.rules): bad = 'state after restart differs from a fresh engine'; break",
                              "    elif o == 'C':",
                              "        c = e.copy(); ec = list(ee)",
                              "        for (who, tk), val in list(tog.items()):",
                              "            if who == 'e': tog[('c', tk)] = val",
                              "        if any(isinstance(t, (fl.Linear, fl.Function)) and t.engine is not c for vv in c.variables for t in vv.terms): bad = 'step C: a Linear/Function term of the copy references another engine'; break",
                              "        if any(id(t) in {id(u) for w in e.variables for u in w.terms} for vv in c.variables for t in vv.terms): bad = 'step C: the copy shares term objects with the original'; break",
                              "        comps = lambda g: [o for rb in g.rule_blocks for o in (rb, rb.conjunction, rb.disjunction, rb.implication, rb.activation, *rb.rules) if o is not None] + [o for ov in g.output_variables for o in (ov, ov.aggregation, ov.defuzzifier, ov.fuzzy) if o is not None] + list(g.input_variables)",
                              "        shared = sorted({type(o).__name__ for o in comps(c) if id(o) in {id(u) for u in comps(e)}})",
                              "        if shared: bad = 'step C: the copy shares component objects with the original: %r' % (shared,); break",
                              "    elif o == 'CHECK_GRAPH':",
                              "        if any(isinstance(t, (fl.Linear, fl.Function)) and t.engine is not c for vv in c.variables for t in vv.terms): bad = 'term of the copy references another engine'; break",
                              "    elif o in ('E', 'W'): edit(tgt, o, q); eds.append(o)",
                              "    elif o[0] == 'T': toggle(tgt, o[1], False); tog[('c' if oc else 'e', o[1])] = False",
                              "    elif o[0] == 'U': toggle(tgt, o[1], True); tog.pop(('c' if oc else 'e', o[1]), None)",
                              f"verdict(bad is not None, {ename!r} + ' ' + {sname!r} + ': ' + str(bad))"])

        rp = replay_fn(PROPERTY, label, rbody, key=None)

        def body():
            def fresh(eds):
                e = build(spec)
                for k in eds:
                    apply_edit(e, k, q)
                return e

            def setrow(eng, k):
                for i, iv in enumerate(eng.input_variables):
                    iv.value = X[k][i]

            def setbatch(eng, k):
                for i, iv in enumerate(eng.input_variables):
                    iv.value = sym_array([X[k][i], X2[k][i]])

            return execute(fresh, setrow, setbatch, q)

        for p in ob.paths(pre, body):
            if p.exc is not None:
                ob.unexpected(pre, p, label, ins, rp)
                continue
            for (op, got, exp) in p.result:
                if exp is None:
                    ob.prove(pre, p, not got, f"{label}/{op}: {got}", ins, rp)
                    continue
                (gv, gd), (ev, ed) = got, exp
                claims = []
                for a, b in zip(gv, ev):
                    ae, be = elements(a), elements(b)
                    claims.append(z3.And(*[same(x, y) for x, y in zip(ae, be)]) if len(ae) == len(be) else z3.BoolVal(False))
                for da, db in zip(gd, ed):
                    if len(da) != len(db):
                        claims.append(z3.BoolVal(False))
                        continue
                    for a, b in zip(da, db):
                        ae, be = elements(a), elements(b)
                        claims.append(z3.And(*[same(x, y) for x, y in zip(ae, be)]) if len(ae) == len(be) else z3.BoolVal(False))
                ob.prove(pre, p, z3.And(*claims) if claims else True, f"{label}/{op}", ins, rp)
            last = [c for c in p.result if c[2] is not None]
            if last:
                ob.expect_sat(pre, p, same(elements(last[-1][1][0][0])[0], core.const(31337.0)), f"{label}/twin")

    return run


def obligations(tier, seed):
    obs = []
    E = extra_engines(engines())
    seqs = dict(SEQS)
    if tier != "quick":
        import itertools
        for i, perm in enumerate(itertools.permutations(["C", "R", "Tb"])):
            s = ["P0"]
            for o in perm:
                s.append(o)
                s.append("P1" if o != "C" else "cP1")
            s += ["Ub", "P2"]
            seqs[f"perm{i}"] = s
    for ename in ENGINES:
        for sname, seq in seqs.items():
            if sname == "toggle-variable" and ename == "two-blocks-output-antecedent":
                pass
            if ename.endswith("-activation") and (sname not in ("no-trace", "restart", "copy-then-both", "process-again") or (tier == "quick" and ename != "first-activation")):
                continue      # (these methods fork on every comparison of a degree: a few sequence shapes; they reject batches)
            nm = f"{ename}/{sname}"
            obs.append((nm, ob_sequence(ename, E[ename], sname, seq, nm)))
    return obs
