"""C02  Batch (vectorised) processing equals row-by-row float processing."""
from __future__ import annotations

import itertools

import z3

from symfl import core
from symfl.core import S, set_mode, sym_array, tf, same, ZB, elements, SymArray
from symfl.install import install
from symfl.replay import lit, replay_fn

from . import regeng
from .common import rvar, wf

PROPERTY = "C02"
EXPLANATION = ("Engines of registered components (Mamdani with each integral defuzzifier, Takagi-Sugeno with Constant/Linear/Function terms, "
               "Tsukamoto, hybrid; hedges, output variables in antecedents, two blocks) are built twice from the same symbolic state. One "
               "copy processes a batch of N symbolic rows at once (both ways of setting a batch), the other processes the N rows one "
               "after another with scalar values; the real code runs both through the shim whose array shape handling is NumPy's own. "
               "Per row the solver is asked whether output value or any fuzzy-output degree can differ, for all extended-real inputs "
               "(NaN/+-inf included), every lock-previous/default/lock-range setting and an arbitrary previous value; a path on which "
               "exactly one mode raises is a counterexample as well.")
BOUNDS = {"quick": {"N": "2 rows (1 and 3 for the Mamdani/TS base engines)", "inputs": "all extended reals per row and input",
                    "settings": "lock-previous x lock-range enumerated; default NaN or a symbolic value; previous value symbolic"},
          "thorough": {"N": "1..3 for every engine, 4 for the base engines"}}
OUTSIDE = ["N above the bound", "fuzzy_value() strings (degrees are compared instead; number formatting is not modelled)",
           "activation methods other than General (they reject batches: C08)", "rounding / summation order (Mode R is exact arithmetic)"]
ASSUMPTIONS = ["Mode R: IEEE specials over exact reals; exp uninterpreted (Sigmoid)", "output range finite lo<hi"]
STUBS = []
OB_BUDGET_S = {"quick": 240, "thorough": 1500}
TOTAL_BUDGET_S = {"quick": 600, "thorough": 3300}

IN_TERMS = [("Triangle", "a", 0.0, 0.25, 0.75), ("Ramp", "b", 0.25, 1.0)]
OUT_TERMS = [("Triangle", "a", 0.0, 0.25, 0.5), ("Triangle", "b", 0.25, 0.75, 1.0)]


def engines():
    E = {}
    base_rules = ["if X is a then O is a", "if X is b or Y is a then O is b with 0.5", "if X is very a and Y is not b then O is a"]

    def mam(defz, tn="Minimum", sn="Maximum", imp="Minimum", agg="Maximum", rules=None):
        return {"inputs": [{"name": "X", "terms": IN_TERMS}, {"name": "Y", "terms": IN_TERMS}],
                "outputs": [{"name": "O", "terms": OUT_TERMS, "aggregation": agg, "defuzzifier": defz}],
                "blocks": [{"conjunction": tn, "disjunction": sn, "implication": imp, "rules": rules or base_rules}]}

    E["mamdani-centroid"] = mam(("Centroid", 2))
    E["mamdani-bisector"] = mam(("Bisector", 2))
    E["mamdani-mom"] = mam(("MeanOfMaximum", 3))
    E["mamdani-som"] = mam(("SmallestOfMaximum", 2))
    E["mamdani-lom"] = mam(("LargestOfMaximum", 2))
    E["mamdani-product"] = mam(("Centroid", 2), "AlgebraicProduct", "AlgebraicSum", "AlgebraicProduct", "UnboundedSum")
    E["mamdani-bounded"] = mam(("Centroid", 2), "BoundedDifference", "BoundedSum", "Minimum", "BoundedSum", rules=base_rules[:2])
    E["takagi-sugeno"] = {"inputs": [{"name": "X", "terms": IN_TERMS}, {"name": "Y", "terms": IN_TERMS}],
                          "outputs": [{"name": "O", "terms": [("Constant", "a", 0.25), ("Linear", "b", [1.0, -0.5, 0.25]), ("Function", "c", "X * 2 - Y")],
                                       "aggregation": None, "defuzzifier": ("WeightedAverage",)}],
                          "blocks": [{"conjunction": "Minimum", "disjunction": "Maximum", "implication": None,
                                      "rules": ["if X is a then O is a", "if X is b then O is b", "if Y is a and X is b then O is c with 0.5", "if Y is b then O is a"]}]}
    E["takagi-sugeno-sum"] = {"inputs": [{"name": "X", "terms": IN_TERMS}],
                              "outputs": [{"name": "O", "terms": [("Constant", "a", 0.25), ("Constant", "b", 0.75)], "aggregation": "Maximum",
                                           "defuzzifier": ("WeightedSum",)}],
                              "blocks": [{"conjunction": None, "disjunction": None, "implication": None,
                                          "rules": ["if X is a then O is a", "if X is b then O is b", "if X is not a then O is a"]}]}
    E["tsukamoto"] = {"inputs": [{"name": "X", "terms": IN_TERMS}],
                      "outputs": [{"name": "O", "terms": [("Ramp", "a", 0.0, 1.0), ("Sigmoid", "b", 0.5, -4.0), ("Concave", "c", 0.25, 0.75)], "aggregation": None,
                                   "defuzzifier": ("WeightedAverage",)}],
                      "blocks": [{"conjunction": None, "disjunction": None, "implication": None,
                                  "rules": ["if X is a then O is a", "if X is b then O is b", "if X is not b then O is c"]}]}
    E["hedged-consequent"] = mam(("Centroid", 2), rules=["if X is a then O is not a", "if X is b then O is very b"])
    E["two-blocks-output-antecedent"] = {
        "inputs": [{"name": "X", "terms": IN_TERMS}],
        "outputs": [{"name": "O", "terms": OUT_TERMS, "aggregation": "Maximum", "defuzzifier": ("Centroid", 2)},
                    {"name": "P", "terms": [("Constant", "a", 0.25), ("Constant", "b", 0.75)], "aggregation": None, "defuzzifier": ("WeightedAverage",)}],
        "blocks": [{"conjunction": "Minimum", "disjunction": "Maximum", "implication": "Minimum", "rules": ["if X is a then O is a and P is b", "if X is b then O is b"]},
                   {"conjunction": "AlgebraicProduct", "disjunction": "Maximum", "implication": "Minimum", "rules": ["if O is a and X is b then P is a", "if O is b then P is b with 0.25"]}]}
    # several conclusions per rule with hedges on the later ones (the degree object is shared between the conclusions of a rule)
    E["multi-conclusion-hedged"] = {
        "inputs": [{"name": "X", "terms": IN_TERMS}, {"name": "Y", "terms": IN_TERMS}],
        "outputs": [{"name": "O", "terms": OUT_TERMS, "aggregation": "Maximum", "defuzzifier": ("Centroid", 2)},
                    {"name": "P", "terms": OUT_TERMS, "aggregation": "BoundedSum", "defuzzifier": ("MeanOfMaximum", 2)}],
        "blocks": [{"conjunction": "Minimum", "disjunction": "Maximum", "implication": "AlgebraicProduct",
                    "rules": ["if X is a then O is a and P is not b", "if Y is b or X is b then P is very a and O is not a and P is b with 0.5"]}]}
    # range-locked INPUT variables (the stored value is the clipped one; the caller's array is not to be touched)
    E["input-lock-range"] = {"inputs": [{"name": "X", "terms": IN_TERMS, "lock_range": True, "range": (0.0, 1.0)}, {"name": "Y", "terms": IN_TERMS, "lock_range": True, "range": (0.25, 0.75)}],
                             "outputs": [{"name": "O", "terms": OUT_TERMS, "aggregation": "Maximum", "defuzzifier": ("Centroid", 2)}],
                             "blocks": [{"conjunction": "Minimum", "disjunction": "Maximum", "implication": "Minimum", "rules": base_rules}]}
    # input terms that hand the stored input value itself back (Function `x`): in-place arithmetic on a degree would write into the input
    E["function-input"] = {
        "inputs": [{"name": "X", "terms": [("Function", "lin", "x"), ("Function", "inv", "1 - x")]}],
        "outputs": [{"name": "O", "terms": OUT_TERMS, "aggregation": "Maximum", "defuzzifier": ("Centroid", 2)}],
        "blocks": [{"conjunction": "Minimum", "disjunction": "Maximum", "implication": "Minimum",
                    "rules": ["if X is lin then O is a with 0.5", "if X is inv then O is b with 0.25", "if X is lin then O is b"]}]}
    # a weighted output fed by an ordinary rule and by a rule whose degree does not depend on the inputs (`is any`): in a batch the
    # degrees have shapes (N,) and (); row by row both are single values
    E["takagi-sugeno-catch-all"] = {"inputs": [{"name": "X", "terms": IN_TERMS}],
                                    "outputs": [{"name": "O", "terms": [("Constant", "a", 0.25), ("Constant", "b", 0.75)], "aggregation": None, "defuzzifier": ("WeightedAverage",)},
                                                {"name": "P", "terms": [("Constant", "a", 0.5), ("Linear", "b", [2.0, 0.25])], "aggregation": None, "defuzzifier": ("WeightedSum",)}],
                                    "blocks": [{"conjunction": None, "disjunction": None, "implication": None,
                                                "rules": ["if X is a then O is a and P is b", "if X is any then O is b and P is a with 0.5"]}]}
    # a Linear term with a ZERO coefficient for an input its rule does not read: 0 * NaN is NaN row by row - and in a batch, whatever
    # the other rows hold
    E["takagi-sugeno-zero-coefficient"] = {"inputs": [{"name": "X", "terms": IN_TERMS}, {"name": "Y", "terms": IN_TERMS}],
                                           "outputs": [{"name": "O", "terms": [("Linear", "a", [1.5, 0.0, 0.25]), ("Constant", "b", 0.75)], "aggregation": None,
                                                        "defuzzifier": ("WeightedAverage",)}],
                                           "blocks": [{"conjunction": None, "disjunction": None, "implication": None,
                                                       "rules": ["if X is a then O is a", "if X is b then O is b"]}]}
    # input terms with an x-dependent denominator or several np.where branches evaluated on every x (a plain Python float divides
    # by zero where an array gives inf and discards it)
    E["rational-input-terms"] = {
        "inputs": [{"name": "X", "terms": [("Concave", "a", 0.25, 0.5), ("Concave", "b", 0.75, 0.5)]},
                   {"name": "Y", "terms": [("SShape", "a", 0.25, 0.75), ("ZShape", "b", 0.25, 0.75)]}],
        "outputs": [{"name": "O", "terms": OUT_TERMS, "aggregation": "Maximum", "defuzzifier": ("Centroid", 2)}],
        "blocks": [{"conjunction": "Minimum", "disjunction": "Maximum", "implication": "Minimum",
                    "rules": ["if X is a and Y is a then O is a", "if X is b or Y is b then O is b"]}]}
    return E


def ob_engine(ename, spec0, N, lp, lr, sym_default, api, label, refill=False):
    """refill: the caller's per-variable arrays are first filled with other rows and processed, then REFILLED IN PLACE (`buf[:] = rows`,
    the same array objects) and processed again; the row-by-row engine goes through the same rows one by one"""
    def run(ob):
        fl = install()
        set_mode("R")
        S.pyfloats = True
        build = regeng.builder(fl)
        names_in = [iv["name"] for iv in spec0["inputs"]]
        names_out = [ov["name"] for ov in spec0["outputs"]]
        X = [[rvar(f"x{r}_{v}", special=True) for v in names_in] for r in range(N)]
        Wm = [[rvar(f"w{r}_{v}") for v in names_in] for r in range(N)] if refill else []
        prev = {v: rvar(f"prev_{v}", special=True) for v in names_out}
        D = rvar("D", special=True) if sym_default else None
        pre = wf(*[x for row in X for x in row], *prev.values(), *([D] if D is not None else []))
        ins = {f"x{r}_{v}": X[r][i] for r in range(N) for i, v in enumerate(names_in)}
        ins.update({f"w{r}_{v}": Wm[r][i] for r in range(len(Wm)) for i, v in enumerate(names_in)})
        ins.update({f"prev_{v}": prev[v] for v in names_out})
        if D is not None:
            ins["D"] = D

        def spec_with(default):
            sp = {"inputs": spec0["inputs"], "blocks": spec0["blocks"], "outputs": []}
            for ov in spec0["outputs"]:
                o = dict(ov)
                o.update({"lock_previous": lp, "lock_range": lr})
                if default is not None:
                    o["default"] = default
                sp["outputs"].append(o)
            return sp

        def rbody(v):
            sp = spec_with(v["D"] if sym_default else None)
            rows = [[v[f"x{r}_{n}"] for n in names_in] for r in range(N)]
            warm = [[v[f"w{r}_{n}"] for n in names_in] for r in range(len(Wm))]
            return "\n".join([regeng.PY_BUILD, f"spec = {regeng.spec_literal(sp, lit, lambda x: x)}", f"rows = {lit(rows)}", f"warm = {lit(warm)}",
                              f"prev = {{{', '.join(f'{n!r}: {lit(v[f'prev_{n}'])}' for n in names_out)}}}",
                              "globals()['EXPECT_NO_EXCEPTION'] = False", "import warnings; warnings.simplefilter('ignore')",
                              "e1, e2 = build_engine(spec), build_engine(spec)",
                              "for e in (e1, e2):\n    for n, p in prev.items(): e.output_variable(n).value = p",
                              "try:",
                              ("    given = [np.array(rows, dtype=float)]; e1.input_values = given[0]" if api == "matrix" else
                               "    given = [np.array([r[i] for r in (warm or rows)], dtype=float) for i in range(len(rows[0]))]\n    for i, iv in enumerate(e1.input_variables): iv.value = given[i]"),
                              "    e1.process(); exc1 = None",
                              "    if warm:",
                              "        for i, g in enumerate(given): g[:] = [r[i] for r in rows]      # the same array objects, refilled in place",
                              "        e1.process()",
                              "except Exception as ex: exc1 = ex",
                              ("if exc1 is None and not same(given[0], rows): verdict(True, 'the matrix handed to input_values was modified: %r' % (given[0].tolist(),))" if api == "matrix" else
                               "if exc1 is None and not all(same(g, [r[i] for r in rows]) for i, g in enumerate(given)): verdict(True, 'an array handed to an input variable was modified: %r' % ([g.tolist() for g in given],))"),
                              "per_row = []; exc2 = None",
                              "try:",
                              "    for r in warm:",
                              "        for i, iv in enumerate(e2.input_variables): iv.value = float(r[i])",
                              "        e2.process()",
                              "    for r in rows:",
                              "        for i, iv in enumerate(e2.input_variables): iv.value = float(r[i])",
                              "        e2.process()",
                              "        per_row.append(([float(ov.value) for ov in e2.output_variables], [[float(a.degree) for a in ov.fuzzy.terms] for ov in e2.output_variables]))",
                              "except Exception as ex: exc2 = ex",
                              "if (exc1 is None) != (exc2 is None): verdict(True, 'batch raised %r, row-by-row raised %r' % (exc1, exc2))",
                              "if exc1 is not None: verdict(False, 'both modes raise')",
                              "bad = None",
                              "for k, ov in enumerate(e1.output_variables):",
                              "    vals = np.atleast_1d(np.asarray(ov.value, dtype=float))",
                              "    for r in range(len(rows)):",
                              "        if not same(vals[r] if vals.size > 1 else vals[0], per_row[r][0][k], 1e-9): bad = 'row %d output %s: batch %r, row-by-row %r' % (r, ov.name, vals.tolist(), [p[0][k] for p in per_row]); break",
                              "        degs = [np.atleast_1d(np.asarray(a.degree, dtype=float)) for a in ov.fuzzy.terms]",
                              "        got = [float(d[r] if d.size > 1 else d[0]) for d in degs]",
                              "        if not same(got, per_row[r][1][k], 1e-9): bad = 'row %d fuzzy output %s: batch degrees %r, row-by-row %r' % (r, ov.name, got, per_row[r][1][k]); break",
                              "    if bad: break",
                              f"verdict(bad is not None, {ename!r} + ' rows=%r prev=%r: %s' % (rows, prev, bad))"])

        rp = replay_fn(PROPERTY, label, rbody, key=None)

        def body():
            sp = spec_with(D)
            e1, e2 = build(sp), build(sp)
            for e in (e1, e2):
                for n, p in prev.items():
                    e.output_variable(n).value = p
            exc1 = exc2 = None
            given = []
            try:
                if api == "matrix":
                    given.append((sym_array([list(row) for row in X]), [x for row in X for x in row]))
                    e1.input_values = given[0][0]
                else:
                    for i, iv in enumerate(e1.input_variables):
                        given.append((sym_array([(Wm or X)[r][i] for r in range(N)]), [X[r][i] for r in range(N)]))
                        iv.value = given[-1][0]
                e1.process()
                if refill:
                    for i, (arr, _) in enumerate(given):
                        arr[:] = sym_array([X[r][i] for r in range(N)])      # the same array objects, refilled in place
                    e1.process()
            except core.Unsupported:
                raise
            except Exception as ex:  # noqa
                exc1 = ex
            per_row = []
            try:
                for r in range(len(Wm)):
                    for i, iv in enumerate(e2.input_variables):
                        iv.value = core.PyRFloat.of(Wm[r][i])
                    e2.process()
                for r in range(N):
                    for i, iv in enumerate(e2.input_variables):
                        iv.value = core.PyRFloat.of(X[r][i])      # "plain Python floats": float semantics until NumPy touches the value
                    e2.process()
                    per_row.append(([ov.value for ov in e2.output_variables], [[a.degree for a in ov.fuzzy.terms] for ov in e2.output_variables]))
            except core.Unsupported:
                raise
            except Exception as ex:  # noqa
                exc2 = ex
            return e1, per_row, exc1, exc2, given

        for p in ob.paths(pre, body):
            if p.exc is not None:
                ob.unexpected(pre, p, label, ins, rp)
                continue
            e1, per_row, exc1, exc2, given = p.result
            if exc1 is None:
                ob.prove(pre, p, z3.And(*[same(a, b) for g, orig in given for a, b in zip(elements(g), orig)]), f"{label}/caller-arrays-untouched", ins, rp)
            if (exc1 is None) != (exc2 is None):
                ob.prove(pre, p, False, f"{label}: batch raised {exc1!r}, row-by-row raised {exc2!r}", ins, rp)
                continue
            if exc1 is not None:
                ob.prove(pre, p, True, f"{label}/both-raise", ins, rp)
                continue
            claims = []
            for k, ov in enumerate(e1.output_variables):
                vals = elements(ov.value)
                if len(vals) != N and not (N == 1 and len(vals) == 1):
                    claims.append(z3.BoolVal(False))
                    continue
                for r in range(N):
                    rv_ = elements(per_row[r][0][k])
                    claims.append(same(vals[r], rv_[0]) if len(rv_) == 1 else z3.BoolVal(False))
                    acts = ov.fuzzy.terms
                    if len(acts) != len(per_row[r][1][k]):
                        claims.append(z3.BoolVal(False))
                        continue
                    for a, d in zip(acts, per_row[r][1][k]):
                        ds = elements(a.degree)
                        claims.append(same(ds[r] if len(ds) > 1 else ds[0], elements(d)[0]))
            ob.prove(pre, p, z3.And(*claims), label, ins, rp)
            ob.expect_sat(pre, p, same(elements(e1.output_variables[0].value)[0], core.const(777.0)), f"{label}/twin")

    return run


def _obligations(tier, seed):
    obs = []
    E = engines()
    base = ("mamdani-centroid", "takagi-sugeno")
    for ename, spec in E.items():
        Ns = (2,) if tier == "quick" else (1, 2, 3)
        if ename in base:
            Ns = (1, 2, 3) if tier == "quick" else (1, 2, 3, 4)
        for N in Ns:
            settings = list(itertools.product((False, True), (False, True), (False, True)))
            if not (ename in base and N == 2):
                settings = [(False, False, False), (True, True, True), (True, False, False), (False, True, True)] if ename in base or tier != "quick" else [(False, False, False), (True, True, True)]
            for lp, lr, sd in settings:
                apis = ("arrays", "matrix") if (ename in base and N == 2 and not sd) or tier != "quick" or ename == "input-lock-range" else (("arrays",) if (lp or N != 2) else ("matrix",))
                for api in apis:
                    nm = f"{ename}/N{N}/{'LP' if lp else 'lp'}{'LR' if lr else 'lr'}{'D' if sd else 'd'}/{api}"
                    obs.append((nm, ob_engine(ename, spec, N, lp, lr, sd, api, nm)))
        # (not for range-locked INPUT variables: they store a clipped copy of the array they are given, so refilling the caller's array
        #  does not - and must not - reach the engine)
        if (ename in ("takagi-sugeno", "mamdani-centroid", "function-input") or tier != "quick") and not any(iv.get("lock_range") for iv in spec["inputs"]):
            for lp in (False, True):
                nm = f"{ename}/N2/{'LP' if lp else 'lp'}lrd/arrays-refilled-in-place"
                obs.append((nm, ob_engine(ename, spec, 2, lp, False, False, "arrays", nm, refill=True)))
    return obs


def obligations(tier, seed):
    from . import conform
    return _obligations(tier, seed) + conform.obligations(PROPERTY, tier)
