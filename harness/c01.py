"""C01  Engine output equals the documented inference pipeline."""
from __future__ import annotations

import random

import z3

from spec import norms as nspec
from symfl import core
from symfl.core import S, set_mode, sym_array, sym0d, tf, same, ZB, elements, RFloat, SymArray
from symfl.install import install
from symfl.replay import lit, replay_fn

from . import enggen as eg
from . import rulegen as rg
from .c07 import install_abstract
from .common import rvar, unit, wf

PROPERTY = "C01"
EXPLANATION = ("Engines are built by the real constructors / Rule.create from generated skeletons (1-3 inputs, 1-2 outputs, 1-2 rule "
               "blocks, 1-3 rules per block, antecedent trees with and/or/hedges/any, 1-2 conclusions, output variables used in later "
               "antecedents). Harness A makes every operator abstract through the public extension points (uninterpreted, non-commutative "
               "conjunction/disjunction/implication/aggregation via NormLambda, abstract terms, abstract defuzzifier probing the aggregated "
               "set), all inputs and weights symbolic; after the real Engine.process every output value, fuzzy output and rule degree "
               "must equal a reference interpreter of the statement run on the generating skeleton - an SMT query decided by congruence, "
               "so any mis-wiring that matters for some operator is a counterexample. Enabled flags of every rule, block and variable "
               "are toggled one at a time. Harness B repeats this with registered terms/norms/defuzzifiers against their documented formulas.")
BOUNDS = {"quick": {"skeletons": "4 hand-written + 20 seeded; flags: all enabled and each single rule/block/variable disabled",
                    "numbers": "inputs finite in [0,1] (plus NaN/inf inputs in harness B), weights in [0,1]",
                    "registered": "Minimum/Maximum, AlgebraicProduct/AlgebraicSum, BoundedDifference/BoundedSum; Centroid resolution 2 and 4 on "
                                  "[0,1], WeightedAverage/WeightedSum with constants; Triangle/Ramp terms"},
          "thorough": {"skeletons": "4 + 200 seeded, 2 random double-disabled patterns each"}}
OUTSIDE = ["activation methods other than General (C08)", "hedged conclusions followed by further conclusions (recorded C07 finding)",
           "resolutions above 4 with registered defuzzifiers (C09 covers the defuzzifiers themselves)", "rounding (Mode R)",
           "lock-previous/default/lock-range (C12)"]
ASSUMPTIONS = ["abstract operators return finite values for finite operands and NaN otherwise", "inputs and weights finite in [0,1] unless stated"]
STUBS = ["NormLambda conjunction/disjunction/implication/aggregation -> uninterpreted functions", "abstract Term subclasses (input and output terms)",
         "abstract Defuzzifier subclass: uninterpreted function of the aggregated membership at 2 probe points and the range",
         "HedgeLambda abstract hedges h1, h2"]
OB_BUDGET_S = {"quick": 200, "thorough": 1500}

PROBES = (0.25, 0.75)


# ---- abstract instantiation ---------------------------------------------------------------------------------------------------
def abstract_ops(fl, ranges):
    class InTerm(fl.Term):
        def __init__(self, var, name):
            super().__init__(name)
            self.var = var

        def membership(self, x):
            return core.abstract(f"mu_{self.var}_{self.name}", x, lo=0, hi=1)

    class OutTerm(InTerm):
        pass

    class AbsDefuzz(fl.Defuzzifier):
        def defuzzify(self, term, minimum, maximum):
            pts = sym_array([[minimum + (maximum - minimum) * c for c in PROBES]])
            y = fl.library.np.atleast_2d(term.membership(pts))
            rows = []
            for r in range(y.shape[0]):
                ys = [y[r, j if y.shape[1] > 1 else 0] for j in range(len(PROBES))]
                rows.append(core.abstract("DEF", *ys, minimum, maximum))
            return sym0d(rows[0]) if len(rows) == 1 else sym_array(rows)

        def parameters(self):
            return ""

        def configure(self, parameters):
            pass

    return {"in_term": lambda v, t: InTerm(v, t), "out_term": lambda v, t: OutTerm(v, t),
            "conjunction": lambda: fl.NormLambda(lambda a, b: core.abstract("AND", a, b)),
            "disjunction": lambda: fl.NormLambda(lambda a, b: core.abstract("OR", a, b)),
            "implication": lambda: fl.NormLambda(lambda a, b: core.abstract("IMP", a, b)),
            "aggregation": lambda v: fl.NormLambda(lambda a, b: core.abstract(f"AGG_{v}", a, b)),
            "defuzzifier": lambda v: AbsDefuzz(), "out_range": lambda v: ranges[v]}


def abstract_sem(fl, ranges):
    def hedge(h, x):
        return fl.settings.factory_manager.hedge.construct(h).hedge(x)

    def defuzz(v, acts):
        lo, hi = ranges[v]
        ys = []
        for c in PROBES:
            p = lo + (hi - lo) * c
            y = core.const(0.0)
            for (t, d) in acts:
                y = core.abstract(f"AGG_{v}", y, core.abstract("IMP", d, core.abstract(f"mu_{v}_{t}", p, lo=0, hi=1)))
            ys.append(y)
        return core.abstract("DEF", *ys, lo, hi)

    return {"mu_in": lambda v, t, x: core.abstract(f"mu_{v}_{t}", x, lo=0, hi=1),
            "AND": lambda a, b: core.abstract("AND", a, b), "OR": lambda a, b: core.abstract("OR", a, b),
            "hedge": hedge, "sanitize": lambda d: core.dispatch("nan_to_num", (d,), {"nan": 0.0, "neginf": 0.0, "posinf": 1.0}),
            "times": lambda w, d: w * d, "zero": core.const(0.0), "one": core.const(1.0),
            "agg_degree": lambda v: (lambda a, b: core.abstract(f"AGG_{v}", a, b)), "defuzz": defuzz}


PY_ABS = rg.PY_GENERIC + '''
def MU(var, term, x): return np.clip(0.5 + 0.35 * np.sin(3.0 * x + 1.7 * len(var) + (2.1 if term == "a" else 0.4) + ord(var[0])), 0.0, 1.0)
DEFZ = lambda y0, y1, lo, hi: lo + (hi - lo) * (0.2 + 0.5 * y0 - 0.3 * y1 * y0 + 0.1 * y1)
class ATerm(fl.Term):
    def __init__(self, var, name): super().__init__(name); self.var = var
    def membership(self, x): return MU(self.var, self.name, np.asarray(x, dtype=float))
class ADefuzz(fl.Defuzzifier):
    def defuzzify(self, term, minimum, maximum):
        pts = np.array([[minimum + (maximum - minimum) * c for c in (0.25, 0.75)]])
        y = np.atleast_2d(term.membership(pts)) + 0.0 * pts
        return np.array(DEFZ(y[0, 0], y[0, 1], minimum, maximum))
    def parameters(self): return ""
    def configure(self, parameters): pass
def sanitize(x): return float(np.nan_to_num(np.float64(x), nan=0.0, neginf=0.0, posinf=1.0))
def flag(flags, k): return flags.get(k, True)
def rule_text(rule):
    def show_prop(p): return " ".join([p[1], "is", *p[2]] + ([p[3]] if p[3] is not None else []))
    def show(t):
        if t[0] == "p": return show_prop(t)
        op, l, r = t; ls, rs = show(l), show(r)
        if op == "and":
            if l[0] == "or": ls = "(" + ls + ")"
            if r[0] in ("or", "and"): rs = "(" + rs + ")"
        elif r[0] == "or": rs = "(" + rs + ")"
        return ls + " " + op + " " + rs
    cons = " and ".join("%s is %s%s%s" % (v, " ".join(h), " " if h else "", t) for v, h, t in rule["concl"])
    return "if %s then %s" % (show(rule["ante"]), cons)
def build(sk, flags, weights, ranges):
    ivs = [fl.InputVariable(v, enabled=flag(flags, "var:" + v), minimum=0, maximum=1, terms=[ATerm(v, t) for t in ("a", "b")]) for v in sk["inputs"]]
    ovs = [fl.OutputVariable(v, enabled=flag(flags, "var:" + v), minimum=ranges[v][0], maximum=ranges[v][1], aggregation=fl.NormLambda(AGG),
                             defuzzifier=ADefuzz(), terms=[ATerm(v, t) for t in ("a", "b")]) for v in sk["outputs"]]
    e = fl.Engine("e", "", ivs, ovs, [])
    for bi, block in enumerate(sk["blocks"]):
        rules = []
        for ri, rule in enumerate(block):
            r = fl.Rule.create(rule_text(rule), e); r.weight = weights[(bi, ri)]; r.enabled = flag(flags, "rule:%d.%d" % (bi, ri)); rules.append(r)
        e.rule_blocks.append(fl.RuleBlock("rb%d" % bi, enabled=flag(flags, "block:%d" % bi), conjunction=fl.NormLambda(AND), disjunction=fl.NormLambda(OR),
                                          implication=fl.NormLambda(IMP), activation=fl.General(), rules=rules))
    return e
def reference(sk, flags, weights, inputs, ranges):
    fuzzy = {v: [] for v in sk["outputs"]}; degrees = {}
    def membership(v, t):
        if v in sk["inputs"]: return float(MU(v, t, inputs[v]))
        ds = [d for (tt, d) in fuzzy[v] if tt == t]
        if not ds: return 0.0
        acc = ds[0]
        for d in ds[1:]: acc = AGG(acc, d)
        return acc
    for bi, block in enumerate(sk["blocks"]):
        if not flag(flags, "block:%d" % bi): continue
        for ri, rule in enumerate(block):
            val = evaluate(rule["ante"], lambda p: prop_semantics(p, membership, lambda n: flag(flags, "var:" + n)))
            deg = weights[(bi, ri)] * val; degrees[(bi, ri)] = deg
            if not flag(flags, "rule:%d.%d" % (bi, ri)): continue
            for (v, hs, t) in rule["concl"]:
                if not flag(flags, "var:" + v): continue
                d = deg
                for h in reversed(hs): d = HEDGES[h](d)
                fuzzy[v].append((t, sanitize(d)))
    out = {}
    for v in sk["outputs"]:
        if not flag(flags, "var:" + v): out[v] = None; continue
        lo, hi = ranges[v]; ys = []
        for c in (0.25, 0.75):
            p = lo + (hi - lo) * c; y = 0.0
            for (t, d) in fuzzy[v]: y = AGG(y, IMP(d, float(MU(v, t, p))))
            ys.append(y)
        out[v] = DEFZ(ys[0], ys[1], lo, hi)
    return out, fuzzy, degrees
'''


def ob_abstract(sk, flags, label):
    def run(ob):
        fl = install()
        set_mode("R")
        install_abstract(fl)
        X = {v: rvar(f"x_{v}") for v in sk["inputs"]}
        Wt = {(bi, ri): rvar(f"w_{bi}_{ri}") for bi, b in enumerate(sk["blocks"]) for ri in range(len(b))}
        ranges = {v: (rvar(f"lo_{v}"), rvar(f"hi_{v}")) for v in sk["outputs"]}
        pre = [unit(x) for x in X.values()] + [unit(w) for w in Wt.values()] + [lo.v < hi.v for lo, hi in ranges.values()]
        ins = {f"x_{v}": X[v] for v in X}
        ins.update({f"w_{bi}_{ri}": w for (bi, ri), w in Wt.items()})
        for v, (lo, hi) in ranges.items():
            ins[f"lo_{v}"] = lo
            ins[f"hi_{v}"] = hi

        def rbody(v):
            return "\n".join([PY_ABS, "install_abstract()", f"sk = {sk!r}", f"flags = {flags!r}",
                              "weights = {" + ", ".join(f"({bi}, {ri}): {lit(v[f'w_{bi}_{ri}'])}" for (bi, ri) in Wt) + "}",
                              "inputs = {" + ", ".join(f"{n!r}: {lit(v[f'x_{n}'])}" for n in X) + "}",
                              "ranges = {" + ", ".join(f"{n!r}: ({lit(v[f'lo_{n}'])}, {lit(v[f'hi_{n}'])})" for n in ranges) + "}",
                              "e = build(sk, flags, weights, ranges)",
                              "for n, x in inputs.items(): e.input_variable(n).value = x",
                              "e.process()",
                              "out, fuzzy, degrees = reference(sk, flags, weights, inputs, ranges)", "bad = None",
                              "for n in sk['outputs']:",
                              "    ov = e.output_variable(n)",
                              "    if out[n] is None:",
                              "        if not (np.isnan(ov.value) and not ov.fuzzy.terms): bad = 'disabled %s modified: %r' % (n, ov.value)",
                              "        continue",
                              "    got = [(a.term.name, float(a.degree)) for a in ov.fuzzy.terms]",
                              "    if len(got) != len(fuzzy[n]) or any(g[0] != w[0] or not same(g[1], w[1], 1e-9) for g, w in zip(got, fuzzy[n])): bad = 'fuzzy output of %s: %r, pipeline %r' % (n, got, fuzzy[n]); break",
                              "    if not same(float(ov.value), out[n], 1e-9): bad = 'value of %s: %r, pipeline %r' % (n, float(ov.value), out[n]); break",
                              "for (bi, ri), d in degrees.items():",
                              "    if not same(float(e.rule_blocks[bi].rules[ri].activation_degree), d, 1e-9) and flags.get('block:%d' % bi, True): bad = bad or 'degree of rule %d.%d: %r, pipeline %r' % (bi, ri, e.rule_blocks[bi].rules[ri].activation_degree, d)",
                              "verdict(bad is not None, str(bad))"])

        rp = replay_fn(PROPERTY, label, rbody, key=None)

        def body():
            e = eg.build(fl, sk, abstract_ops(fl, ranges), flags, Wt)
            for v, x in X.items():
                e.input_variable(v).value = x
            e.process()
            exp = eg.reference(sk, flags, Wt, X, abstract_sem(fl, ranges))
            return e, exp

        for p in ob.paths(pre, body):
            if p.exc is not None:
                ob.unexpected(pre, p, label, ins, rp)
                continue
            e, (outs, fuzzy, degrees) = p.result
            claims = []
            for v in sk["outputs"]:
                ov = e.output_variable(v)
                if outs[v] is None:
                    val = elements(ov.value)
                    ok = len(val) == 1 and not ov.fuzzy.terms
                    claims.append(z3.And(z3.BoolVal(bool(ok)), ZB(core._isnan(val[0]).e)) if ok else z3.BoolVal(False))
                    continue
                got = ov.fuzzy.terms
                if len(got) != len(fuzzy[v]) or any(a.term.name != t for a, (t, _) in zip(got, fuzzy[v])):
                    ob.prove(pre, p, False, f"{label}: fuzzy output of {v} is {[a.term.name for a in got]}, pipeline {[t for t, _ in fuzzy[v]]}", ins, rp)
                    claims = None
                    break
                for a, (t, d) in zip(got, fuzzy[v]):
                    claims.append(same(a.degree, d))
                vv = elements(ov.value)
                claims.append(same(vv[0], outs[v]) if len(vv) == 1 else z3.BoolVal(False))
            if claims is None:
                continue
            for (bi, ri), d in degrees.items():
                claims.append(same(e.rule_blocks[bi].rules[ri].activation_degree, d))
            for bi, block in enumerate(e.rule_blocks):
                for v in sk["outputs"]:
                    pass
            imps = [b.implication for b in e.rule_blocks]
            for v in sk["outputs"]:
                for a in e.output_variable(v).fuzzy.terms:
                    claims.append(z3.BoolVal(any(a.implication is i for i in imps)))
            ob.prove(pre, p, z3.And(*claims), label, ins, rp)
            v0 = sk["outputs"][0]
            if outs[v0] is not None:
                ob.expect_sat(pre, p, same(elements(e.output_variable(v0).value)[0], core.const(123.0)), f"{label}/twin")

    return run


# ---- registered components ---------------------------------------------------------------------------------------------------
def _tri(x, a, b, c):
    return z3.If(z3.Or(x <= a, x >= c), 0, z3.If(x <= b, (x - a) / (b - a), (c - x) / (c - b)))


def _ramp(x, s, e):
    return z3.If(x <= s, 0, z3.If(x >= e, 1, (x - s) / (e - s)))


IN_T = {"a": ("Triangle", (0.0, 0.25, 0.75)), "b": ("Ramp", (0.25, 1.0))}
OUT_T = {"a": ("Triangle", (0.0, 0.25, 0.5)), "b": ("Triangle", (0.25, 0.75, 1.0))}


def _mu(spec, x):
    k, ps = spec
    return _tri(x, *[core.rv(p) for p in ps]) if k == "Triangle" else _ramp(x, *[core.rv(p) for p in ps])


def registered_ops(fl, tn, sn, imp, agg, defz):
    def mk(spec, name):
        k, ps = spec
        return getattr(fl, k)(name, *ps)

    def dz(v):
        if defz[0] == "Centroid":
            return fl.Centroid(defz[1])
        return getattr(fl, defz[0])()

    out_term = (lambda v, t: mk(OUT_T[t], t)) if defz[0] == "Centroid" else (lambda v, t: fl.Constant(t, 0.25 if t == "a" else 0.75))
    return {"in_term": lambda v, t: mk(IN_T[t], t), "out_term": out_term, "conjunction": lambda: getattr(fl, tn)(),
            "disjunction": lambda: getattr(fl, sn)(), "implication": lambda: getattr(fl, imp)() if imp else None,
            "aggregation": lambda v: getattr(fl, agg)() if agg else None, "defuzzifier": dz, "out_range": lambda v: (0.0, 1.0)}


def registered_sem(tn, sn, imp, agg, defz):
    """z3-level semantics on reals with a NaN flag: values are RFloat; formulas from /verif/spec"""
    ft, fs = nspec.TNORMS[tn], nspec.SNORMS[sn]
    fi = nspec.TNORMS[imp] if imp else None
    fa = nspec.SNORMS[agg or "UnboundedSum"]

    def lift2(f):
        return lambda a, b: RFloat(f(tf(a).v, tf(b).v), core.OR(tf(a).nan, tf(b).nan))

    def hedge(h, x):
        x = tf(x)
        v = {"very": lambda t: t * t, "not": lambda t: 1 - t}[h](x.v)
        return RFloat(v, x.nan)

    def sanitize(d):
        d = tf(d)
        return RFloat(z3.If(ZB(d.nan), 0, d.v)) if not core.isc(d.nan) else (core.const(0.0) if d.nan else d)

    def mu_in(v, t, x):
        x = tf(x)
        # NaN input -> NaN membership; +-inf: Triangle 0, Ramp 0/1
        val = _mu(IN_T[t], x.v)
        if IN_T[t][0] == "Triangle":
            val = z3.If(ZB(x.inf()), 0, val)
        else:
            val = z3.If(ZB(x.pinf), 1, z3.If(ZB(x.ninf), 0, val))
        return RFloat(val, x.nan)

    def defuzz(v, acts):
        if defz[0] == "Centroid":
            r = defz[1]
            num, den = z3.RealVal(0), z3.RealVal(0)
            for i in range(r):
                xi = core.rv((i + 0.5) / r)
                y = z3.RealVal(0)
                for (t, d) in acts:
                    y = fa(y, fi(tf(d).v, _mu(OUT_T[t], xi)))
                num = num + xi * y
                den = den + y
            return RFloat(z3.If(den == 0, 0, num / z3.If(den == 0, 1, den)), den == 0)
        # weighted: group by term name in first-appearance order
        g = {}
        for (t, d) in acts:
            g[t] = tf(d).v if t not in g else fa(g[t], tf(d).v)
        num, den = z3.RealVal(0), z3.RealVal(0)
        for t, w in g.items():
            c = core.rv(0.25 if t == "a" else 0.75)
            num = num + w * c
            den = den + w
        if not acts:
            return core.const(float("nan"))
        nan = den == 0
        if defz[0] == "WeightedAverage":
            return RFloat(z3.If(nan, 0, num / z3.If(nan, 1, den)), nan)
        return RFloat(z3.If(nan, 0, num), nan)

    return {"mu_in": mu_in, "AND": lift2(ft), "OR": lift2(fs), "hedge": hedge, "sanitize": sanitize,
            "times": lambda w, d: RFloat(tf(w).v * tf(d).v, tf(d).nan), "zero": core.const(0.0), "one": core.const(1.0),
            "agg_degree": lambda v: lift2(fa), "defuzz": defuzz}


def ob_registered(sk, combo, special, label):
    tn, sn, imp, agg, defz = combo

    def run(ob):
        fl = install()
        set_mode("R")
        X = {v: rvar(f"x_{v}", special=special) for v in sk["inputs"]}
        Wt = {(bi, ri): rvar(f"w_{bi}_{ri}") for bi, b in enumerate(sk["blocks"]) for ri in range(len(b))}
        pre = wf(*X.values()) + [z3.And(x.v >= 0, x.v <= 1) for x in X.values()] + [unit(w) for w in Wt.values()]
        ins = {f"x_{v}": X[v] for v in X}
        ins.update({f"w_{bi}_{ri}": w for (bi, ri), w in Wt.items()})
        flags = {}

        def body():
            e = eg.build(fl, sk, registered_ops(fl, *combo), flags, Wt)
            for v, x in X.items():
                e.input_variable(v).value = x
            e.process()
            return e

        exp_outs, exp_fuzzy, exp_deg = eg.reference(sk, flags, Wt, X, registered_sem(*combo))
        for p in ob.paths(pre, body):
            if p.exc is not None:
                ob.unexpected(pre, p, label, ins, None)
                continue
            e = p.result
            claims = []
            for v in sk["outputs"]:
                ov = e.output_variable(v)
                got = ov.fuzzy.terms
                if len(got) != len(exp_fuzzy[v]) or any(a.term.name != t for a, (t, _) in zip(got, exp_fuzzy[v])):
                    ob.prove(pre, p, False, f"{label}: fuzzy output of {v} is {[a.term.name for a in got]}", ins, None)
                    claims = None
                    break
                for a, (t, d) in zip(got, exp_fuzzy[v]):
                    claims.append(same(a.degree, d))
                vv = elements(ov.value)
                claims.append(same(vv[0], exp_outs[v]) if len(vv) == 1 else z3.BoolVal(False))
            if claims is None:
                continue
            ob.prove(pre, p, z3.And(*claims), label, ins, None)

    return run


REG_SKS = [
    {"inputs": ["X"], "outputs": ["O"], "blocks": [[{"ante": ("p", "X", (), "a"), "concl": [("O", (), "a")]},
                                                    {"ante": ("p", "X", (), "b"), "concl": [("O", (), "b")]}]]},
    {"inputs": ["X", "Y"], "outputs": ["O"], "blocks": [[
        {"ante": ("or", ("p", "X", (), "a"), ("and", ("p", "Y", (), "a"), ("p", "X", ("not",), "b"))), "concl": [("O", (), "a")]},
        {"ante": ("and", ("p", "X", ("very",), "b"), ("p", "Y", (), "b")), "concl": [("O", (), "b")]},
        {"ante": ("p", "Y", (), "a"), "concl": [("O", (), "a")]}]]},
    {"inputs": ["X"], "outputs": ["O", "P"], "blocks": [
        [{"ante": ("p", "X", (), "a"), "concl": [("O", (), "a"), ("P", (), "b")]}],
        [{"ante": ("and", ("p", "O", (), "a"), ("p", "X", (), "b")), "concl": [("P", (), "a")]}]]},
]
COMBOS = [
    ("Minimum", "Maximum", "Minimum", "Maximum", ("Centroid", 2)),
    ("Minimum", "Maximum", "Minimum", "Maximum", ("Centroid", 4)),
    ("AlgebraicProduct", "AlgebraicSum", "AlgebraicProduct", "UnboundedSum", ("Centroid", 2)),
    ("BoundedDifference", "BoundedSum", "Minimum", "BoundedSum", ("Centroid", 2)),
    ("Minimum", "Maximum", None, None, ("WeightedAverage",)),
    ("AlgebraicProduct", "Maximum", None, "Maximum", ("WeightedSum",)),
    ("Minimum", "AlgebraicSum", None, None, ("WeightedSum",)),
]


def _obligations(tier, seed):
    obs = []
    rng = random.Random(seed)
    sks = eg.skeletons(tier, seed)
    for i, sk in enumerate(sks):
        pats = eg.flag_patterns(sk, pairs=0 if tier == "quick" else 2, rng=rng)
        if tier == "quick" and i >= 4:
            # seeded skeletons: all-on plus a sample of single-disabled patterns
            pats = [pats[0]] + rng.sample(pats[1:], min(3, len(pats) - 1))
        for fl_ in pats:
            nm = f"abstract/sk{i}/{eg.fname(fl_)}"
            if any(nm == n for n, _ in obs):
                continue          # the sampled pairs of disabled components may repeat
            obs.append((nm, ob_abstract(sk, fl_, nm)))
    for i, sk in enumerate(REG_SKS):
        for j, combo in enumerate(COMBOS):
            nm = f"registered/sk{i}/{combo[0]}-{combo[1]}-{combo[2]}-{combo[3]}-{'-'.join(map(str, combo[4]))}"
            if tier == "quick" and i == 1 and j == 1:
                continue      # three rules x resolution 4 x min/max exceeds the quick per-query budget (thorough tier)
            obs.append((nm, ob_registered(sk, combo, False, nm)))
            if j in (0, 4) and not (tier == "quick" and i == 1 and j == 0):
                obs.append((nm + "/special-inputs", ob_registered(sk, combo, True, nm + "/special-inputs")))
    return obs


def obligations(tier, seed):
    from . import conform
    from .c08 import ob_chained, ob_method, CMPS
    # "an output variable used in an antecedent sees exactly the contributions accumulated so far" under the activation methods that
    # decide rule by rule: rules of one block reading terms that earlier rules of the same activation concluded (harness shared with C08)
    chained = []
    for method, cmp in [("General", None), ("First", None), ("Last", None)] + [("Threshold", c) for c in ((">", "<=") if tier == "quick" else CMPS)]:
        nm = f"same-block-chain/{method}{cmp or ''}"
        chained.append((nm, ob_chained(method, cmp, label=nm, prop=PROPERTY)))
    # "the rules selected by its activation method", call after call on the same engine: two successive activations of one block with
    # fresh degrees (a method that reorders or caches the block's rules selects differently the second time; harness shared with C08)
    for method in ("First", "Last", "Highest", "Lowest"):
        nm = f"activation-twice/{method}/N3"
        chained.append((nm, ob_method(method, 3, (True,) * 3, (True,) * 3, None, rounds=2, label=nm, prop=PROPERTY)))
    # degrees that may be NaN (a NaN input): "the rules selected by its activation method" - NaN is neither positive nor above a
    # threshold, takes no slot and does not enter Proportional's sum
    for method in ("Proportional", "First", "Highest"):
        nm = f"activation-nan-degrees/{method}/N3"
        chained.append((nm, ob_method(method, 3, (True,) * 3, (True,) * 3, None, label=nm, prop=PROPERTY, nan_degrees=True)))
    return _obligations(tier, seed) + chained + conform.obligations(PROPERTY, tier)
