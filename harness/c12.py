"""C12  Output values follow the lock-previous / default / lock-range cascade."""
from __future__ import annotations

import itertools

import z3

from symfl import core
from symfl.core import S, set_mode, sym_array, sym0d, tf, same, ZB, kind_of, elements, SymArray, SymFloat
from symfl.install import install
from symfl.replay import lit, replay_fn

from .common import rvar, wf, finite

PROPERTY = "C12"
EXPLANATION = ("The defuzzifier is a stub (public Defuzzifier subclass) that returns *symbolic* values, so 'all sequences of NaN / "
               "in-range / out-of-range values' becomes 'all doubles'. The real OutputVariable.defuzzify (and Engine.process) runs on "
               "every split of a value sequence into successive calls/batches and every result kind a registered defuzzifier "
               "produces (0-d array as the integral ones, NumPy scalar as the weighted ones, 1-d batch); value and previous value "
               "after every call are compared with the cascade of the statement written as a recursive function, bit-exactly "
               "over IEEE doubles (Mode F: the code only tests NaN, copies and clips) and over extended reals (Mode R). Also: "
               "disabled variable untouched, clear() between calls, a defuzzifier that raises leaves value, previous value "
               "and fuzzy output unchanged.")
BOUNDS = {
    "quick": {"sequence": "total length L <= 3 defuzzified values, every composition into calls, size-1 calls in all three result kinds",
              "values": "every double incl. NaN/+-inf/+-0 for each defuzzified value, the default, and the value held before; "
                        "finite min <= max", "flags": "lock-previous x lock-range enumerated, default symbolic (NaN or not: forked)"},
    "thorough": {"sequence": "L <= 4 (size-1 calls: same kind throughout or one deviating kind), prior value also a batch of 2"},
}
OUTSIDE = ["sequences longer than the bound", "what the registered defuzzifiers return (C09/C10); here any value of the right kind",
           "min > max", "sign of zero produced by clipping (values compared numerically, NaN == NaN)"]
ASSUMPTIONS = ["min <= max, both finite", "the stub defuzzifier returns a fresh value/array on every call"]
STUBS = ["Defuzzifier subclass (public extension point) returning prepared symbolic values of a chosen kind (0-d array / NumPy scalar / 1-d array) or raising"]
OB_BUDGET_S = {"quick": 150, "thorough": 1200}
TOTAL_BUDGET_S = {"quick": 420, "thorough": 3000}

KINDS = ("0d", "scalar", "1d")

PYREF = '''
class _StubBody:
    def __init__(self, results): self.results = list(results); self.calls = 0
    def defuzzify(self, term, minimum, maximum):
        kind, vals = self.results[self.calls]; self.calls += 1
        if kind == "raise": raise RuntimeError("defuzzifier failed")
        if kind == "0d": return np.array(vals[0], dtype=float)
        if kind == "scalar": return np.float64(vals[0])
        return np.array(vals, dtype=float)
    def parameters(self): return ""
    def configure(self, parameters): pass
def Stub(results):
    # the stub is a member of the family whose result kind it returns: 0-d arrays come from integral defuzzifiers, NumPy scalars from weighted ones
    kinds = [k for k, _ in results if k not in ("raise", "clear")]
    base = {"0d": fl.Centroid, "scalar": fl.WeightedAverage}.get(kinds[0] if kinds else None, fl.Defuzzifier)
    return type("Stub", (_StubBody, base), {})(results)
def isnan(v): return v != v
def clip(v, lo, hi): return v if isnan(v) else min(max(v, lo), hi)
def cascade(calls, recent, lock_previous, lock_range, default, lo, hi):
    """the statement: per row: defuzzified; NaN & lock-previous -> most recent value; still NaN & default set -> default; clip"""
    out = []
    for kind, vals in calls:
        if kind == "clear":
            recent = nan; out.append(([nan], nan)); continue
        prev = recent; row = []
        for d in vals:
            v = d
            if lock_previous and isnan(v): v = recent
            if isnan(v) and not isnan(default): v = default
            if lock_range: v = clip(v, lo, hi)
            row.append(v); recent = v
        out.append((row, prev))
    return out
'''


def compositions(n):
    if n == 0:
        yield ()
        return
    for first in range(1, n + 1):
        for rest in compositions(n - first):
            yield (first,) + rest


def samev(a, b):
    """numerically identical, NaN == NaN (Mode F: fpEQ, so +0 == -0)"""
    a, b = tf(a), tf(b)
    if S.mode == "R":
        return same(a, b)
    return z3.Or(z3.And(z3.fpIsNaN(a.f), z3.fpIsNaN(b.f)), z3.fpEQ(a.f, b.f))


def _sel(c, a, b):
    return core._select(core.tb(c), a, b)


def oracle(calls, recent, lock_previous, lock_range, default, lo, hi):
    out = []
    for kind, vals in calls:
        if kind == "clear":
            recent = core.const(float("nan"))
            out.append(([recent], recent))
            continue
        prev = recent
        row = []
        for d in vals:
            v = tf(d)
            if lock_previous:
                v = _sel(core._isnan(v), recent, v)
            v = _sel(core._isnan(v) & ~core._isnan(default), default, v)
            if lock_range:
                v = core._clip(v, lo, hi)
            row.append(v)
            recent = v
        out.append((row, prev))
    return out


def make_stub(fl):
    class _StubBody:
        def __init__(self, results):
            self.results = list(results)
            self.calls = 0

        def defuzzify(self, term, minimum, maximum):
            kind, vals = self.results[self.calls]
            self.calls += 1
            if kind == "raise":
                raise RuntimeError("defuzzifier failed")
            if kind == "0d":
                return sym0d(vals[0])
            if kind == "scalar":
                return vals[0]
            return sym_array(list(vals))

        def parameters(self):
            return ""

        def configure(self, parameters):
            pass

    def Stub(results):
        # the stub is a member of the family whose result kind it returns (0-d arrays: integral defuzzifiers; NumPy scalars: weighted ones)
        kinds = [k for k, _ in results if k not in ("raise", "clear")]
        base = {"0d": fl.Centroid, "scalar": fl.WeightedAverage}.get(kinds[0] if kinds else None, fl.Defuzzifier)
        return type("Stub", (_StubBody, base), {})(results)

    return Stub


def _pre(mode, lo, hi, vals):
    if mode == "R":
        return [lo.v <= hi.v] + wf(*vals)
    return [finite(lo), finite(hi), z3.fpLEQ(lo.f, hi.f)]


def _replay(label, calls_shape, lp, lr, prior_batch, via_engine, key):
    """calls_shape: list of (kind, n) ; values come from the model as d0..  ; v0 (v0b), D, lo, hi"""

    def body(v):
        k = 0
        calls = []
        for kind, n in calls_shape:
            if kind in ("clear", "raise"):
                calls.append((kind, []))
                continue
            calls.append((kind, [v[f"d{k + i}"] for i in range(n)]))
            k += n
        prior = [v["v0b"], v["v0"]] if prior_batch else None
        lines = [PYREF,
                 f"calls = {_pycalls(calls)}",
                 f"lo, hi, D = {lit(v['lo'])}, {lit(v['hi'])}, {lit(v['D'])}",
                 f"o = fl.OutputVariable('o', minimum=lo, maximum=hi, lock_previous={lp}, lock_range={lr}, default_value=D, "
                 "defuzzifier=Stub([c for c in calls if c[0] != 'clear']), aggregation=fl.Maximum(), terms=[fl.Triangle('t', 0, 1, 2)])",
                 "act = fl.Activated(o.terms[0], 0.5, fl.Minimum())",
                 "e = fl.Engine('e', '', [], [o], [])",
                 f"o.value = {('np.array(' + lit(prior) + ')') if prior_batch else lit(v['v0'])}",
                 "recent = float(np.take(o.value, -1))",
                 f"exp = cascade(calls, recent, {lp}, {lr}, D, lo, hi)",
                 "bad = None",
                 "for (kind, vals), (row, prev) in zip(calls, exp):",
                 "    if kind == 'clear':",
                 "        o.clear(); continue",
                 "    before = (o.value, o.previous_value)",
                 "    if kind == 'raise':",
                 "        o.fuzzy.terms.append(act); terms_before = list(o.fuzzy.terms)",
                 "        try:",
                 "            o.defuzzify(); bad = 'no exception propagated'",
                 "        except RuntimeError:",
                 "            if not (same(o.value, before[0]) and same(o.previous_value, before[1]) and o.fuzzy.terms == terms_before): bad = 'state changed by a failing defuzzification: %r %r' % (o.value, o.previous_value)",
                 "        o.fuzzy.terms.clear(); continue",
                 f"    {'e.process()' if via_engine else 'o.defuzzify()'}",
                 "    got = np.atleast_1d(np.asarray(o.value, dtype=float)).tolist()",
                 "    if not same(got, row) or not same(o.previous_value, prev):",
                 "        bad = 'after %s%r: value %r previous %r, cascade says %r previous %r' % (kind, vals, got, o.previous_value, row, prev); break",
                 f"verdict(bad is not None, '{label}: ' + str(bad))"]
        return "\n".join(lines)

    return replay_fn(PROPERTY, label, body, key=key)


def _pycalls(calls):
    return "[" + ", ".join(f"({k!r}, {lit(list(vs))})" for k, vs in calls) + "]"


def ob_sequence(mode, shape, lp, lr, prior_batch=False, via_engine=False, name=""):
    """shape: tuple of (kind, n) with kind in 0d/scalar/1d/clear/raise"""

    def run(ob):
        fl = install()
        set_mode(mode)
        sp = mode == "R"
        n = sum(k for kd, k in shape if kd in KINDS)
        ds = [rvar(f"d{i}", special=sp) for i in range(n)]
        v0, v0b, D = rvar("v0", special=sp), rvar("v0b", special=sp), rvar("D", special=sp)
        lo, hi = rvar("lo"), rvar("hi")
        pre = _pre(mode, lo, hi, ds + [v0, v0b, D])
        ins = {f"d{i}": ds[i] for i in range(n)}
        ins.update({"v0": v0, "v0b": v0b, "D": D, "lo": lo, "hi": hi})
        Stub = make_stub(fl)
        calls, k = [], 0
        for kd, m in shape:
            calls.append((kd, ds[k:k + m] if kd in KINDS else []))
            k += m if kd in KINDS else 0
        # known-finding key: the shape of the failing call, not the values
        rp = _replay(name, list(shape), lp, lr, prior_batch, via_engine, key=None)

        def body():
            o = fl.OutputVariable("o", minimum=lo, maximum=hi, lock_previous=lp, lock_range=lr, default_value=D,
                                  defuzzifier=Stub([c for c in calls if c[0] != "clear"]), aggregation=fl.Maximum(),
                                  terms=[fl.Triangle("t", 0, 1, 2)])
            e = fl.Engine("e", "", [], [o], [])
            o.value = sym_array([v0b, v0]) if prior_batch else v0
            start = o.value
            obs = []
            for kd, vals in calls:
                if kd == "clear":
                    o.clear()
                    obs.append(("clear", o.value, o.previous_value, None))
                    continue
                if kd == "raise":
                    act = fl.Activated(o.terms[0], 0.5, fl.Minimum())
                    o.fuzzy.terms.append(act)
                    before = (o.value, o.previous_value, list(o.fuzzy.terms))
                    try:
                        o.defuzzify()
                        obs.append(("raise", None, None, "no exception propagated"))
                    except RuntimeError:
                        ok = len(o.fuzzy.terms) == len(before[2]) and all(a is b for a, b in zip(o.fuzzy.terms, before[2]))
                        obs.append(("raise", (o.value, before[0]), (o.previous_value, before[1]), None if ok else "fuzzy output changed"))
                    o.fuzzy.terms.clear()
                    continue
                if via_engine:
                    e.process()
                else:
                    o.defuzzify()
                obs.append((kd, o.value, o.previous_value, None))
            return start, obs

        for p in ob.paths(pre, body):
            if p.exc is not None:
                kinds = "+".join(sorted({kd for kd, _ in shape if kd in KINDS}))
                rp_e = _replay(name, list(shape), lp, lr, prior_batch, via_engine,
                               key=f"raises/{type(p.exc).__name__}/{kinds}")
                ob.unexpected(pre, p, f"{name}", ins, rp_e)
                continue
            start, obs = p.result
            recent = tf(elements(start)[-1])
            exp = oracle(calls, recent, lp, lr, D, lo, hi)
            for ci, ((kd, val, prev, note), (row, eprev)) in enumerate(zip(obs, exp)):
                lab = f"{name}/call{ci}:{kd}"
                if kd == "raise":
                    if note:
                        ob.prove(pre, p, False, f"{lab}: {note}", ins, rp)
                        continue
                    (va, vb), (pa, pb) = val, prev
                    ea, eb = elements(va), elements(vb)
                    claim = z3.And(len(ea) == len(eb), *[samev(x, y) for x, y in zip(ea, eb)], samev(pa, pb))
                    ob.prove(pre, p, claim, f"{lab}/state-unchanged", ins, rp)
                    continue
                got = elements(val)
                if len(got) != len(row):
                    ob.prove(pre, p, False, f"{lab}: {len(got)} values for {len(row)} rows", ins, rp)
                    continue
                claim = z3.And(*[samev(g, w) for g, w in zip(got, row)], samev(prev, eprev))
                ob.prove(pre, p, claim, lab, ins, rp)
                if ci == len(obs) - 1:
                    ob.expect_sat(pre, p, z3.Not(samev(got[-1], calls[ci][1][-1] if calls[ci][1] else core.const(0.0))), f"{name}/twin")

    return run


def ob_disabled(mode):
    def run(ob):
        fl = install()
        set_mode(mode)
        sp = mode == "R"
        d, v0, D, pv = rvar("d0", special=sp), rvar("v0", special=sp), rvar("D", special=sp), rvar("pv", special=sp)
        lo, hi = rvar("lo"), rvar("hi")
        pre = _pre(mode, lo, hi, [d, v0, D, pv])
        ins = {"d0": d, "v0": v0, "D": D, "lo": lo, "hi": hi}
        Stub = make_stub(fl)

        def body():
            res = []
            for lp, lr in itertools.product((False, True), repeat=2):
                st = Stub([("0d", [d])])
                o = fl.OutputVariable("o", minimum=lo, maximum=hi, lock_previous=lp, lock_range=lr, default_value=D, enabled=False,
                                      defuzzifier=st, aggregation=fl.Maximum(), terms=[fl.Triangle("t", 0, 1, 2)])
                o.value = v0
                o.previous_value = pv
                before = o.value
                act = fl.Activated(o.terms[0], 0.5, fl.Minimum())
                o.fuzzy.terms.append(act)
                o.defuzzify()
                res.append((before, o.value, o.previous_value, st.calls, len(o.fuzzy.terms) == 1 and o.fuzzy.terms[0] is act))
            return res

        def rbody(v):
            return "\n".join([PYREF, f"lo, hi, D = {lit(v['lo'])}, {lit(v['hi'])}, {lit(v['D'])}", "bad = None",
                              "for lp in (False, True):", "  for lr in (False, True):",
                              "    o = fl.OutputVariable('o', minimum=lo, maximum=hi, lock_previous=lp, lock_range=lr, default_value=D, enabled=False, "
                              f"defuzzifier=Stub([('0d', [{lit(v['d0'])}])]), aggregation=fl.Maximum(), terms=[fl.Triangle('t', 0, 1, 2)])",
                              f"    o.value = {lit(v['v0'])}; before = o.value; o.previous_value = 0.125",
                              "    o.defuzzify()",
                              "    if not (same(o.value, before) and same(o.previous_value, 0.125)): bad = (lp, lr, o.value, o.previous_value)",
                              "verdict(bad is not None, 'disabled output variable was modified by defuzzify(): %r' % (bad,))"])

        rp = replay_fn(PROPERTY, f"disabled/{mode}", rbody, key="disabled")
        for p in ob.paths(pre, body):
            if p.exc is not None:
                ob.unexpected(pre, p, f"disabled/{mode}", ins, rp)
                continue
            for before, val, prev, ncalls, fuzzy_ok in p.result:
                ob.prove(pre, p, z3.And(samev(val, before), samev(prev, pv), ncalls == 0, bool(fuzzy_ok)), f"disabled/{mode}/untouched", ins, rp)
            ob.expect_sat(pre, p, z3.Not(samev(p.result[0][1], d)), f"disabled/{mode}/twin")

    return run


def shapes(tier):
    out = []
    L = 3 if tier == "quick" else 4
    for n in range(1, L + 1):
        for comp in compositions(n):
            ones = [i for i, c in enumerate(comp) if c == 1]
            if tier == "quick" or n <= 3:
                kind_choices = list(itertools.product(KINDS, repeat=len(ones)))
            else:
                kind_choices = [(k,) * len(ones) for k in KINDS]
                for i in range(len(ones)):
                    for k in KINDS:
                        for k2 in KINDS:
                            if k != k2:
                                kc = [k] * len(ones)
                                kc[i] = k2
                                kind_choices.append(tuple(kc))
                kind_choices = sorted(set(kind_choices))
            for kc in kind_choices:
                it = iter(kc)
                out.append(tuple((next(it), 1) if c == 1 else ("1d", c) for c in comp))
    return out


def _nm(shape):
    return ",".join(f"{k}{n if k == '1d' else ''}" for k, n in shape)


def _obligations(tier, seed):
    obs = []
    for mode in ("F", "R"):
        obs.append((f"disabled/{mode}", ob_disabled(mode)))
        for shape in shapes(tier):
            for lp, lr in itertools.product((False, True), repeat=2):
                if mode == "R" and tier == "quick" and sum(n for _, n in shape) > 2:
                    continue
                nm = f"{mode}/{'LP' if lp else 'lp'}{'LR' if lr else 'lr'}/[{_nm(shape)}]"
                obs.append((nm, ob_sequence(mode, shape, lp, lr, name=nm)))
        # prior value a batch, Engine.process, clear and failing defuzzifier in between
        extra = [
            (("0d", 1), ("clear", 0), ("0d", 1)), (("1d", 2), ("clear", 0), ("1d", 2)),
            (("0d", 1), ("raise", 0), ("0d", 1)), (("1d", 2), ("raise", 0), ("1d", 1)), (("raise", 0), ("0d", 1)),
            (("scalar", 1), ("raise", 0), ("scalar", 1)),
        ]
        if tier != "quick":
            extra += [(("1d", 2), ("raise", 0), ("clear", 0), ("1d", 2)), (("0d", 1), ("0d", 1), ("raise", 0), ("0d", 1))]
        for shape in extra:
            for lp, lr in itertools.product((False, True), repeat=2):
                nm = f"{mode}/{'LP' if lp else 'lp'}{'LR' if lr else 'lr'}/[{_nm(shape)}]"
                obs.append((nm, ob_sequence(mode, shape, lp, lr, name=nm)))
        for shape in [(("0d", 1), ("0d", 1)), (("1d", 2), ("1d", 1)), (("scalar", 1), ("1d", 2))]:
            for lp, lr in itertools.product((False, True), repeat=2):
                nm = f"{mode}/{'LP' if lp else 'lp'}{'LR' if lr else 'lr'}/engine.process/[{_nm(shape)}]"
                obs.append((nm, ob_sequence(mode, shape, lp, lr, via_engine=True, name=nm)))
                nm = f"{mode}/{'LP' if lp else 'lp'}{'LR' if lr else 'lr'}/prior-batch/[{_nm(shape)}]"
                obs.append((nm, ob_sequence(mode, shape, lp, lr, prior_batch=True, name=nm)))
    return obs


def obligations(tier, seed):
    from . import conform
    return _obligations(tier, seed) + conform.obligations(PROPERTY, tier)
