"""C08  Activation methods trigger exactly the rules their definition selects."""
from __future__ import annotations

import itertools

import z3

from symfl import core
from symfl.core import S, set_mode, sym_array, tf, same, ZB, elements, SymInt, SymBool
from symfl.install import install
from symfl.replay import lit, replay_fn

from .common import rvar, unit

PROPERTY = "C08"
EXPLANATION = ("A rule block of n rules `if X is t_i then O is c_i` (abstract input terms: rule i's degree is its own symbol d_i in "
               "[0,1], so zeros, ties and equal-to-threshold are inside) is activated by the real RuleBlock.activate under each of the 7 "
               "methods with symbolic parameters (number of rules as a symbolic integer in [0,n+1], symbolic thresholds, all 6 "
               "comparators); every Python branch (counters, heap comparisons of (degree,index) tuples) is explored. Per path the "
               "triggered flags, activation degrees and fuzzy-output contributions of every rule must equal the declarative selection "
               "predicate of the statement (counting formulas in z3). Also: a second activation with fresh degrees (no stale state), "
               "unloaded/disabled rules, and every vector-incapable method must raise ValueError on a batch on every path.")
BOUNDS = {"quick": {"rules per block": "1..4 (Highest/Lowest 1..3)", "degrees": "all reals in [0,1] per rule", "n": "symbolic integer 0..rules+1",
                    "thresholds": "symbolic real in [0,1]", "patterns": "unloaded rule at each position; disabled rules for General/Threshold; "
                                                                         "disabled non-qualifying rule for the counting methods"},
          "thorough": {"rules per block": "1..5 (Highest/Lowest 1..4)"}}
OUTSIDE = ["blocks with more rules than the bound", "Proportional in floating point (the division is exact-real only)"]
ASSUMPTIONS = ["degrees finite in [0,1]; thresholds finite", "each rule concludes a distinct term so contributions are attributable"]
STUBS = ["abstract Term (public extension point) returning the symbolic degree of its rule",
         "scalar(<python number>) boxed as a 0-d symbolic array so that `sum_degrees += d` (Proportional) can be executed"]
OB_BUDGET_S = {"quick": 200, "thorough": 1500}

METHODS = ("General", "First", "Last", "Highest", "Lowest", "Proportional", "Threshold")
CMPS = {"<": lambda a, b: a < b, "<=": lambda a, b: a <= b, "==": lambda a, b: a == b, "!=": lambda a, b: z3.Not(a == b), ">=": lambda a, b: a >= b,
        ">": lambda a, b: a > b}

PYREF = '''
class Fixed(fl.Term):
    def __init__(self, name, seq): super().__init__(name); self.seq = list(seq); self.k = 0
    def membership(self, x): return np.float64(self.seq[self.k])
def oracle(method, D, loaded, enabled, n=None, t=None, cmp=None):
    """-> (contributes[i], triggered[i], degree[i])"""
    N = len(D); idx = range(N)
    sel = [False] * N; deg = [D[i] if loaded[i] else 0.0 for i in idx]
    if method == "General":
        sel = [loaded[i] for i in idx]
    elif method in ("First", "Last"):
        order = list(idx) if method == "First" else list(reversed(idx)); c = 0
        for i in order:
            if loaded[i] and D[i] > 0 and D[i] >= t and c < n: sel[i] = True; c += 1
    elif method in ("Highest", "Lowest"):
        cand = [i for i in idx if loaded[i] and D[i] > 0]
        cand.sort(key=lambda i: ((-D[i]) if method == "Highest" else D[i], i))
        for i in cand[:max(n, 0)]: sel[i] = True
    elif method == "Proportional":
        s = sum(D[i] for i in idx if loaded[i] and D[i] > 0)
        for i in idx:
            if loaded[i] and D[i] > 0: sel[i] = True; deg[i] = D[i] / s
    elif method == "Threshold":
        import operator
        f = {"<": operator.lt, "<=": operator.le, "==": operator.eq, "!=": operator.ne, ">=": operator.ge, ">": operator.gt}[cmp]
        sel = [loaded[i] and bool(f(D[i], t)) for i in idx]
    contributes = [sel[i] and enabled[i] for i in idx]
    triggered = [contributes[i] and deg[i] > 0 for i in idx]
    return contributes, triggered, deg
'''


class _FP:
    """z3 terms that compare like IEEE doubles (Mode F): the oracle below is written with python operators"""

    def __init__(self, f):
        self.f = f

    def __gt__(self, o): return z3.fpGT(self.f, _fp(o))
    def __ge__(self, o): return z3.fpGEQ(self.f, _fp(o))
    def __lt__(self, o): return z3.fpLT(self.f, _fp(o))
    def __le__(self, o): return z3.fpLEQ(self.f, _fp(o))
    def __eq__(self, o): return z3.fpEQ(self.f, _fp(o))
    __hash__ = None


def _fp(o):
    return o.f if isinstance(o, _FP) else core.fv(float(o))


class _RN:
    """a real that may be NaN (Mode R with the NaN flag): comparisons are false on NaN, `!=` is true - as for IEEE doubles"""

    def __init__(self, v, nan):
        self.v, self.nan = v, nan

    @staticmethod
    def of(o):
        return o if isinstance(o, _RN) else _RN(o if z3.is_expr(o) else z3.RealVal(o), z3.BoolVal(False))

    def _c(self, o, f):
        o = _RN.of(o)
        return z3.And(z3.Not(self.nan), z3.Not(o.nan), f(self.v, o.v))

    def __gt__(self, o): return self._c(o, lambda a, b: a > b)
    def __ge__(self, o): return self._c(o, lambda a, b: a >= b)
    def __lt__(self, o): return self._c(o, lambda a, b: a < b)
    def __le__(self, o): return self._c(o, lambda a, b: a <= b)
    def __eq__(self, o): return self._c(o, lambda a, b: a == b)
    __hash__ = None


def z_oracle(method, D, loaded, enabled, n=None, t=None, cmp=None, zero=None):
    """declarative selection predicates over the z3 reals (or _FP doubles) D[i]; -> (contributes[i] Bool, triggered[i] Bool, degree[i])"""
    N = len(D)
    idx = range(N)
    T, F = z3.BoolVal(True), z3.BoolVal(False)
    L = [T if loaded[i] else F for i in idx]
    deg = [D[i] if loaded[i] else (z3.RealVal(0) if zero is None else zero) for i in idx]

    def count(conds):
        return z3.Sum([z3.If(c, 1, 0) for c in conds]) if conds else z3.IntVal(0)

    if method == "General":
        sel = list(L)
    elif method in ("First", "Last"):
        q = [z3.And(L[i], D[i] > 0, D[i] >= t) for i in idx]
        sel = []
        for i in idx:
            before = [q[j] for j in idx if (j < i if method == "First" else j > i)]
            sel.append(z3.And(q[i], count(before) < n))
    elif method in ("Highest", "Lowest"):
        pos = [z3.And(L[i], D[i] > 0) for i in idx]
        sel = []
        for i in idx:
            better = [z3.And(pos[j], z3.Or((D[j] > D[i]) if method == "Highest" else (D[j] < D[i]), z3.And(D[j] == D[i], j < i))) for j in idx if j != i]
            sel.append(z3.And(pos[i], count(better) < n))
    elif method == "Proportional":
        pos = [z3.And(L[i], D[i] > 0) for i in idx]
        val = lambda d: d.v if isinstance(d, _RN) else d      # noqa: E731
        s = z3.Sum([z3.If(pos[i], val(D[i]), 0) for i in idx])
        sel = pos
        if any(isinstance(d, _RN) for d in D):
            deg = [_RN(z3.If(pos[i], val(D[i]) / s, val(deg[i])), z3.And(z3.Not(pos[i]), _RN.of(deg[i]).nan)) for i in idx]
        else:
            deg = [z3.If(pos[i], D[i] / s, deg[i]) for i in idx]
    elif method == "Threshold":
        sel = [z3.And(L[i], CMPS[cmp](D[i], t)) for i in idx]
    else:
        raise AssertionError(method)
    E = [T if enabled[i] else F for i in idx]
    contributes = [z3.And(sel[i], E[i]) for i in idx]
    triggered = [z3.And(contributes[i], deg[i] > 0) for i in idx]
    return contributes, triggered, deg


def make_method(fl, method, nsym, tsym, cmp, reconfigure=False):
    if reconfigure:
        # built with other parameters first, then reconfigured through its public attributes (as FLL-less code does)
        if method in ("First", "Last"):
            m = getattr(fl, method)(1, 0.5)
            m.rules, m.threshold = nsym, tsym
            return m
        if method in ("Highest", "Lowest"):
            m = getattr(fl, method)(1)
            m.rules = nsym
            return m
        if method == "Threshold":
            other = ">" if cmp != ">" else "<="
            m = fl.Threshold(other, 0.5)
            m.comparator = fl.Threshold.Comparator(cmp)
            m.threshold = tsym
            return m
    if method in ("General", "Proportional"):
        return getattr(fl, method)()
    if method in ("First", "Last"):
        return getattr(fl, method)(nsym, tsym)
    if method in ("Highest", "Lowest"):
        return getattr(fl, method)(nsym)
    return fl.Threshold(cmp, tsym)


def ob_method(method, N, loaded, enabled, cmp=None, rounds=1, zero_disabled=False, label="", mode="R", reconfigure=False, prop=None, nan_degrees=False):
    """mode "F": degrees and thresholds are IEEE doubles (bit-exact comparisons and subtractions): an ordering key that is
    only equivalent over the reals (e.g. 1 - d instead of -d) shows up here"""
    def run(ob):
        fl = install()
        set_mode(mode)
        S.box_scalars = True
        D = [[rvar(f"d{r}_{i}", special=nan_degrees) for i in range(N)] for r in range(rounds)]
        nsym = SymInt.var("n")
        t = rvar("t")
        if mode == "R" and nan_degrees:
            # a degree is a number in [0,1] or NaN (an input that is NaN gives NaN degrees): NaN is neither > 0 nor >= t
            pre = [z3.And(z3.Not(ZB(x.pinf)), z3.Not(ZB(x.ninf)), z3.Or(ZB(x.nan), z3.And(x.v >= 0, x.v <= 1))) for row in D for x in row]
            pre += [nsym.i >= 0, nsym.i <= N + 1, t.v >= 0, t.v <= 1]
        elif mode == "R":
            pre = [unit(x) for row in D for x in row] + [nsym.i >= 0, nsym.i <= N + 1, t.v >= 0, t.v <= 1]
        else:
            pre = [unit(x) for row in D for x in row] + [nsym.i >= 0, nsym.i <= N + 1, unit(t)]
        if zero_disabled:
            pre += [(D[r][i].v == 0) if mode == "R" else z3.fpIsZero(D[r][i].f) for r in range(rounds) for i in range(N) if not enabled[i]]
        ins = {f"d{r}_{i}": D[r][i] for r in range(rounds) for i in range(N)}
        ins.update({"n": nsym, "t": t})

        def rbody(v):
            Dv = [[v[f"d{r}_{i}"] for i in range(N)] for r in range(rounds)]
            ctor = {"General": "fl.General()", "Proportional": "fl.Proportional()", "First": f"fl.First({v['n']}, {lit(v['t'])})",
                    "Last": f"fl.Last({v['n']}, {lit(v['t'])})", "Highest": f"fl.Highest({v['n']})", "Lowest": f"fl.Lowest({v['n']})",
                    "Threshold": f"fl.Threshold({cmp!r}, {lit(v['t'])})"}[method]
            if reconfigure:
                ctor = {"First": f"fl.First(1, 0.5)", "Last": "fl.Last(1, 0.5)", "Highest": "fl.Highest(1)", "Lowest": "fl.Lowest(1)",
                        "Threshold": f"fl.Threshold({('>' if cmp != '>' else '<=')!r}, 0.5)"}[method]
                setters = {"First": f"rb.activation.rules = {v['n']}; rb.activation.threshold = {lit(v['t'])}", "Last": f"rb.activation.rules = {v['n']}; rb.activation.threshold = {lit(v['t'])}",
                           "Highest": f"rb.activation.rules = {v['n']}", "Lowest": f"rb.activation.rules = {v['n']}",
                           "Threshold": f"rb.activation.comparator = fl.Threshold.Comparator({cmp!r}); rb.activation.threshold = {lit(v['t'])}"}[method]
            else:
                setters = "pass"
            return "\n".join([PYREF, f"N = {N}; D = {lit(Dv)}; loaded = {list(loaded)!r}; enabled = {list(enabled)!r}",
                              "terms = [Fixed('t%d' % i, [D[r][i] for r in range(len(D))]) for i in range(N)]",
                              "X = fl.InputVariable('X', minimum=0, maximum=1, terms=terms); X.value = 0.5",
                              "O = fl.OutputVariable('O', minimum=0, maximum=1, aggregation=fl.Maximum(), defuzzifier=fl.Centroid(), terms=[fl.Triangle('c%d' % i, 0, 0.5, 1) for i in range(N)])",
                              "e = fl.Engine('e', '', [X], [O], [])",
                              "rules = [fl.Rule.create('if X is t%d then O is c%d' % (i, i), e if loaded[i] else None) for i in range(N)]",
                              "for i in range(N): rules[i].enabled = enabled[i]",
                              f"rb = fl.RuleBlock('rb', conjunction=fl.Minimum(), disjunction=fl.Maximum(), implication=fl.Minimum(), activation={ctor}, rules=rules)",
                              "e.rule_blocks = [rb]; bad = None", setters,
                              "for r in range(len(D)):",
                              "    for tm in terms: tm.k = r",
                              "    O.fuzzy.clear(); rb.activate()",
                              f"    con, trig, deg = oracle({method!r}, D[r], loaded, enabled, n={v['n']}, t={lit(v['t'])}, cmp={cmp!r})",
                              "    for i in range(N):",
                              "        acts = [a for a in O.fuzzy.terms if a.term.name == 'c%d' % i]",
                              "        ok = len(acts) == (1 if con[i] else 0) and bool(rules[i].triggered) == trig[i] and same(rules[i].activation_degree, deg[i], 1e-9) and all(same(a.degree, 0.0 if deg[i] != deg[i] else deg[i], 1e-9) for a in acts)      # a contribution carries the sanitised degree (NaN -> 0, C07)",
                              "        if not ok: bad = 'round %d rule %d: %d contributions, triggered=%r, degree=%r; definition: contributes=%r triggered=%r degree=%r' % (r, i, len(acts), bool(rules[i].triggered), rules[i].activation_degree, con[i], trig[i], deg[i]); break",
                              "    if bad: break",
                              f"verdict(bad is not None, '{method} D=%r n={v['n']} t=%r: %s' % (D, {lit(v['t'])}, bad))"])

        rp = replay_fn(prop or PROPERTY, label, rbody, key=None)

        def body():
            box = {"r": 0}

            class Abs(fl.Term):
                def __init__(self, name, i):
                    super().__init__(name)
                    self.i = i

                def membership(self, x):
                    return D[box["r"]][self.i]

            X = fl.InputVariable("X", minimum=0, maximum=1, terms=[Abs(f"t{i}", i) for i in range(N)])
            X.value = 0.5
            O = fl.OutputVariable("O", minimum=0, maximum=1, aggregation=fl.Maximum(), defuzzifier=fl.Centroid(),
                                  terms=[fl.Triangle(f"c{i}", 0, 0.5, 1) for i in range(N)])
            e = fl.Engine("e", "", [X], [O], [])
            rules = [fl.Rule.create(f"if X is t{i} then O is c{i}", e if loaded[i] else None) for i in range(N)]
            for i in range(N):
                rules[i].enabled = enabled[i]
            rb = fl.RuleBlock("rb", conjunction=fl.Minimum(), disjunction=fl.Maximum(), implication=fl.Minimum(),
                              activation=make_method(fl, method, nsym, t, cmp, reconfigure), rules=rules)
            e.rule_blocks = [rb]
            out = []
            for r in range(rounds):
                box["r"] = r
                O.fuzzy.clear()
                rb.activate()
                out.append([(rules[i].triggered, rules[i].activation_degree,
                             [a.degree for a in O.fuzzy.terms if a.term is O.terms[i]]) for i in range(N)]
                           + [len(O.fuzzy.terms)])
            return out

        for p in ob.paths(pre, body):
            if p.exc is not None:
                ob.unexpected(pre, p, label, ins, rp)
                continue
            for r in range(rounds):
                if mode == "R" and nan_degrees:
                    con, trig, deg = z_oracle(method, [_RN(x.v, ZB(x.nan)) for x in D[r]], loaded, enabled, n=nsym.i, t=_RN.of(t.v), cmp=cmp, zero=_RN.of(0))
                    deg = [_RN.of(d) for d in deg]
                    is_deg = lambda x, d: z3.Or(z3.And(d.nan, ZB(x.nan)), z3.And(z3.Not(d.nan), ZB(x.fin()), x.v == d.v))   # noqa: E731
                elif mode == "R":
                    con, trig, deg = z_oracle(method, [x.v for x in D[r]], loaded, enabled, n=nsym.i, t=t.v, cmp=cmp)
                    is_deg = lambda x, d: z3.And(ZB(x.fin()), x.v == d)   # noqa: E731
                else:
                    con, trig, deg = z_oracle(method, [_FP(x.f) for x in D[r]], loaded, enabled, n=nsym.i, t=_FP(t.f), cmp=cmp, zero=_FP(core.fv(0.0)))
                    is_deg = lambda x, d: z3.fpEQ(x.f, d.f)               # noqa: E731
                res = p.result[r]
                total = res[-1]
                claims = []
                for i in range(N):
                    tr, ad, acts = res[i]
                    tre = elements(tr)
                    claims.append(ZB(core.tb(tre[0])) == trig[i] if len(tre) == 1 else z3.BoolVal(False))
                    adv = tf(ad)
                    claims.append(is_deg(adv, deg[i]))
                    claims.append(con[i] == z3.BoolVal(len(acts) == 1))
                    if len(acts) > 1:
                        claims.append(z3.BoolVal(False))
                    for a in acts:
                        av = tf(a)
                        # a contribution carries the sanitised degree (NaN -> 0, C07)
                        claims.append(is_deg(av, _RN(z3.If(deg[i].nan, z3.RealVal(0), deg[i].v), z3.BoolVal(False)) if isinstance(deg[i], _RN) else deg[i]))
                claims.append(z3.BoolVal(total == sum(len(res[i][2]) for i in range(N))))
                ob.prove(pre, p, z3.And(*claims), f"{label}/round{r}", ins, rp)
            last = tf(p.result[-1][0][1])
            ob.expect_sat(pre, p, (last.v == 2) if mode == "R" else z3.fpEQ(last.f, core.fv(2.0)), f"{label}/twin")

    return run


def ob_batch(method, cmp=None, label=""):
    """vector-incapable methods must reject a batch on every path; General must accept it"""

    def run(ob):
        fl = install()
        set_mode("R")
        S.box_scalars = True
        N, B = 2, 2
        D = [[rvar(f"d{i}_{b}") for b in range(B)] for i in range(N)]
        nsym, t = SymInt.var("n"), rvar("t")
        pre = [unit(x) for row in D for x in row] + [nsym.i >= 0, nsym.i <= N + 1, t.v >= 0, t.v <= 1]
        ins = {f"d{i}_{b}": D[i][b] for i in range(N) for b in range(B)}
        ins.update({"n": nsym, "t": t})

        def rbody(v):
            ctor = {"General": "fl.General()", "Proportional": "fl.Proportional()", "First": f"fl.First({v['n']}, {lit(v['t'])})",
                    "Last": f"fl.Last({v['n']}, {lit(v['t'])})", "Highest": f"fl.Highest({v['n']})", "Lowest": f"fl.Lowest({v['n']})",
                    "Threshold": f"fl.Threshold({cmp!r}, {lit(v['t'])})"}[method]
            return "\n".join(["globals()['EXPECT_NO_EXCEPTION'] = False",
                              "class Fixed(fl.Term):\n    def __init__(self, name, vals): super().__init__(name); self.vals = vals\n    def membership(self, x): return np.array(self.vals, dtype=float)",
                              f"D = {lit([[v[f'd{i}_{b}'] for b in range(B)] for i in range(N)])}",
                              "X = fl.InputVariable('X', minimum=0, maximum=1, terms=[Fixed('t%d' % i, D[i]) for i in range(2)]); X.value = np.array([0.5, 0.5])",
                              "O = fl.OutputVariable('O', minimum=0, maximum=1, aggregation=fl.Maximum(), defuzzifier=fl.Centroid(), terms=[fl.Triangle('c%d' % i, 0, 0.5, 1) for i in range(2)])",
                              "e = fl.Engine('e', '', [X], [O], [])",
                              "rules = [fl.Rule.create('if X is t%d then O is c%d' % (i, i), e) for i in range(2)]",
                              f"rb = fl.RuleBlock('rb', conjunction=fl.Minimum(), disjunction=fl.Maximum(), implication=fl.Minimum(), activation={ctor}, rules=rules)",
                              "try:", "    rb.activate(); raised = None", "except ValueError as ex:", "    raised = ex",
                              f"if {'raised is not None' if method == 'General' else 'raised is None'}: verdict(True, '{method} on a batch of 2: raised=%r' % (raised,))",
                              ("verdict(False, 'General accepts the batch')" if method == "General" else "pass"),
                              PYREF,
                              "for i, tm in enumerate(X.terms): tm.vals = D[i][0]",
                              "X.value = 0.5; O.fuzzy.clear(); rb.activate()",
                              f"con, trig, deg = oracle({method!r}, [D[0][0], D[1][0]], [True, True], [True, True], n={v['n']}, t={lit(v['t'])}, cmp={cmp!r})",
                              "bad = [r.text for r in rb.rules] != [r.text for r in rules] and 'the rule list was reordered' or None",
                              "for i in range(2):",
                              "    acts = [a for a in O.fuzzy.terms if a.term.name == 'c%d' % i]",
                              "    if len(acts) != (1 if con[i] else 0) or bool(rules[i].triggered) != trig[i] or not same(rules[i].activation_degree, deg[i], 1e-9): bad = bad or 'rule %d after the rejected batch: %d contributions, triggered=%r, degree=%r; definition %r %r %r' % (i, len(acts), bool(rules[i].triggered), rules[i].activation_degree, con[i], trig[i], deg[i])",
                              f"verdict(bad is not None, '{method}: scalar activation after a rejected batch: %s' % (bad,))"])

        rp = replay_fn(PROPERTY, label, rbody, key=None)

        def body():
            class Abs(fl.Term):
                def __init__(self, name, i):
                    super().__init__(name)
                    self.i = i

                def membership(self, x):
                    return sym_array(D[self.i]) if mode["batch"] else D[self.i][0]

            mode = {"batch": True}
            X = fl.InputVariable("X", minimum=0, maximum=1, terms=[Abs(f"t{i}", i) for i in range(N)])
            O = fl.OutputVariable("O", minimum=0, maximum=1, aggregation=fl.Maximum(), defuzzifier=fl.Centroid(),
                                  terms=[fl.Triangle(f"c{i}", 0, 0.5, 1) for i in range(N)])
            e = fl.Engine("e", "", [X], [O], [])
            rules = [fl.Rule.create(f"if X is t{i} then O is c{i}", e) for i in range(N)]
            rb = fl.RuleBlock("rb", conjunction=fl.Minimum(), disjunction=fl.Maximum(), implication=fl.Minimum(),
                              activation=make_method(fl, method, nsym, t, cmp), rules=rules)
            try:
                rb.activate()
            except ValueError:
                # a rejected batch leaves the block as it was: the same block then activates on scalar degrees (first column) as ever
                if method == "General":
                    raise
                mode["batch"] = False
                O.fuzzy.clear()
                rb.activate()
                return "after-rejection", [(r.triggered, r.activation_degree, [a.degree for a in O.fuzzy.terms if a.term is O.terms[i]]) for i, r in enumerate(rules)], [id(r) for r in rb.rules] == [id(r) for r in rules]
            return [(r.triggered, r.activation_degree) for r in rules], [a.degree for a in O.fuzzy.terms]

        seen = 0
        for p in ob.paths(pre, body, catch=(Exception,)):
            seen += 1
            if method == "General":
                if p.exc is not None:
                    ob.unexpected(pre, p, label, ins, rp)
                    continue
                rs, acts = p.result
                claims = [z3.BoolVal(len(acts) == N)]
                for i in range(N):
                    claims += [same(x, y) for x, y in zip(elements(rs[i][1]), D[i])]
                    claims += [same(x, y) for x, y in zip(elements(acts[i]), D[i])] if len(acts) == N else []
                    claims += [ZB(core.tb(x)) == (y.v > 0) for x, y in zip(elements(rs[i][0]), D[i])]
                ob.prove(pre, p, z3.And(*claims), f"{label}/batch-elementwise", ins, rp)
            else:
                if p.exc is None and isinstance(p.result, tuple) and p.result and p.result[0] == "after-rejection":
                    ob.prove(pre, p, True, f"{label}/rejects", ins, rp)
                    _, rs, same_order = p.result
                    con, trig, deg = z_oracle(method, [D[i][0].v for i in range(N)], (True,) * N, (True,) * N, n=nsym.i, t=t.v, cmp=cmp)
                    claims = [z3.BoolVal(bool(same_order))]
                    for i in range(N):
                        tr, ad, acts = rs[i]
                        claims.append(ZB(core.tb(elements(tr)[0])) == trig[i])
                        claims.append(z3.And(ZB(tf(ad).fin()), tf(ad).v == deg[i]))
                        claims.append(con[i] == z3.BoolVal(len(acts) == 1))
                    ob.prove(pre, p, z3.And(*claims), f"{label}/scalar-after-rejected-batch", ins, rp)
                elif isinstance(p.exc, ValueError):
                    ob.prove(pre, p, True, f"{label}/rejects", ins, rp)
                elif p.exc is not None:
                    ob.unexpected(pre, p, label, ins, rp)
                else:
                    ob.prove(pre, p, False, f"{label}: batch accepted by a vector-incapable method", ins, rp)
        if seen == 0:
            ob.error("no path")

    return run

CHAIN_RULES = ["if X is t0 then O is c0", "if O is c0 then O is c1", "if O is c1 or X is t1 then O is c2", "if O is c2 and O is c0 then O is c1"]
CHAIN_CONCL = [0, 1, 2, 1]

PY_CHAIN = """
def chain_oracle(method, D, n, t, cmp):
    import operator
    f = {"<": operator.lt, "<=": operator.le, "==": operator.eq, "!=": operator.ne, ">=": operator.ge, ">": operator.gt}.get(cmp)
    acts = {0: [], 1: [], 2: []}
    out = lambda c: max([0.0] + acts[c])
    order = [3, 2, 1, 0] if method == "Last" else [0, 1, 2, 3]
    deg, sel, count = [None] * 4, [False] * 4, 0
    for i in order:
        d = [lambda: D[0], lambda: out(0), lambda: max(out(1), D[1]), lambda: min(out(2), out(0))][i]()
        if method == "General": s = True
        elif method == "Threshold": s = bool(f(d, t))
        else:
            s = d > 0 and d >= t and count < n
            count += 1 if s else 0
        deg[i], sel[i] = d, s
        if s: acts[CHAIN_CONCL[i]].append(d)
    return sel, [sel[i] and deg[i] > 0 for i in range(4)], deg
"""


def ob_chained(method, cmp=None, label="", prop=None):
    """rules of ONE block that read, in their antecedents, output terms concluded by earlier rules of the same activation: under the
    methods that decide rule by rule (General, Threshold, First, Last in its reverse order) a rule sees what the rules before it
    have contributed so far, i.e. degrees are computed and rules fired in one interleaved pass"""
    def run(ob):
        fl = install()
        set_mode("R")
        S.box_scalars = True
        D = [rvar("d0"), rvar("d1")]
        nsym, t = SymInt.var("n"), rvar("t")
        pre = [unit(x) for x in D] + [nsym.i >= 0, nsym.i <= 5, t.v >= 0, t.v <= 1]
        ins = {"d0": D[0], "d1": D[1], "n": nsym, "t": t}

        def rbody(v):
            ctor = {"General": "fl.General()", "First": f"fl.First({v['n']}, {lit(v['t'])})", "Last": f"fl.Last({v['n']}, {lit(v['t'])})",
                    "Threshold": f"fl.Threshold({cmp!r}, {lit(v['t'])})"}[method]
            return "\n".join([PYREF, f"CHAIN_CONCL = {CHAIN_CONCL!r}", PY_CHAIN, f"D = {lit([v['d0'], v['d1']])}",
                              "X = fl.InputVariable('X', minimum=0, maximum=1, terms=[Fixed('t%d' % i, [D[i]]) for i in range(2)]); X.value = 0.5",
                              "O = fl.OutputVariable('O', minimum=0, maximum=1, aggregation=fl.Maximum(), defuzzifier=fl.Centroid(), terms=[fl.Triangle('c%d' % i, 0, 0.5, 1) for i in range(3)])",
                              "e = fl.Engine('e', '', [X], [O], [])",
                              f"rules = [fl.Rule.create(r, e) for r in {CHAIN_RULES!r}]",
                              f"rb = fl.RuleBlock('rb', conjunction=fl.Minimum(), disjunction=fl.Maximum(), implication=fl.Minimum(), activation={ctor}, rules=rules)",
                              "e.rule_blocks = [rb]; O.fuzzy.clear(); rb.activate(); bad = None",
                              f"sel, trig, deg = chain_oracle({method!r}, D, {v['n']}, {lit(v['t'])}, {cmp!r})",
                              "for i in range(4):",
                              "    if bool(rules[i].triggered) != trig[i] or not same(rules[i].activation_degree, deg[i], 1e-9):",
                              "        bad = 'rule %d (%s): triggered=%r degree=%r; interleaved definition: triggered=%r degree=%r' % (i, rules[i].text, bool(rules[i].triggered), rules[i].activation_degree, trig[i], deg[i]); break",
                              "if not bad and len(O.fuzzy.terms) != sum(sel): bad = '%d contributions, expected %d' % (len(O.fuzzy.terms), sum(sel))",
                              f"verdict(bad is not None, '{method} chained D=%r n={v['n']} t=%r: %s' % (D, {lit(v['t'])}, bad))"])

        rp = replay_fn(prop or PROPERTY, label, rbody, key=None)

        def body():
            class Abs(fl.Term):
                def __init__(self, name, i):
                    super().__init__(name)
                    self.i = i

                def membership(self, x):
                    return D[self.i]

            X = fl.InputVariable("X", minimum=0, maximum=1, terms=[Abs(f"t{i}", i) for i in range(2)])
            X.value = 0.5
            O = fl.OutputVariable("O", minimum=0, maximum=1, aggregation=fl.Maximum(), defuzzifier=fl.Centroid(),
                                  terms=[fl.Triangle(f"c{i}", 0, 0.5, 1) for i in range(3)])
            e = fl.Engine("e", "", [X], [O], [])
            rules = [fl.Rule.create(r, e) for r in CHAIN_RULES]
            rb = fl.RuleBlock("rb", conjunction=fl.Minimum(), disjunction=fl.Maximum(), implication=fl.Minimum(),
                              activation=make_method(fl, method, nsym, t, cmp), rules=rules)
            e.rule_blocks = [rb]
            rb.activate()
            return [(r.triggered, r.activation_degree) for r in rules], len(O.fuzzy.terms)

        zmax = lambda a, b: z3.If(a >= b, a, b)     # noqa: E731
        zmin = lambda a, b: z3.If(a <= b, a, b)     # noqa: E731
        for p in ob.paths(pre, body):
            if p.exc is not None:
                ob.unexpected(pre, p, label, ins, rp)
                continue
            acts = {0: [], 1: [], 2: []}

            def out(c):
                acc = z3.RealVal(0)
                for cond, d in acts[c]:
                    acc = z3.If(cond, zmax(acc, d), acc)
                return acc

            order = [3, 2, 1, 0] if method == "Last" else [0, 1, 2, 3]
            deg, sel, count = [None] * 4, [None] * 4, z3.IntVal(0)
            for i in order:
                d = [lambda: D[0].v, lambda: out(0), lambda: zmax(out(1), D[1].v), lambda: zmin(out(2), out(0))][i]()
                if method == "General":
                    sl = z3.BoolVal(True)
                elif method == "Threshold":
                    sl = CMPS[cmp](d, t.v)
                else:
                    sl = z3.And(d > 0, d >= t.v, count < nsym.i)
                    count = count + z3.If(sl, 1, 0)
                deg[i], sel[i] = d, sl
                acts[CHAIN_CONCL[i]].append((sl, d))
            rs, total = p.result
            claims = []
            for i in range(4):
                tre = elements(rs[i][0])
                claims.append(ZB(core.tb(tre[0])) == z3.And(sel[i], deg[i] > 0) if len(tre) == 1 else z3.BoolVal(False))
                adv = tf(rs[i][1])
                claims.append(z3.And(ZB(adv.fin()), adv.v == deg[i]))
            claims.append(z3.Sum([z3.If(c, 1, 0) for c in sel]) == total)
            ob.prove(pre, p, z3.And(*claims), label, ins, rp)
            ob.expect_sat(pre, p, tf(rs[3][1]).v == 2, f"{label}/twin")

    return run


def obligations(tier, seed):
    obs = []
    for method, cmp in [("General", None), ("First", None), ("Last", None)] + [("Threshold", c) for c in ((">", ">=", "<") if tier == "quick" else CMPS)]:
        nm = f"{method}{cmp or ''}/chained"
        obs.append((nm, ob_chained(method, cmp, label=nm)))
    big = 4 if tier == "quick" else 5
    for method in METHODS:
        maxn = big - 1 if method in ("Highest", "Lowest") else big
        cmps = list(CMPS) if method == "Threshold" else [None]
        for cmp in cmps:
            tag = f"{method}{cmp or ''}"
            for N in range(1, maxn + 1):
                if method == "Threshold" and N > 2 and cmp not in (">", "<="):
                    continue
                allT = (True,) * N
                nm = f"{tag}/N{N}/all"
                obs.append((nm, ob_method(method, N, allT, allT, cmp, label=nm)))
            # unloaded rule at each position (N = 3)
            for k in range(3):
                ld = tuple(i != k for i in range(3))
                nm = f"{tag}/N3/unloaded{k}"
                obs.append((nm, ob_method(method, 3, ld, (True,) * 3, cmp, label=nm)))
            # disabled rules
            for k in range(3):
                en = tuple(i != k for i in range(3))
                # a disabled rule keeps its degree: read literally, the statement selects "the first n rules with degree > 0 and >= t"
                # (resp. the n largest/smallest) whether enabled or not - a selected disabled rule uses its slot and contributes nothing
                nm = f"{tag}/N3/disabled{k}"
                obs.append((nm, ob_method(method, 3, (True,) * 3, en, cmp, zero_disabled=False, label=nm)))
            # two successive activations with fresh degrees: no stale state
            for N in ((2, 3) if tier == "quick" else (2, 3, 4)):
                if method in ("Highest", "Lowest") and N > 3:
                    continue
                if method == "Threshold" and cmp not in (">", "=="):
                    continue
                nm = f"{tag}/N{N}/twice"
                obs.append((nm, ob_method(method, N, (True,) * N, (True,) * N, cmp, rounds=2, label=nm)))
            nm = f"{tag}/batch"
            obs.append((nm, ob_batch(method, cmp, label=nm)))
            # degrees that may be NaN (a NaN input): NaN is neither positive nor above a threshold, does not enter a sum, takes no slot
            if method != "Threshold" or cmp in (">", "!=", "<="):
                for N in ((2, 3) if method != "General" else (2,)):
                    nm = f"{tag}/N{N}/nan-degrees"
                    obs.append((nm, ob_method(method, N, (True,) * N, (True,) * N, cmp, label=nm, nan_degrees=True)))
            if method not in ("General", "Proportional"):
                nm = f"{tag}/N3/reconfigured"
                obs.append((nm, ob_method(method, 3, (True,) * 3, (True,) * 3, cmp, label=nm, reconfigure=True)))
            # the same selection over IEEE doubles (comparison-only methods): ordering keys, thresholds and ties bit-exactly
            if method != "Proportional" and (method != "Threshold" or cmp in (">", ">=", "==")):
                for N in ((2, 3) if tier == "quick" else (2, 3, 4)):
                    if method in ("Highest", "Lowest") and N > 3:
                        continue
                    nm = f"{tag}/N{N}/all/F"
                    obs.append((nm, ob_method(method, N, (True,) * N, (True,) * N, cmp, label=nm, mode="F")))
    return obs
