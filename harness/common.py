"""helpers shared by the harness modules"""
from __future__ import annotations

import z3

from symfl import core
from symfl.core import S, RFloat, FFloat, SymArray, SymBool, SymFloat, AND, OR, NOT, ZB, tf, same, elements, kind_of


def unit(x):
    """precondition: finite and in [0,1]"""
    x = tf(x)
    if S.mode == "R":
        return z3.And(ZB(x.fin()), x.v >= 0, x.v <= 1)
    return z3.And(z3.fpGEQ(x.f, core.fv(0.0)), z3.fpLEQ(x.f, core.fv(1.0)))


def finite(x):
    x = tf(x)
    if S.mode == "R":
        return ZB(x.fin())
    return core._fin(x.f)


def is_val(x, zexpr):
    """claim: x is finite and equals the real-valued z3 term (Mode R)"""
    x = tf(x)
    return z3.And(ZB(x.fin()), x.v == zexpr)


def is_nan(x):
    return ZB(core._isnan(tf(x)).e)


def between(x, lo, hi):
    """claim: finite and lo <= x <= hi (lo, hi python numbers, z3 reals, or RFloat)"""
    x = tf(x)
    lo = lo.v if isinstance(lo, RFloat) else lo
    hi = hi.v if isinstance(hi, RFloat) else hi
    return z3.And(ZB(x.fin()), x.v >= lo, x.v <= hi)


def scalar_of(x):
    """a result that must be 0-d: return its scalar element"""
    els = elements(x)
    if len(els) != 1:
        raise AssertionError(f"expected a 0-d result, got {kind_of(x)}")
    return tf(els[0])


def flat(x):
    """flat list of scalar elements of (nested lists of) results"""
    if isinstance(x, (list, tuple)):
        out = []
        for e in x:
            out.extend(flat(e))
        return out
    return elements(x)


def all_same(xs, ys):
    xs, ys = flat(xs), flat(ys)
    if len(xs) != len(ys):
        return False
    return z3.And(*[same(a, b) for a, b in zip(xs, ys)]) if xs else True


def rvar(name, special=False):
    return core.var(name, special=special)


def wf(*xs):
    """well-formedness of symbolic specials"""
    out = []
    for x in xs:
        if isinstance(x, RFloat):
            w = x.wellformed()
            if not core.isc(w):
                out.append(w)
    return out
