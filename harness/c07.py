"""C07  Each conclusion of a triggered rule contributes exactly its own activation."""
from __future__ import annotations

import itertools

import z3

from symfl import core
from symfl.core import S, set_mode, sym_array, tf, same, ZB, kind_of, elements, SymArray
from symfl.install import install
from symfl.replay import lit, replay_fn
from symfl.solve import check

from .common import rvar, wf, unit

PROPERTY = "C07"
EXPLANATION = ("Rules are created by the real Rule.create from concrete consequent texts (1-3 conclusions over 1-3 output variables, "
               "0-2 hedges each, every permutation of the conclusions); the activation degree is symbolic (all extended reals incl. "
               "NaN/+-inf; scalar and a batch of 2), enabled flags of rule and variables enumerated. The real Rule.trigger / "
               "RuleBlock.activate run; every fuzzy output is compared with the per-conclusion specification (exactly one Activated "
               "per enabled variable, concluded term and implication by identity, degree = sanitise(own hedges(degree))). Hedges are "
               "the registered ones and two uninterpreted, non-commuting abstract hedges, so order and leakage are observable.")
BOUNDS = {"quick": {"conclusions": "1..3 over 3 output variables, all permutations, 0..2 hedges per conclusion from {very, somewhat, not, "
                                   "extremely, seldom, any, abstract h1, h2}", "degree": "all extended reals; batch of 2",
                    "flags": "rule enabled/disabled, each output variable enabled/disabled"},
          "thorough": {"as quick plus": "more hedge combinations (all ordered pairs), batch of 3"}}
OUTSIDE = ["consequent texts not derivable from the grammar (C16)", "more than 3 conclusions", "rounding (Mode R)"]
ASSUMPTIONS = ["abstract hedges return a finite value for finite operands and NaN otherwise", "Mode R: exact reals with IEEE specials"]
STUBS = ["HedgeLambda-based abstract hedges h1, h2 registered in the hedge factory for the duration of the run (public extension point)",
         "abstract input Term (public extension point) returning a symbolic membership degree"]

OUTS = ("A", "B", "C")
LEAK_KEY = "Consequent.modify/hedges-of-preceding-conclusions-leak"
HEDGE_SETS = [(), ("very",), ("not",), ("somewhat",), ("h1",), ("h1", "h2"), ("h2", "h1"), ("very", "not"), ("not", "very"),
              ("extremely",), ("seldom",), ("any",), ("h1", "very")]

PYREF = '''
HEDGES = {"very": lambda x: x * x, "not": lambda x: 1 - x, "somewhat": lambda x: np.sqrt(x), "any": lambda x: np.ones_like(x),
          "extremely": lambda x: np.where(x <= 0.5, 2 * x * x, 1 - 2 * (1 - x) * (1 - x)),
          "seldom": lambda x: np.where(x <= 0.5, np.sqrt(0.5 * x), 1 - np.sqrt(0.5 * (1 - x))),
          "h1": lambda x: 0.25 + 0.5 * x * x * x, "h2": lambda x: 0.9 - 0.7 * x}
def sanitize(x): return np.nan_to_num(np.array(x, dtype=float), nan=0.0, neginf=0.0, posinf=1.0)
def install_abstract():
    f = fl.settings.factory_manager.hedge
    for n in ("h1", "h2"):
        f.constructors[n] = (lambda n=n: fl.HedgeLambda(n, HEDGES[n]))
def engine(enabled):
    return fl.Engine("e", "", [fl.InputVariable("X", minimum=0, maximum=1, terms=[fl.Triangle("ON", 0.0, 0.5, 1.0)])],
        [fl.OutputVariable(n, minimum=0, maximum=1, enabled=enabled[n], aggregation=fl.Maximum(), defuzzifier=fl.Centroid(),
                           terms=[fl.Triangle("LOW", 0.0, 0.25, 0.5), fl.Triangle("HIGH", 0.5, 0.75, 1.0), fl.Constant("K", 0.5), fl.Linear("L", [0.5, 0.25]),
                                  fl.Function("F", "0.5 * x"), fl.Triangle("SHORT", 0.0, 0.5, 1.0, 0.25)]) for n in ("A", "B", "C")], [])
'''


def consequent_text(concl):
    return " and ".join(f"{v} is {' '.join(h)}{' ' if h else ''}{t}" for v, h, t in concl)


def install_abstract(fl):
    f = fl.settings.factory_manager.hedge
    f.constructors["h1"] = lambda: fl.HedgeLambda("h1", lambda x: core.abstract("h1", x))
    f.constructors["h2"] = lambda: fl.HedgeLambda("h2", lambda x: core.abstract("h2", x))


def make_engine(fl, enabled):
    return fl.Engine("e", "", [fl.InputVariable("X", minimum=0, maximum=1, terms=[fl.Triangle("ON", 0.0, 0.5, 1.0)])],
                     [fl.OutputVariable(n, minimum=0, maximum=1, enabled=enabled[n], aggregation=fl.Maximum(), defuzzifier=fl.Centroid(),
                                        terms=[fl.Triangle("LOW", 0.0, 0.25, 0.5), fl.Triangle("HIGH", 0.5, 0.75, 1.0), fl.Constant("K", 0.5), fl.Linear("L", [0.5, 0.25]),
                                               fl.Function("F", "0.5 * x"), fl.Triangle("SHORT", 0.0, 0.5, 1.0, 0.25)]) for n in OUTS], [])


def spec_degree(fl, hedges, d):
    """sanitise(own hedges applied from the one nearest the term outwards) -- with fresh hedge objects"""
    x = d
    for h in reversed(hedges):
        x = fl.settings.factory_manager.hedge.construct(h).hedge(x)
    return core.dispatch("nan_to_num", (x,), {"nan": 0.0, "neginf": 0.0, "posinf": 1.0})


def ob_trigger(concl, enabled, rule_enabled, batch, special, label, first_enabled=None):
    """first_enabled: the same loaded rule is triggered once before with these enabled flags (and another degree), the fuzzy outputs
    are cleared, the flags changed to `enabled`, and the rule triggered again: what counts are the flags at the time of each trigger"""
    def run(ob):
        fl = install()
        set_mode("R")
        install_abstract(fl)
        B = batch or 1
        ds = [rvar(f"d{i}", special=special) for i in range(B)]
        pre = wf(*ds) + [z3.And(d.v >= 0, d.v <= 1) for d in ds]      # finite degrees lie in [0,1]; NaN/+-inf via the flags
        ins = {f"d{i}": ds[i] for i in range(B)}
        text = f"if X is ON then {consequent_text(concl)}"
        uses_abs = any(h in ("h1", "h2") for _, hs, _ in concl for h in hs)

        def rbody(v):
            dv = [v[f"d{i}"] for i in range(B)]
            warm = ["pass"]
            if first_enabled is not None:
                warm = ["rule.enabled = True; rule.activation_degree = 0.75; rule.trigger(fl.Minimum())",
                        "for var in e.output_variables: var.fuzzy.clear()",
                        f"for var in e.output_variables: var.enabled = {enabled!r}[var.name]"]
            return "\n".join([PYREF, "install_abstract()", f"e = engine({(first_enabled if first_enabled is not None else enabled)!r})", f"rule = fl.Rule.create({text!r}, e)"] + warm + [
                              ("rule.load(e)      # loading a loaded rule again replaces what it held" if batch else "pass"),
                              f"rule.enabled = {rule_enabled}", "imp = fl.Minimum()",
                              f"d = {('np.array(' + lit(dv) + ')') if batch else lit(dv[0])}", "d0 = np.array(d, dtype=float, copy=True)",
                              "rule.activation_degree = d", "rule.trigger(imp)",
                              f"concl = {[(v_, list(h), t) for v_, h, t in concl]!r}", "bad = None",
                              "for var in e.output_variables:",
                              f"    want = [(t, h) for (v_, h, t) in concl if v_ == var.name and var.enabled and {rule_enabled}]",
                              "    got = var.fuzzy.terms",
                              "    if len(got) != len(want): bad = '%s: %d activations, expected %d' % (var.name, len(got), len(want)); break",
                              "    for a, (t, hs) in zip(got, want):",
                              "        x = d0",
                              "        for h in reversed(hs): x = HEDGES[h](x)",
                              "        if a.term is not var.term(t) or a.implication is not imp or not same(a.degree, sanitize(x), 1e-9):",
                              "            bad = '%s: got %s degree %r, expected %s degree %r' % (var.name, a.term.name, a.degree, t, sanitize(x))",
                              f"verdict(bad is not None, {text!r} + ' degree %r: %s' % (d0.tolist(), bad))"])

        rp = replay_fn(PROPERTY, label, rbody, key=None)
        rp_leak = replay_fn(PROPERTY, label, rbody, key=LEAK_KEY)

        def body():
            e = make_engine(fl, first_enabled if first_enabled is not None else enabled)
            rule = fl.Rule.create(text, e)
            if first_enabled is not None:
                rule.enabled = True
                rule.activation_degree = core.const(0.75)
                rule.trigger(fl.Minimum())
                for var in e.output_variables:
                    var.fuzzy.clear()
                    var.enabled = enabled[var.name]
            if batch:
                rule.load(e)          # loading a loaded rule again replaces what it held (no unload() in between)
            rule.enabled = rule_enabled
            imp = fl.Minimum()
            d = sym_array(ds) if batch else ds[0]
            rule.activation_degree = d
            rule.trigger(imp)
            return e, imp, rule

        for p in ob.paths(pre, body):
            if p.exc is not None:
                ob.unexpected(pre, p, label, ins, rp)
                continue
            e, imp, rule = p.result
            d = sym_array(ds) if batch else ds[0]
            for var in e.output_variables:
                want = [(t, h) for (v_, h, t) in concl if v_ == var.name and enabled[var.name] and rule_enabled]
                got = var.fuzzy.terms
                if len(got) != len(want):
                    ob.prove(pre, p, False, f"{label}: {var.name} has {len(got)} activations, expected {len(want)}", ins, rp)
                    continue
                for k, (a, (t, hs)) in enumerate(zip(got, want)):
                    if a.term is not var.term(t) or a.implication is not imp:
                        ob.prove(pre, p, False, f"{label}: {var.name}[{k}] carries term {a.term.name}/{a.implication}, expected {t}/{imp}", ins, rp)
                        continue
                    exp = spec_degree(fl, hs, d)
                    ge, ee = elements(a.degree), elements(exp)
                    if len(ge) != len(ee):
                        ob.prove(pre, p, False, f"{label}: {var.name}[{k}] degree has {len(ge)} elements, expected {len(ee)}", ins, rp)
                        continue
                    # signature of the recorded finding (known_findings.json): the degree equals what results when the hedges of
                    # the *preceding* conclusions on enabled variables are applied as well.  Only a violation that provably has
                    # exactly this signature carries the finding's key; anything else is reported under its own label.
                    use = rp
                    idx = [i for i, c in enumerate(concl) if c[0] == var.name and enabled[c[0]]][k]
                    earlier = [c for c in concl[:idx] if enabled[c[0]] and c[1]]
                    if earlier:
                        acc = d
                        for c in earlier:
                            for h in reversed(c[1]):
                                acc = fl.settings.factory_manager.hedge.construct(h).hedge(acc)
                        le = elements(spec_degree(fl, hs, acc))
                        st, _, _ = check(list(pre) + p.constraints() + list(S.side) + [z3.Not(z3.And(*[same(x, y) for x, y in zip(ge, le)]))], 10000)
                        if st == "unsat":
                            use = rp_leak
                    ob.prove(pre, p, z3.And(*[same(x, y) for x, y in zip(ge, ee)]), f"{label}/{var.name}[{k}]", ins, use)
            # the rule's own activation degree is not altered by triggering
            ob.prove(pre, p, z3.And(*[same(x, y) for x, y in zip(elements(rule.activation_degree), ds)]), f"{label}/degree-kept", ins, rp)
            if any(enabled[v_] for v_, _, _ in concl) and rule_enabled:
                v_, hs, t = next(c for c in concl if enabled[c[0]])
                a = e.output_variable(v_).fuzzy.terms[0]
                ob.expect_sat(pre, p, same(elements(a.degree)[0], core.const(2.0)), f"{label}/twin")

    return run


def ob_block(concl, label):
    """through RuleBlock.activate (General): degree = weight x abstract membership; disabled rule contributes nothing"""

    def run(ob):
        fl = install()
        set_mode("R")
        install_abstract(fl)
        m, w = rvar("m"), rvar("w")
        pre = [unit(m), w.v >= 0, w.v <= 1]
        ins = {"m": m, "w": w}
        text = f"if X is ON then {consequent_text(concl)}"

        class Abs(fl.Term):
            def membership(self, x):
                return m

        def rbody(v):
            return "\n".join([PYREF, "install_abstract()", "e = engine({'A': True, 'B': True, 'C': True})",
                              "class Fixed(fl.Term):\n    def membership(self, x): return np.float64(%s)" % lit(v["m"]),
                              "e.input_variables[0].terms = [Fixed('ON')]; e.input_variables[0].value = 0.5",
                              f"r1 = fl.Rule.create({text!r}, e); r1.weight = {lit(v['w'])}", f"r2 = fl.Rule.create({text!r}, e); r2.enabled = False",
                              "imp = fl.AlgebraicProduct()",
                              "rb = fl.RuleBlock('rb', conjunction=fl.Minimum(), disjunction=fl.Maximum(), implication=imp, activation=fl.General(), rules=[r2, r1])",
                              "e.rule_blocks = [rb]; rb.activate()", f"d0 = np.float64({lit(v['w'])}) * np.float64({lit(v['m'])})",
                              f"concl = {[(v_, list(h), t) for v_, h, t in concl]!r}", "bad = None",
                              "for var in e.output_variables:",
                              "    want = [(t, h) for (v_, h, t) in concl if v_ == var.name]",
                              "    got = var.fuzzy.terms",
                              "    if len(got) != len(want): bad = '%s: %d activations, expected %d' % (var.name, len(got), len(want)); break",
                              "    for a, (t, hs) in zip(got, want):",
                              "        x = d0",
                              "        for h in reversed(hs): x = HEDGES[h](x)",
                              "        if a.term is not var.term(t) or a.implication is not imp or not same(a.degree, sanitize(x), 1e-9):",
                              "            bad = '%s: got %s degree %r, expected %s degree %r' % (var.name, a.term.name, a.degree, t, sanitize(x))",
                              f"verdict(bad is not None, 'block: ' + {text!r} + ' degree %r: %s' % (d0, bad))"])

        rp = replay_fn(PROPERTY, label, rbody, key=None)
        rp_leak = replay_fn(PROPERTY, label, rbody, key=LEAK_KEY)

        def body():
            e = make_engine(fl, {n: True for n in OUTS})
            e.input_variables[0].terms = [Abs("ON")]
            e.input_variables[0].value = 0.5
            r1 = fl.Rule.create(text, e)
            r1.weight = w
            r2 = fl.Rule.create(text, e)
            r2.enabled = False
            imp = fl.AlgebraicProduct()
            rb = fl.RuleBlock("rb", conjunction=fl.Minimum(), disjunction=fl.Maximum(), implication=imp, activation=fl.General(), rules=[r2, r1])
            e.rule_blocks = [rb]
            rb.activate()
            return e, imp

        for p in ob.paths(pre, body):
            if p.exc is not None:
                ob.unexpected(pre, p, label, ins, rp)
                continue
            e, imp = p.result
            d = w * m
            for var in e.output_variables:
                want = [(t, h) for (v_, h, t) in concl if v_ == var.name]
                got = var.fuzzy.terms
                if len(got) != len(want):
                    ob.prove(pre, p, False, f"{label}: {var.name} has {len(got)} activations, expected {len(want)}", ins, rp)
                    continue
                for k, (a, (t, hs)) in enumerate(zip(got, want)):
                    ok = a.term is var.term(t) and a.implication is imp
                    use = rp
                    idx = [i for i, c in enumerate(concl) if c[0] == var.name][k]
                    earlier = [c for c in concl[:idx] if c[1]]
                    if earlier and ok:
                        acc = d
                        for c in earlier:
                            for h in reversed(c[1]):
                                acc = fl.settings.factory_manager.hedge.construct(h).hedge(acc)
                        st, _, _ = check(list(pre) + p.constraints() + list(S.side) + [z3.Not(same(a.degree, spec_degree(fl, hs, acc)))], 10000)
                        if st == "unsat":
                            use = rp_leak
                    ob.prove(pre, p, z3.And(bool(ok), same(a.degree, spec_degree(fl, hs, d))), f"{label}/{var.name}[{k}]", ins, use)

    return run


def _cases(tier, seed):
    import random
    rng = random.Random(1000 + seed)
    hs_all = HEDGE_SETS if tier == "quick" else HEDGE_SETS + [(a, b) for a in ("very", "somewhat", "not", "h1", "h2", "seldom") for b in ("very", "not", "h2", "extremely") if (a, b) not in HEDGE_SETS]
    cases = []
    # single conclusions: every hedge set
    for hs in hs_all:
        cases.append((("A", hs, "LOW"),))
    # two and three conclusions: hedged ones in every position, all permutations
    # conclusions on Takagi-Sugeno terms (Constant, Linear, Function) are activations like any other: same degree, same implication
    # ... and on a term whose height is not 1 (the degree is the rule's, whatever the height of the concluded term)
    for t in ("K", "L", "F", "SHORT"):
        cases.append((("A", (), t),))
    cases.append((("B", ("not",), "SHORT"),))
    cases.append((("A", ("very",), "K"), ("B", ("not",), "L"), ("A", (), "F")))
    # the same conclusion more than once: one activation per conclusion (what a non-idempotent aggregation then sums)
    cases.append((("A", (), "LOW"), ("A", (), "LOW")))
    cases.append((("A", (), "LOW"), ("B", (), "HIGH"), ("A", (), "LOW")))
    base2 = [(("A", ("very",), "LOW"), ("B", (), "HIGH")), (("A", ("h1",), "LOW"), ("B", ("h2",), "HIGH")),
             (("A", ("not",), "LOW"), ("A", (), "HIGH")), (("A", ("any",), "LOW"), ("B", ("somewhat",), "LOW")),
             (("A", ("h1", "h2"), "HIGH"), ("B", ("not",), "LOW"))]
    base3 = [(("A", ("very",), "LOW"), ("B", ("h1",), "HIGH"), ("C", (), "LOW")),
             (("A", (), "LOW"), ("B", ("not",), "HIGH"), ("A", ("h2",), "HIGH")),
             (("A", ("seldom",), "HIGH"), ("B", (), "LOW"), ("C", ("h1", "h2"), "HIGH"))]
    n_extra = 2 if tier == "quick" else 10
    for _ in range(n_extra):
        k = rng.choice((2, 3))
        c = tuple((rng.choice(OUTS), rng.choice(hs_all), rng.choice(("LOW", "HIGH"))) for _ in range(k))
        (base2 if k == 2 else base3).append(c)
    for b in base2 + base3:
        for perm in itertools.permutations(b):
            if perm not in cases:
                cases.append(perm)
    return cases


def _cname(concl):
    return ";".join(f"{v}:{'.'.join(h) or '-'}:{t}" for v, h, t in concl)


def obligations(tier, seed):
    obs = []
    all_on = {n: True for n in OUTS}
    for concl in _cases(tier, seed):
        nm = _cname(concl)
        obs.append((f"trigger/scalar/special/{nm}", ob_trigger(concl, all_on, True, 0, True, f"trigger/scalar/special/{nm}")))
        obs.append((f"trigger/batch2/special/{nm}", ob_trigger(concl, all_on, True, 2, True, f"trigger/batch2/special/{nm}")))
        if len(concl) > 1:
            used = sorted({v for v, _, _ in concl})
            for off in used:
                en = dict(all_on)
                en[off] = False
                obs.append((f"trigger/scalar/disabled-{off}/{nm}", ob_trigger(concl, en, True, 0, True, f"trigger/scalar/disabled-{off}/{nm}")))
                obs.append((f"retrigger/then-disabled-{off}/{nm}", ob_trigger(concl, en, True, 0, False, f"retrigger/then-disabled-{off}/{nm}", first_enabled=all_on)))
                obs.append((f"retrigger/then-enabled-{off}/{nm}", ob_trigger(concl, all_on, True, 0, False, f"retrigger/then-enabled-{off}/{nm}", first_enabled=en)))
            obs.append((f"trigger/rule-disabled/{nm}", ob_trigger(concl, all_on, False, 0, True, f"trigger/rule-disabled/{nm}")))
            obs.append((f"block/{nm}", ob_block(concl, f"block/{nm}")))
        if tier != "quick":
            obs.append((f"trigger/batch3/special/{nm}", ob_trigger(concl, all_on, True, 3, True, f"trigger/batch3/special/{nm}")))
    return obs
