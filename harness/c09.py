"""C09  Integral defuzzifiers return the defined point of the sampled fuzzy set."""
from __future__ import annotations

import itertools

import z3

from spec import norms as nspec
from symfl import core
from symfl.core import S, set_mode, sym_array, tf, same, ZB, kind_of, elements, SymArray
from symfl.install import install
from symfl.replay import lit, replay_fn

from .common import rvar, all_same, is_val, is_nan, unit, flat

PROPERTY = "C09"
EXPLANATION = ("The fuzzy set is an arbitrary function sampled at the r midpoints: an abstract Term whose membership() returns r "
               "fresh symbols y_i in [0,1] (a batch: B x r). The real Bisector/Centroid/SOM/MOM/LOM.defuzzify runs on it with a "
               "symbolic range; the defining formulas, range, ordering, NaN-iff-empty, translation and batch=per-set are SMT "
               "queries over all y_i and ranges (Mode R). Separately Aggregated/Activated.membership is proven equal to the "
               "documented fold of the aggregation over implication(degree, mu) for every registered operator pair, so the "
               "defuzzifier results carry over to real aggregated sets.")
BOUNDS = {
    "quick": {"resolution r": "1..4 with symbolic finite range min<max; r=8 with the dyadic range [0,8]", "batch": "1 and 2 sets",
              "aggregated sets": "1..3 activations, every implication x aggregation pair, scalar degrees and a batch of 2, 2 sample points"},
    "thorough": {"resolution r": "1..6 symbolic range; r=8,16 dyadic ranges", "batch": "1..3 sets",
                 "aggregated sets": "1..4 activations, 3 sample points"},
}
OUTSIDE = ["resolutions above the bound (incl. the default 1000): the code is uniform in r but that is an argument, not a solver result",
           "rounding (Mode R is exact arithmetic)", "ranges with min >= max or infinite bounds"]
ASSUMPTIONS = ["y_i in [0,1] finite", "min < max finite", "Mode R: exact reals"]
STUBS = ["abstract Term subclass (public extension point) whose membership(x) returns fresh symbols and records x"]
OB_BUDGET_S = {"quick": 150, "thorough": 1500}

DEFUZZ = ["Centroid", "Bisector", "SmallestOfMaximum", "MeanOfMaximum", "LargestOfMaximum"]

PYREF = '''
def midpoints(lo, hi, r):
    return [lo + (i + 0.5) * ((hi - lo) / r) for i in range(r)]
def ref(kind, Y, lo, hi):
    r = len(Y); X = midpoints(lo, hi, r)
    if kind == "Centroid":
        s = sum(Y)
        return sum(x * y for x, y in zip(X, Y)) / s if s != 0 else nan
    if kind == "Bisector":
        tot = sum(Y)
        if tot == 0: return nan
        cum, d = 0.0, []
        for y in Y:
            cum += y; d.append(abs(cum / tot - 0.5))
        best = min(d); pts = [x for x, di in zip(X, d) if di == best]
        return sum(pts) / len(pts)
    m = max(Y)
    if not m > 0: return nan
    pts = [x for x, y in zip(X, Y) if y == m]
    return {"SmallestOfMaximum": min(pts), "LargestOfMaximum": max(pts), "MeanOfMaximum": sum(pts) / len(pts)}[kind]
class Fixed(fl.Term):
    def __init__(self, rows): super().__init__("fixed"); self.rows = rows
    def membership(self, x): return np.array(self.rows if len(self.rows) > 1 else self.rows[0], dtype=float)
'''


def make_term(fl, rows):
    """abstract sampled set: membership(x) returns the given symbols (rows: list of lists), records the x it was asked for"""

    class Sampled(fl.Term):
        def __init__(self):
            super().__init__("sampled")
            self.asked = []

        def membership(self, x):
            self.asked.append(x)
            return sym_array(rows if len(rows) > 1 else rows[0])

    return Sampled()


def zmid(lo, hi, r):
    return [lo + (z3.Q(2 * i + 1, 2)) * ((hi - lo) / r) for i in range(r)]


def zabs(t):
    return z3.If(t < 0, -t, t)


def spec_claim(kind, res, Y, X):
    """z3 Bool: `res` (RFloat) is the documented defuzzified value of the sampled set (Y z3 reals, X z3 reals increasing)"""
    r = len(Y)
    total = sum(Y[1:], Y[0])
    if kind == "Centroid":
        num = sum([x * y for x, y in zip(X, Y)][1:], X[0] * Y[0])
        return z3.If(total == 0, ZB(res.nan), z3.And(ZB(res.fin()), res.v * total == num))
    if kind == "Bisector":
        cum, acc = [], None
        for y in Y:
            acc = y if acc is None else acc + y
            cum.append(acc)
        d = [zabs(c / total - z3.Q(1, 2)) for c in cum]
        best = d[0]
        for di in d[1:]:
            best = z3.If(di < best, di, best)
        cnt = sum([z3.If(di == best, 1, 0) for di in d][1:], z3.If(d[0] == best, 1, 0))
        sm = sum([z3.If(di == best, x, 0) for di, x in zip(d, X)][1:], z3.If(d[0] == best, X[0], 0))
        return z3.If(total == 0, ZB(res.nan), z3.And(ZB(res.fin()), res.v * cnt == sm))
    m = Y[0]
    for y in Y[1:]:
        m = z3.If(y > m, y, m)
    if kind == "MeanOfMaximum":
        cnt = sum([z3.If(y == m, 1, 0) for y in Y][1:], z3.If(Y[0] == m, 1, 0))
        sm = sum([z3.If(y == m, x, 0) for y, x in zip(Y, X)][1:], z3.If(Y[0] == m, X[0], 0))
        return z3.If(m > 0, z3.And(ZB(res.fin()), res.v * cnt == sm), ZB(res.nan))
    order = range(r) if kind == "SmallestOfMaximum" else range(r - 1, -1, -1)
    e = None
    for i in reversed(list(order)):
        e = X[i] if e is None else z3.If(Y[i] == m, X[i], e)
    return z3.If(m > 0, z3.And(ZB(res.fin()), res.v == e), ZB(res.nan))


def _replay(kind, r, B):
    def body(v):
        rows = [[v[f"y{b}_{i}"] for i in range(r)] for b in range(B)]
        return PYREF + "\n".join([
            f"rows = {lit(rows)}", f"lo, hi, c = {lit(v['lo'])}, {lit(v['hi'])}, {lit(v.get('c', 0.0))}",
            f"D = fl.{kind}({r})", "got = np.atleast_1d(D.defuzzify(Fixed(rows), lo, hi))",
            f"exp = [ref('{kind}', Y, lo, hi) for Y in rows]",
            "bad = not same(got, exp, 1e-9)",
            "bad = bad or any((not math.isnan(g)) and not (lo - 1e-9 <= g <= hi + 1e-9) for g in got)",
            "som, mom, lom = [float(np.atleast_1d(getattr(fl, k)(%d).defuzzify(Fixed(rows), lo, hi))[0]) for k in ('SmallestOfMaximum', 'MeanOfMaximum', 'LargestOfMaximum')]" % r,
            "bad = bad or (not math.isnan(som) and not (som <= mom + 1e-9 and mom <= lom + 1e-9))",
            "t = np.atleast_1d(fl.Centroid(%d).defuzzify(Fixed(rows), lo + c, hi + c)); t0 = np.atleast_1d(fl.Centroid(%d).defuzzify(Fixed(rows), lo, hi))" % (r, r),
            "bad = bad or not same(t, t0 + c, 1e-9)",
            f"verdict(bad, '{kind}({r}) on %r over [%r,%r]: got %r, documented %r' % (rows, lo, hi, got.tolist(), exp))"])

    return replay_fn(PROPERTY, f"{kind}.r{r}.B{B}", body, key=f"{kind}/r{r}/B{B}")


def ob_defuzz(kind, r, B, dyadic=False):
    def run(ob):
        fl = install()
        set_mode("R")
        if dyadic:
            lo, hi = core.const(0.0), core.const(float(r))
            pre = []
        else:
            lo, hi = rvar("lo"), rvar("hi")
            pre = [lo.v < hi.v]
        rows = [[rvar(f"y{b}_{i}") for i in range(r)] for b in range(B)]
        pre = pre + [unit(y) for row in rows for y in row]
        D = getattr(fl, kind)(r)
        ins = {"lo": lo, "hi": hi}
        ins.update({f"y{b}_{i}": rows[b][i] for b in range(B) for i in range(r)})
        rp = _replay(kind, r, B)
        X = zmid(lo.v, hi.v, r)

        def body():
            t = make_term(fl, rows)
            res = D.defuzzify(t, lo, hi)
            single = [D.defuzzify(make_term(fl, [row]), lo, hi) for row in rows] if B > 1 else None
            return res, t.asked, single

        for p in ob.paths(pre, body):
            if p.exc is not None:
                ob.unexpected(pre, p, f"{kind}/r{r}/B{B}", ins, rp)
                continue
            res, asked, single = p.result
            want_kind = ("array", ()) if B == 1 else ("array", (B,))
            if kind_of(res) != want_kind:
                ob.prove(pre, p, False, f"{kind}/r{r}/B{B}/result-kind {kind_of(res)} expected {want_kind}", ins, rp)
                continue
            # sampled at the r midpoints of r equal cells
            if len(asked) != 1 or len(elements(asked[0])) != r:
                ob.prove(pre, p, False, f"{kind}/r{r}/B{B}/sample-points {len(asked)}x{[kind_of(a) for a in asked]}", ins, rp)
                continue
            ob.prove(pre, p, z3.And(*[is_val(a, x) for a, x in zip(elements(asked[0]), X)]), f"{kind}/r{r}/B{B}/midpoints", ins, rp)
            els = [tf(e) for e in elements(res)]
            for b, e in enumerate(els):
                Y = [y.v for y in rows[b]]
                ob.prove(pre, p, spec_claim(kind, e, Y, X), f"{kind}/r{r}/B{B}/definition[{b}]", ins, rp)
                ob.prove(pre, p, z3.Or(ZB(e.nan), z3.And(ZB(e.fin()), e.v >= lo.v, e.v <= hi.v)), f"{kind}/r{r}/B{B}/range[{b}]", ins, rp)
                allzero = z3.And(*[y == 0 for y in Y])
                ob.prove(pre, p, ZB(e.nan) == allzero, f"{kind}/r{r}/B{B}/nan-iff-empty[{b}]", ins, rp)
            if single is not None:
                ob.prove(pre, p, all_same(res, single), f"{kind}/r{r}/B{B}/batch=per-set", ins, rp)
            ob.expect_sat(pre, p, ZB(els[0].nan), f"{kind}/r{r}/B{B}/twin")

    return run


def ob_reuse(kind, r1, r2, how):
    """one defuzzifier object used at resolution r1, reconfigured to r2 (attribute / configure()), optionally over another range and
    another set, then used again: the second result must be the documented value at the *current* resolution and range"""
    def run(ob):
        fl = install()
        set_mode("R")
        lo, hi, lo2, hi2 = rvar("lo"), rvar("hi"), rvar("lo2"), rvar("hi2")
        rows1 = [[rvar(f"y0_{i}") for i in range(r1)]]
        rows2 = [[rvar(f"z0_{i}") for i in range(r2)]]
        pre = [lo.v < hi.v, lo2.v < hi2.v] + [unit(y) for y in rows1[0] + rows2[0]]
        ins = {"lo": lo, "hi": hi, "lo2": lo2, "hi2": hi2}
        ins.update({f"y0_{i}": rows1[0][i] for i in range(r1)})
        ins.update({f"z0_{i}": rows2[0][i] for i in range(r2)})
        label = f"reuse/{kind}/r{r1}-r{r2}/{how}"

        def rbody(v):
            a, b = [v[f"y0_{i}"] for i in range(r1)], [v[f"z0_{i}"] for i in range(r2)]
            same_range = how.endswith("same-range")
            l2, h2 = ("lo", "hi") if same_range else ("lo2", "hi2")
            return PYREF + "\n".join([
                f"A = {lit([a])}; Bv = {lit([b])}; lo, hi, lo2, hi2 = {lit(v['lo'])}, {lit(v['hi'])}, {lit(v[l2])}, {lit(v[h2])}",
                f"D = fl.{kind}({r1}); D.defuzzify(Fixed(A), lo, hi)",
                (f"D.resolution = {r2}" if how.startswith("attribute") else f"D.configure('{r2}')"),
                "got = np.atleast_1d(D.defuzzify(Fixed(Bv), lo2, hi2))",
                f"exp = [ref('{kind}', Bv[0], lo2, hi2)]",
                f"verdict(not same(got, exp, 1e-9), '{kind} reused after changing the resolution {r1} -> {r2}: got %r, documented %r' % (got.tolist(), exp))"])

        rp = replay_fn(PROPERTY, label, rbody, key=None)

        def body():
            D = getattr(fl, kind)(r1)
            D.defuzzify(make_term(fl, rows1), lo, hi)
            if how.startswith("attribute"):
                D.resolution = r2
            else:
                D.configure(str(r2))
            t = make_term(fl, rows2)
            if how.endswith("same-range"):
                return D.defuzzify(t, lo, hi), t.asked, (lo, hi)
            return D.defuzzify(t, lo2, hi2), t.asked, (lo2, hi2)

        for p in ob.paths(pre, body):
            if p.exc is not None:
                ob.unexpected(pre, p, label, ins, rp)
                continue
            res, asked, (l, h) = p.result
            X = zmid(l.v, h.v, r2)
            if len(asked) != 1 or len(elements(asked[0])) != r2:
                ob.prove(pre, p, False, f"{label}/sample-points {len(asked)}x{[kind_of(a) for a in asked]} expected {r2} midpoints", ins, rp)
                continue
            ob.prove(pre, p, z3.And(*[is_val(a, x) for a, x in zip(elements(asked[0]), X)]), f"{label}/midpoints", ins, rp)
            e = tf(elements(res)[0])
            ob.prove(pre, p, spec_claim(kind, e, [y.v for y in rows2[0]], X), f"{label}/definition", ins, rp)
            ob.expect_sat(pre, p, ZB(e.nan), f"{label}/twin")

    return run


def ob_sampling(r):
    """the sample points at resolutions beyond the defuzzification bound (the default 1000 included): exactly r of them, the midpoints
    of r equal cells of [lo, hi] - decided for the sampling alone (Op.midpoints, which every integral defuzzifier calls), with symbolic
    range; the number of points does not depend on how 1/r rounds"""
    def run(ob):
        fl = install()
        set_mode("R")
        lo, hi = rvar("lo"), rvar("hi")
        pre = [lo.v < hi.v]
        ins = {"lo": lo, "hi": hi}
        label = f"sampling/r{r}"

        def rbody(v):
            return "\n".join([f"lo, hi, r = {lit(v['lo'])}, {lit(v['hi'])}, {r}", "x = np.atleast_1d(fl.Op.midpoints(lo, hi, r))",
                              "exp = [lo + (i + 0.5) * ((hi - lo) / r) for i in range(r)]",
                              "verdict(len(x) != r or not same(x, exp, 1e-9), 'midpoints(%r, %r, %d): %d points, last %r; documented %d points, last %r' % (lo, hi, r, len(x), x[-1], r, exp[-1]))"])

        rp = replay_fn(PROPERTY, label, rbody, key=None)
        X = zmid(lo.v, hi.v, r)
        for p in ob.paths(pre, lambda: fl.Op.midpoints(lo, hi, r)):
            if p.exc is not None:
                ob.unexpected(pre, p, label, ins, rp)
                continue
            xs = elements(p.result)
            if len(xs) != r:
                ob.prove(pre, p, False, f"{label}: {len(xs)} sample points", ins, rp)
                continue
            ob.prove(pre, p, z3.And(*[is_val(a, x) for a, x in zip(xs, X)]), label, ins, rp)

    return run


def ob_order(r):
    def run(ob):
        fl = install()
        set_mode("R")
        lo, hi = rvar("lo"), rvar("hi")
        row = [rvar(f"y0_{i}") for i in range(r)]
        pre = [lo.v < hi.v] + [unit(y) for y in row]
        ins = {"lo": lo, "hi": hi}
        ins.update({f"y0_{i}": row[i] for i in range(r)})

        def body():
            return [getattr(fl, k)(r).defuzzify(make_term(fl, [row]), lo, hi) for k in ("SmallestOfMaximum", "MeanOfMaximum", "LargestOfMaximum")]

        for p in ob.paths(pre, body):
            if p.exc is not None:
                ob.unexpected(pre, p, f"order/r{r}", ins, _replay("MeanOfMaximum", r, 1))
                continue
            s, m, l = (tf(elements(x)[0]) for x in p.result)
            ob.prove(pre, p, z3.Or(z3.And(ZB(s.nan), ZB(m.nan), ZB(l.nan)),
                                   z3.And(ZB(s.fin()), ZB(m.fin()), ZB(l.fin()), s.v <= m.v, m.v <= l.v)),
                     f"SOM<=MOM<=LOM/r{r}", ins, _replay("MeanOfMaximum", r, 1))

    return run


def ob_translation(r):
    def run(ob):
        fl = install()
        set_mode("R")
        lo, hi, c = rvar("lo"), rvar("hi"), rvar("c")
        row = [rvar(f"y0_{i}") for i in range(r)]
        pre = [lo.v < hi.v] + [unit(y) for y in row]
        ins = {"lo": lo, "hi": hi, "c": c}
        ins.update({f"y0_{i}": row[i] for i in range(r)})
        D = fl.Centroid(r)

        def body():
            return D.defuzzify(make_term(fl, [row]), lo, hi), D.defuzzify(make_term(fl, [row]), lo + c, hi + c)

        for p in ob.paths(pre, body):
            if p.exc is not None:
                ob.unexpected(pre, p, f"translation/r{r}", ins, _replay("Centroid", r, 1))
                continue
            a, b = (tf(elements(x)[0]) for x in p.result)
            ob.prove(pre, p, same(b, a + c), f"Centroid/translation/r{r}", ins, _replay("Centroid", r, 1))

    return run


# ---- aggregated sets ----------------------------------------------------------------------------------------------
def ob_aggregated(imp, agg, k, batch, npts, reuse_buffer=False, mixed=False):
    """mixed: the first activation has a single degree, the others a batch of degrees (one input holds a value, another an array): the
    single degree applies to every row"""
    """Aggregated(terms = k Activated(term_j, degree_j, implication)).membership(x) == fold(agg, 0, imp(degree_j, mu_j(x)))"""

    def run(ob):
        fl = install()
        set_mode("R")
        # "Asymmetric": a user-defined implication (public NormLambda) that treats its operands differently - degree first, membership second
        I = fl.NormLambda(lambda a, b: 0.25 * a + 0.5 * b) if imp == "Asymmetric" else getattr(fl, imp)()
        A = getattr(fl, agg)()
        B = 2 if batch else 1
        degs = [[rvar(f"d{j}_{b}") for b in range(B)] for j in range(k)]
        mus = [[rvar(f"m{j}_{i}") for i in range(npts)] for j in range(k)]
        pre = [unit(v) for row in degs for v in row] + [unit(v) for row in mus for v in row]
        ins = {f"d{j}_{b}": degs[j][b] for j in range(k) for b in range(B)}
        ins.update({f"m{j}_{i}": mus[j][i] for j in range(k) for i in range(npts)})
        fi, fa = (lambda a, b: 0.25 * a + 0.5 * b) if imp == "Asymmetric" else nspec.TNORMS[imp], nspec.SNORMS[agg]
        py_imp = "0.25 * a + 0.5 * b" if imp == "Asymmetric" else nspec.PY[imp]

        def body():
            terms = [make_term(fl, [mus[j]]) for j in range(k)]
            if reuse_buffer:
                # the caller fills ONE array with the degrees of each activation in turn: an activated term keeps the degrees it was given
                buf = sym_array(degs[0])
                acts = []
                for j in range(k):
                    buf[:] = sym_array(degs[j])
                    acts.append(fl.Activated(terms[j], buf, I))
            elif mixed:
                acts = [fl.Activated(terms[j], degs[j][0] if j == 0 else sym_array(degs[j]), I) for j in range(k)]
            else:
                acts = [fl.Activated(terms[j], sym_array(degs[j]) if batch else degs[j][0], I) for j in range(k)]
            ag = fl.Aggregated("out", 0.0, 1.0, A, acts)
            x = core.sym_array([[core.const(float(i)) for i in range(npts)]])
            return ag.membership(x)

        def rbody(v):
            return "\n".join([
                "class Fixed(fl.Term):\n    def __init__(self, ys): super().__init__('t'); self.ys = ys\n    def membership(self, x): return np.array(self.ys, dtype=float)",
                f"degs = {lit([[v[f'd{j}_{b}'] for b in range(B)] for j in range(k)])}",
                f"mus = {lit([[v[f'm{j}_{i}'] for i in range(npts)] for j in range(k)])}",
                f"I, A = {'fl.NormLambda(lambda a, b: 0.25 * a + 0.5 * b)' if imp == 'Asymmetric' else 'fl.' + imp + '()'}, fl.{agg}()",
                (f"buf = np.array(degs[0], dtype=float); acts = []\nfor j in range({k}):\n    buf[:] = degs[j]; acts.append(fl.Activated(Fixed(mus[j]), buf, I))" if reuse_buffer else
                 (f"degs[0] = [degs[0][0]] * {B}; acts = [fl.Activated(Fixed(mus[j]), degs[j][0] if j == 0 else np.array(degs[j]), I) for j in range({k})]" if mixed else
                  f"acts = [fl.Activated(Fixed(mus[j]), {'np.array(degs[j])' if batch else 'degs[j][0]'}, I) for j in range({k})]")),
                "got = np.atleast_2d(fl.Aggregated('out', 0.0, 1.0, A, acts).membership(np.zeros((1, %d))))" % npts,
                f"fi = lambda a, b: {py_imp}", f"fa = lambda a, b: {nspec.PY[agg]}",
                "exp = []",
                f"for b in range({B}):\n    row = []\n    for i in range({npts}):\n        y = 0.0\n        for j in range({k}):\n            y = fa(y, fi(degs[j][b], mus[j][i]))\n        row.append(y)\n    exp.append(row)",
                f"verdict(not same(got, exp, 1e-9), '{agg}[{imp}] aggregated membership %r, documented %r' % (got.tolist(), exp))"])

        rp = replay_fn(PROPERTY, f"agg.{imp}.{agg}.k{k}.{'b' if batch else 's'}{'.buf' if reuse_buffer else ''}", rbody, key=f"aggregated/{imp}/{agg}")
        for p in ob.paths(pre, body):
            if p.exc is not None:
                ob.unexpected(pre, p, f"aggregated/{imp}/{agg}/k{k}", ins, rp)
                continue
            res = p.result
            want = ("array", (npts,)) if not batch else ("array", (B, npts))
            if kind_of(res) != want:
                ob.prove(pre, p, False, f"aggregated/{imp}/{agg}/k{k}/shape {kind_of(res)} expected {want}", ins, rp)
                continue
            got = res.a.reshape(B, npts)
            for b in range(B):
                for i in range(npts):
                    y = z3.RealVal(0)
                    for j in range(k):
                        y = fa(y, fi(degs[j][0 if (mixed and j == 0) else b].v, mus[j][i].v))
                    ob.prove(pre, p, is_val(got[b, i], y), f"aggregated/{imp}/{agg}/k{k}/{'batch' if batch else 'scalar'}[{b},{i}]", ins, rp)

    return run


def _obligations(tier, seed):
    obs = []
    rs = (1, 2, 3, 4) if tier == "quick" else (1, 2, 3, 4, 5, 6)
    Bs = (1, 2) if tier == "quick" else (1, 2, 3)
    for kind in DEFUZZ:
        for r in rs:
            for B in Bs:
                if B > 1 and r > 3 and tier == "quick":
                    continue
                obs.append((f"{kind}/r{r}/B{B}", ob_defuzz(kind, r, B)))
        for r in ((8,) if tier == "quick" else (8, 16)):
            if kind == "Bisector" and tier == "quick":
                continue      # the nested ties of the bisector at r=8 exceed the quick per-query budget (thorough tier)
            obs.append((f"{kind}/r{r}/dyadic", ob_defuzz(kind, r, 1, dyadic=True)))
    for kind in DEFUZZ:
        for (r1, r2) in (((3, 2), (2, 3)) if tier == "quick" else ((3, 2), (2, 3), (4, 1), (1, 4), (2, 2))):
            for how in ("attribute/same-range", "configure/same-range", "attribute/other-range"):
                if tier == "quick" and (r1, r2) == (2, 3) and how != "attribute/same-range":
                    continue
                obs.append((f"reuse/{kind}/r{r1}-r{r2}/{how}", ob_reuse(kind, r1, r2, how)))
    for r in rs:
        obs.append((f"order/r{r}", ob_order(r)))
        obs.append((f"translation/r{r}", ob_translation(r)))
    ks = (1, 2, 3) if tier == "quick" else (1, 2, 3, 4)
    npts = 2 if tier == "quick" else 3
    for imp in nspec.TNORMS:
        for agg in nspec.SNORMS:
            for k in ks:
                if tier == "quick" and k == 3 and (imp, agg) not in (("Minimum", "Maximum"), ("AlgebraicProduct", "UnboundedSum"), ("Minimum", "UnboundedSum")):
                    continue
                for batch in (False, True):
                    if batch and k == 1 and tier == "quick":
                        continue
                    obs.append((f"aggregated/{imp}/{agg}/k{k}/{'batch' if batch else 'scalar'}", ob_aggregated(imp, agg, k, batch, npts)))
    for r in ((49, 98, 103, 1000) if tier == "quick" else (49, 98, 103, 107, 161, 187, 196, 197, 200, 500, 1000, 1023, 2000)):
        obs.append((f"sampling/r{r}", ob_sampling(r)))
    for imp_, agg_ in (("Minimum", "Maximum"), ("AlgebraicProduct", "AlgebraicSum")):
        obs.append((f"aggregated/{imp_}/{agg_}/k2/scalar+batch-degrees", ob_aggregated(imp_, agg_, 2, True, npts, mixed=True)))
    obs.append(("aggregated/Minimum/Maximum/k2/reused-degree-buffer", ob_aggregated("Minimum", "Maximum", 2, True, npts, reuse_buffer=True)))
    obs.append(("aggregated/AlgebraicProduct/UnboundedSum/k3/reused-degree-buffer", ob_aggregated("AlgebraicProduct", "UnboundedSum", 3, True, npts, reuse_buffer=True)))
    for agg in ("Maximum", "UnboundedSum"):
        for k in (1, 2):
            for batch in (False, True):
                obs.append((f"aggregated/Asymmetric/{agg}/k{k}/{'batch' if batch else 'scalar'}", ob_aggregated("Asymmetric", agg, k, batch, npts)))
    return obs


def obligations(tier, seed):
    from . import conform
    return _obligations(tier, seed) + conform.obligations(PROPERTY, tier)
