"""C06  Rule antecedents mean what the rule grammar says."""
from __future__ import annotations

import random

import z3

from spec import norms as nspec
from symfl import core
from symfl.core import S, set_mode, sym_array, tf, same, ZB, elements
from symfl.install import install
from symfl.replay import lit, replay_fn

from . import rulegen as rg
from .c07 import install_abstract
from .common import rvar, unit, is_val

PROPERTY = "C06"
EXPLANATION = ("Antecedent texts are printed from generated expression trees (minimal parentheses, fully parenthesised, spaced) and "
               "parsed by the real Rule.create; every membership degree (abstract terms on 2 input variables), the accumulated "
               "activations of an output variable, the rule weight and the enabled flags are symbolic; conjunction, disjunction and "
               "aggregation are uninterpreted non-commutative non-associative symbols (NormLambda), hedges the registered ones plus two "
               "uninterpreted ones. The real Rule.activate_with result must equal weight x the statement's semantics evaluated on the "
               "generating tree: one SMT query per text, decided by congruence, so precedence, associativity, operand order, hedge order, "
               "`any`, disabled variables and output-variable propositions are covered for every operator and every degree. Then each "
               "registered T-norm/S-norm pair on fixed trees (formulas from /verif/spec).")
BOUNDS = {"quick": {"trees": "all operator skeletons with <= 3 propositions, 16 four-proposition skeletons, 40 seeded random trees of depth <= 3 "
                             "with 0-2 hedges incl. `any` over 2 input variables and 1 output variable; up to 4 printings each",
                    "numbers": "all degrees in [0,1], weight in [0,1] (finite)", "flags": "each variable enabled/disabled"},
          "thorough": {"trees": "as quick + 300 seeded random trees of depth <= 4"}}
OUTSIDE = ["texts not derivable from the grammar (C16)", "names containing operator characters", "NaN degrees with abstract operators",
           "rounding (Mode R)"]
ASSUMPTIONS = ["degrees and weight finite in [0,1]", "abstract operators: finite result for finite operands"]
STUBS = ["NormLambda(conjunction/disjunction/aggregation) returning uninterpreted-function applications", "abstract hedges h1,h2 (HedgeLambda)",
         "abstract Term returning a symbolic membership degree"]

INS = ("X", "Y")
OUT = "O"
TERMS = ("a", "b")
N_ACT = 3   # activations accumulated in the output variable's fuzzy set


def build(fl, mem, enabled, acts, agg, abstract_terms=True):
    """engine with input variables X, Y (abstract terms a, b), output variable O holding `acts` activations"""
    class Abs(fl.Term):
        def __init__(self, name, key):
            super().__init__(name)
            self.key = key

        def membership(self, x):
            return mem[self.key]

    ivs = [fl.InputVariable(v, minimum=0, maximum=1, enabled=enabled[v], terms=[Abs(t, (v, t)) for t in TERMS]) for v in INS]
    for iv in ivs:
        iv.value = 0.5
    ov = fl.OutputVariable(OUT, minimum=0, maximum=1, enabled=enabled[OUT], aggregation=agg, defuzzifier=fl.Centroid(),
                           terms=[fl.Triangle("a", 0, 0.25, 0.5), fl.Triangle("b", 0.5, 0.75, 1)])
    e = fl.Engine("e", "", ivs, [ov], [])
    for tname, deg in acts:
        ov.fuzzy.terms.append(fl.Activated(ov.term(tname), deg, fl.Minimum()))
    return e


def ob_tree(tree, label, agg_none=False):
    def run(ob):
        fl = install()
        set_mode("R")
        install_abstract(fl)
        mem = {(v, t): rvar(f"m_{v}_{t}") for v in INS for t in TERMS}
        act_degs = [rvar(f"act{i}") for i in range(N_ACT)]
        act_terms = ["a", "b", "a"]
        w = rvar("w")
        pre = [unit(x) for x in list(mem.values()) + act_degs + [w]]
        ins = {f"m_{v}_{t}": mem[(v, t)] for v in INS for t in TERMS}
        ins.update({f"act{i}": act_degs[i] for i in range(N_ACT)})
        ins["w"] = w
        AND = lambda a, b: core.abstract("AND", a, b)
        OR = lambda a, b: core.abstract("OR", a, b)
        AGG = (lambda a, b: a + b) if agg_none else (lambda a, b: core.abstract("AGG", a, b))
        used_vars = sorted({p[1] for p in rg.props(tree)})
        flag_sets = [{v: True for v in INS + (OUT,)}]
        for v in used_vars:
            f = dict(flag_sets[0])
            f[v] = False
            flag_sets.append(f)

        def hedge(h, x):
            return fl.settings.factory_manager.hedge.construct(h).hedge(x)

        def out_degree(term):
            ds = [d for t, d in zip(act_terms, act_degs) if t == term]
            if not ds:
                return core.const(0.0)
            acc = ds[0]
            for d in ds[1:]:
                acc = AGG(acc, d)
            return acc

        def mirror(t):
            return t if t[0] == "p" else (t[0], mirror(t[2]), mirror(t[1]))

        mtree = mirror(tree)
        mtext = rg.show(mtree, "minimal")
        for kind, text in rg.printings(tree):
            for flags in flag_sets:
                fl_lab = "all-enabled" if all(flags.values()) else "disabled-" + next(v for v in flags if not flags[v])
                lab = f"{label}/{kind}/{fl_lab}"

                def rbody(v, text=text, flags=flags):
                    return "\n".join([rg.PY_GENERIC, "install_abstract()",
                                      f"mem = {{{', '.join(f'({a!r}, {b!r}): {lit(v[f'm_{a}_{b}'])}' for a in INS for b in TERMS)}}}",
                                      f"flags = {flags!r}; acts = {[(t, 0) for t in act_terms]!r}; degs = {lit([v[f'act{i}'] for i in range(N_ACT)])}",
                                      f"ivs = [fl.InputVariable(n, minimum=0, maximum=1, enabled=flags[n], terms=[Fixed(t, mem[(n, t)]) for t in {TERMS!r}]) for n in {INS!r}]",
                                      "for iv in ivs: iv.value = 0.5",
                                      f"ov = fl.OutputVariable('O', minimum=0, maximum=1, enabled=flags['O'], aggregation={'None' if agg_none else 'fl.NormLambda(AGG)'}, defuzzifier=fl.Centroid(), terms=[fl.Triangle('a', 0, 0.25, 0.5), fl.Triangle('b', 0.5, 0.75, 1)])",
                                      "e = fl.Engine('e', '', ivs, [ov], [])",
                                      "for (t, _), d in zip(acts, degs): ov.fuzzy.terms.append(fl.Activated(ov.term(t), d, fl.Minimum()))",
                                      f"rule = fl.Rule.create('if ' + {text!r} + ' then O is a', e); rule.weight = {lit(v['w'])}",
                                      "got = float(rule.activate_with(fl.NormLambda(AND), fl.NormLambda(OR)))",
                                      "again = float(rule.activate_with(fl.NormLambda(AND), fl.NormLambda(OR)))      # evaluating a rule does not change it",
                                      "other = float(rule.activate_with(fl.NormLambda(OR), fl.NormLambda(AND)))      # the same loaded rule under other operators (here: swapped)",
                                      "def outdeg(term):",
                                      "    ds = [d for (t, _), d in zip(acts, degs) if t == term]",
                                      "    if not ds: return 0.0",
                                      "    acc = ds[0]",
                                      f"    for d in ds[1:]: acc = {'acc + d' if agg_none else 'AGG(acc, d)'}",
                                      "    return acc",
                                      "memb = lambda var, term: outdeg(term) if var == 'O' else mem[(var, term)]",
                                      f"tree = {tree!r}",
                                      f"exp = {lit(v['w'])} * evaluate(tree, lambda p: prop_semantics(p, memb, lambda n: flags[n]))",
                                      f"rule.text = 'if ' + {mtext!r} + ' then O is a'; rule.load(e); rule.weight = {lit(v['w'])}      # another text for the same rule object, loaded again without unload()",
                                      "relo = float(rule.activate_with(fl.NormLambda(AND), fl.NormLambda(OR)))",
                                      f"exp_relo = {lit(v['w'])} * evaluate({mtree!r}, lambda p: prop_semantics(p, memb, lambda n: flags[n]))",
                                      "if not same(relo, exp_relo, 1e-9): verdict(True, 'after giving the rule the text %r and loading it again: %r, grammar semantics %r' % (rule.text, relo, exp_relo))",
                                      "AND, OR = OR, AND",
                                      f"exp_other = {lit(v['w'])} * evaluate(tree, lambda p: prop_semantics(p, memb, lambda n: flags[n]))",
                                      "AND, OR = OR, AND",
                                      f"verdict(not same(got, exp, 1e-9) or not same(rule.activation_degree, other) or not same(again, exp, 1e-9) or not same(other, exp_other, 1e-9), 'if ' + {text!r} + ': activation degree %r, evaluated again %r, grammar semantics %r; with the operators swapped %r, grammar semantics %r' % (got, again, exp, other, exp_other))"])

                rp = replay_fn(PROPERTY, lab, rbody, key=None)

                def body(text=text, flags=flags):
                    agg = None if agg_none else fl.NormLambda(AGG)
                    e = build(fl, mem, flags, list(zip(act_terms, act_degs)), agg)
                    rule = fl.Rule.create(f"if {text} then O is a", e)
                    rule.weight = w
                    r = rule.activate_with(fl.NormLambda(AND), fl.NormLambda(OR))
                    again = rule.activate_with(fl.NormLambda(AND), fl.NormLambda(OR))
                    stored = rule.activation_degree
                    other = rule.activate_with(fl.NormLambda(OR), fl.NormLambda(AND))      # the same loaded rule, the operators swapped
                    # the same rule OBJECT gets another text (the mirrored antecedent) and is loaded again, without unload()
                    rule.text = f"if {mtext} then O is a"
                    rule.load(e)
                    rule.weight = w
                    relo = rule.activate_with(fl.NormLambda(AND), fl.NormLambda(OR))
                    return r, stored, again, other, relo

                def memb(v, t):
                    return out_degree(t) if v == OUT else mem[(v, t)]

                for p in ob.paths(pre, body):
                    if p.exc is not None:
                        ob.unexpected(pre, p, lab, ins, rp)
                        continue
                    got, stored, again, other, relo = p.result
                    val = rg.evaluate(tree, lambda q: rg.prop_semantics(q, memb, hedge, lambda n: flags[n], core.const(1.0), core.const(0.0)), AND, OR)
                    exp = w * val
                    val2 = rg.evaluate(tree, lambda q: rg.prop_semantics(q, memb, hedge, lambda n: flags[n], core.const(1.0), core.const(0.0)), OR, AND)
                    val3 = rg.evaluate(mtree, lambda q: rg.prop_semantics(q, memb, hedge, lambda n: flags[n], core.const(1.0), core.const(0.0)), AND, OR)
                    ob.prove(pre, p, z3.And(same(got, exp), same(stored, again), same(again, exp), same(other, w * val2), same(relo, w * val3)), lab, ins, rp)
                    ob.expect_sat(pre, p, same(got, core.const(2.0)), f"{label}/twin")

    return run


def ob_registered(tn, sn, tree, label):
    """registered operator pair on a hedge-free tree: the value equals the documented formulas composed per the grammar"""

    def run(ob):
        fl = install()
        set_mode("R")
        mem = {(v, t): rvar(f"m_{v}_{t}") for v in INS for t in TERMS}
        w = rvar("w")
        pre = [unit(x) for x in list(mem.values()) + [w]]
        ins = {f"m_{v}_{t}": mem[(v, t)] for v in INS for t in TERMS}
        ins["w"] = w
        T, Sn = getattr(fl, tn)(), getattr(fl, sn)()
        ft, fs = nspec.TNORMS[tn], nspec.SNORMS[sn]
        text = rg.show(tree, "minimal")
        flags = {v: True for v in INS + (OUT,)}

        def rbody(v):
            return "\n".join([rg.PY_GENERIC, f"AND = lambda a, b: {nspec.PY[tn]}", f"OR = lambda a, b: {nspec.PY[sn]}",
                              f"mem = {{{', '.join(f'({a!r}, {b!r}): {lit(v[f'm_{a}_{b}'])}' for a in INS for b in TERMS)}}}",
                              f"ivs = [fl.InputVariable(n, minimum=0, maximum=1, terms=[Fixed(t, mem[(n, t)]) for t in {TERMS!r}]) for n in {INS!r}]",
                              "for iv in ivs: iv.value = 0.5",
                              "ov = fl.OutputVariable('O', minimum=0, maximum=1, terms=[fl.Triangle('a', 0, 0.25, 0.5)])",
                              "e = fl.Engine('e', '', ivs, [ov], [])",
                              f"rule = fl.Rule.create('if ' + {text!r} + ' then O is a', e); rule.weight = {lit(v['w'])}",
                              f"got = float(rule.activate_with(fl.{tn}(), fl.{sn}()))",
                              f"exp = {lit(v['w'])} * evaluate({tree!r}, lambda p: mem[(p[1], p[3])])",
                              f"verdict(not same(got, exp, 1e-9), {text!r} + ' with {tn}/{sn}: %r, grammar semantics %r' % (got, exp))"])

        rp = replay_fn(PROPERTY, label, rbody, key=None)

        def body():
            e = build(fl, mem, flags, [], fl.Maximum())
            rule = fl.Rule.create(f"if {text} then O is a", e)
            rule.weight = w
            return rule.activate_with(T, Sn)

        for p in ob.paths(pre, body):
            if p.exc is not None:
                ob.unexpected(pre, p, label, ins, rp)
                continue
            val = rg.evaluate(tree, lambda q: mem[(q[1], q[3])].v, ft, fs)
            ob.prove(pre, p, is_val(p.result, w.v * val), label, ins, rp)

    return run


def trees(tier, seed):
    rng = random.Random(6000 + seed)
    ts = [(f"sys{i}", t) for i, t in enumerate(rg.systematic_trees(INS, TERMS))]
    # hand-picked: hedges, any, output variable, disabled-sensitive
    hp = [("p", "X", ("very",), "a"), ("p", "X", ("h1", "h2"), "a"), ("p", "X", ("h2", "h1"), "b"), ("p", "Y", ("not", "very"), "a"),
          ("p", "X", ("any",), None), ("p", "X", ("not", "any"), None), ("p", "O", (), "a"), ("p", "O", ("h1",), "b"),
          ("and", ("p", "O", (), "a"), ("or", ("p", "X", ("somewhat",), "a"), ("p", "Y", ("any",), None))),
          ("or", ("and", ("p", "X", ("seldom",), "b"), ("p", "O", ("not",), "a")), ("and", ("p", "Y", ("extremely",), "a"), ("p", "X", (), "a")))]
    ts += [(f"hand{i}", t) for i, t in enumerate(hp)]
    n = 40 if tier == "quick" else 340
    seen = {repr(t) for _, t in ts}
    k = 0
    while k < n:
        d = rng.choice((1, 2, 3)) if (tier == "quick" or k < 40) else rng.choice((2, 3, 4))
        t = rg.gen_tree(rng, d, INS + (OUT,), TERMS)
        if repr(t) in seen or rg.size(t) > (5 if tier == "quick" else 8):
            continue
        seen.add(repr(t))
        ts.append((f"rnd{k}", t))
        k += 1
    return ts


def obligations(tier, seed):
    obs = []
    for name, t in trees(tier, seed):
        obs.append((f"abstract/{name}", ob_tree(t, f"abstract/{name}")))
    # aggregation None => plain sum for output-variable propositions
    obs.append(("abstract/no-aggregation", ob_tree(("and", ("p", "O", (), "a"), ("p", "X", (), "a")), "abstract/no-aggregation", agg_none=True)))
    fixed = [("and", ("p", "X", (), "a"), ("or", ("p", "Y", (), "a"), ("p", "X", (), "b"))),
             ("or", ("and", ("p", "X", (), "a"), ("p", "Y", (), "a")), ("p", "Y", (), "b")),
             ("or", ("p", "X", (), "a"), ("and", ("p", "Y", (), "a"), ("p", "X", (), "b")))]
    pairs = [(t, s) for t, s in nspec.DUALS] if hasattr(nspec, "DUALS") else list(zip(nspec.TNORMS, nspec.SNORMS))
    extra = [("Minimum", "UnboundedSum"), ("AlgebraicProduct", "NormalizedSum"), ("HamacherProduct", "Maximum")]
    for tn, sn in list(pairs) + extra:
        for i, t in enumerate(fixed):
            if tier == "quick" and i > 0 and (tn, sn) in extra:
                continue
            obs.append((f"registered/{tn}/{sn}/t{i}", ob_registered(tn, sn, t, f"registered/{tn}/{sn}/t{i}")))
    return obs
