"""C11  Tsukamoto values invert the monotonic membership functions."""
from __future__ import annotations

import numpy as np
import z3

from spec import terms as spec
from symfl import core
from symfl.core import S, set_mode, sym_array, tf, same, ZB, kind_of
from symfl.install import install
from symfl.replay import lit, replay_fn

from .common import rvar, all_same, is_val
from .c03 import mk, sym_params, hpre, py_ctor, _inputs

PROPERTY = "C11"
EXPLANATION = ("For Arc, Concave, Ramp, Sigmoid, SShape, ZShape the real tsukamoto(y) is executed with symbolic parameters, height "
               "and y in (0,h); finiteness, membership(tsukamoto(y)) == y (the real membership code runs on the symbolic z), "
               "monotonicity in the term's direction and elementwise array results are SMT queries over all reals (Mode R; sqrt "
               "= witness, exp/log = uninterpreted with exp(log t) = t). Every non-monotonic term class must refuse.")
BOUNDS = {"quick": {"y": "all reals in (0,h)", "parameters": "all valid finite parameterisations, both directions, h in (0,1]",
                    "arrays": "1-D of 2"},
          "thorough": {"y": "as quick", "arrays": "1-D of 3, 2-D 2x2"}}
OUTSIDE = ["how close membership(tsukamoto(y)) is to y in floating point (Mode R is exact arithmetic)",
           "y = 0 and y = h (end points of the open interval)"]
ASSUMPTIONS = ["0 < y < h <= 1", "documented parameter validity", "exp/log are mutually inverse (instance axioms)"]
STUBS = []
OB_BUDGET_S = {"quick": 300, "thorough": 2700}

MONO = list(spec.INCREASING)


def _replay(name, law):
    def body(v):
        lines = [f"t = {py_ctor(name, v)}", f"y = {lit(v.get('y', 0.5))}", f"y2 = {lit(v.get('y2', 0.5))}", f"h = {lit(v['h'])}",
                 "z = float(t.tsukamoto(y)); z2 = float(t.tsukamoto(y2)); tol = 1e-7"]
        lines.append({
            "finite": "bad = not math.isfinite(z)",
            "inverse": "bad = not same(float(t.membership(z)), y, tol)",
            "mono_inc": "bad = y <= y2 and not (z <= z2 + tol * max(1.0, abs(z)))",
            "mono_dec": "bad = y <= y2 and not (z >= z2 - tol * max(1.0, abs(z)))",
            "pyfloat": "bad = not (same(float(t.tsukamoto(float(y))), float(t.tsukamoto(np.float64(y))), 0.0) and same(float(t.tsukamoto(np.array(y))), float(t.tsukamoto(np.float64(y))), 0.0))",
            "arrays": "ya = np.array([y, y2]); r = t.tsukamoto(ya); y0d = np.array(y); t.tsukamoto(y0d);"
                      " bad = not same(r, [z, z2], 0.0) or not same(ya, [y, y2]) or not same(y0d, y)\n"
                      "for A in (np.array([y]), np.array([[y]]), np.array([[y], [y2]]), np.array([[y, y2]]), np.array([[y, y, y2], [y2, y, y2]]).T):\n"
                      "    rs = t.tsukamoto(A); bad = bad or np.shape(rs) != A.shape or not same(rs, np.vectorize(lambda q: float(t.tsukamoto(q)))(A), 0.0)",
        }[law])
        lines.append(f"verdict(bad, '{name}.{law}: tsukamoto(%r) = %r, membership back = %r; tsukamoto(%r) = %r' % (y, z, float(t.membership(z)), y2, z2))")
        return "\n".join(lines)

    return replay_fn(PROPERTY, f"{name}.{law}", body, key=f"{name}/{law}")


def ob_reuse(name):
    """one term object used (tsukamoto and membership), then re-parameterised through its attributes, then used again: the
    inverse is the one of the current parameters"""
    def run(ob):
        fl = install()
        set_mode("R")
        params, valid, mu, at_inf, mono = spec.TERMS[name]
        P0 = {k: rvar(k + "_old") for k in params}
        P = sym_params(name)
        h0, h, y0, y = rvar("h_old"), rvar("h"), rvar("y_old"), rvar("y")
        Pv0, Pv = {k: v.v for k, v in P0.items()}, {k: v.v for k, v in P.items()}
        pre = [valid(Pv0), valid(Pv), y.v > 0, y.v < h.v, y0.v > 0, y0.v < h0.v] + hpre(h) + hpre(h0)
        ins = _inputs(P, h)
        ins.update({k + "_old": v for k, v in P0.items()})
        ins.update({"y": y, "h_old": h0, "y_old": y0})
        label = f"{name}/reuse"

        def rbody(v):
            old = {k: v[k + "_old"] for k in params}
            old["h"] = v["h_old"]
            return "\n".join([f"t = {py_ctor(name, old)}", f"t.membership(t.tsukamoto({lit(v['y_old'])})); t.tsukamoto(np.array([{lit(v['y_old'])}]))"] +
                              [f"t.{k} = {lit(v[k])}" for k in params] + [f"t.height = {lit(v['h'])}", f"y = {lit(v['y'])}",
                               f"fresh = {py_ctor(name, v)}",
                               "z = float(t.tsukamoto(y)); back = float(fresh.membership(z))",
                               f"verdict(not same(back, y, 1e-7), '{name} re-parameterised: tsukamoto(%r) = %r, membership of a fresh term there = %r' % (y, z, back))"])

        rp = replay_fn(PROPERTY, label, rbody, key=label)

        def body():
            t = mk(fl, name, P0, h0)
            t.membership(t.tsukamoto(y0))
            t.tsukamoto(sym_array([y0]))
            for k in params:
                if not hasattr(t, k):
                    raise AssertionError(f"{name} has no attribute {k}")
                setattr(t, k, P[k])
            t.height = h
            z = t.tsukamoto(y)
            return z, mk(fl, name, P, h).membership(z)       # membership taken from a fresh term with the current parameters

        for p in ob.paths(pre, body):
            if p.exc is not None:
                ob.unexpected(pre, p, label, ins, rp)
                continue
            z, back = tf(p.result[0]), tf(p.result[1])
            ob.prove(pre, p, z3.And(ZB(z.fin()), is_val(back, y.v)), label, ins, rp)
            ob.expect_sat(pre, p, is_val(back, y.v / 2), f"{label}/twin")

    return run


def ob_f_finite(name):
    """Mode F (IEEE doubles, bit-exact comparisons and subtractions): tsukamoto(y) is finite for every double y strictly between 0 and
    the height - in particular for the doubles next to 0, to height/2 and to the height.  Ladder: relaxed * / (sound
    over-approximation: unsat is a proof); a relaxed counterexample that does not replay is retried with exact fp.mul / fp.div"""
    def run(ob):
        fl = install()
        params = spec.TERMS[name][0]
        label = f"{name}/F/finite"

        def rbody(v):
            return "\n".join([f"t = {py_ctor(name, v)}", f"y = {lit(v['y'])}", "with np.errstate(all='ignore'): z = float(t.tsukamoto(y))",
                              f"verdict(not math.isfinite(z), '{name}: tsukamoto(%r) = %r with height %r' % (y, z, t.height))"])

        rp = replay_fn(PROPERTY, label, rbody, key=label)

        def attempt(fexact):
            set_mode("F", fexact=fexact)
            P = {k: core.var(k) for k in params}
            h, y = core.var("h"), core.var("y")
            mid = lambda v: z3.And(core._fin(v.f), z3.Or(z3.fpIsZero(v.f), z3.And(z3.fpGEQ(z3.fpAbs(v.f), core.fv(2.0 ** -100)), z3.fpLEQ(z3.fpAbs(v.f), core.fv(2.0 ** 100)))))  # noqa: E731
            # (degrees below 2^-100 are outside: there h / y overflows, e.g. Sigmoid(h = 4.4e-6).tsukamoto(5e-318) is +inf - observed, see DESIGN 6.4)
            pre = [mid(v) for v in P.values()] + [z3.fpGEQ(h.f, core.fv(2.0 ** -20)), z3.fpLEQ(h.f, core.fv(1.0)), z3.fpGEQ(y.f, core.fv(2.0 ** -100)), z3.fpLT(y.f, h.f)]
            a, b = (P[params[0]], P[params[1]])
            if name == "Sigmoid":
                pre += [z3.Not(z3.fpIsZero(b.f))]
            else:      # two distinct end points, separated by at least 2^-30 relative (adjacent doubles as end points are outside)
                d = z3.fpAbs(z3.fpSub(z3.RNE(), a.f, b.f))
                big = z3.If(z3.fpGEQ(z3.fpAbs(a.f), z3.fpAbs(b.f)), z3.fpAbs(a.f), z3.fpAbs(b.f))
                pre += [z3.Not(z3.fpEQ(a.f, b.f)), z3.fpGEQ(d, z3.fpMul(z3.RNE(), big, core.fv(2.0 ** -30)))]
                if name in ("SShape", "ZShape"):
                    pre += [z3.fpLT(a.f, b.f)]
            ins = dict(P)
            ins.update({"h": h, "y": y})
            n = 0
            for p in ob.paths(pre, lambda: mk(fl, name, P, h).tsukamoto(y)):
                n += 1
                if p.exc is not None:
                    ob.unexpected(pre, p, label, ins, rp)
                    continue
                if ob.reachable(pre, p, label) is None:
                    continue
                z = tf(p.result).f
                ob.prove(pre, p, core._fin(z), label + ("/exact" if fexact else ""), ins, rp)
            return n

        before = len(ob.r.unreproduced)
        attempt(False)
        if len(ob.r.unreproduced) > before and name in (("Sigmoid", "Ramp") if ob.tier == "quick" else ("Sigmoid", "Ramp", "Concave")):
            # relaxed candidates did not replay: decide with the exact encodings (no square roots in these three)
            del ob.r.unreproduced[before:]
            ob.r.sat = 0
            ob.query_timeout_ms = 45000 if ob.tier == "quick" else 1500000
            attempt(True)

    return run


def ob_f_finite_all_heights(name="Ramp"):
    """Mode F with the exact fp.mul / fp.div encodings over the WHOLE range of heights and degrees (subnormals included):
    0 < y < h <= 1, end points of magnitude <= 2^100.  For Ramp the documented s + (e - s) * y / h never leaves the doubles because
    (e - s) * y / h is bounded by |e - s| (1 + eps); an algebraically equal form that divides by h first overflows for tiny heights"""
    def run(ob):
        fl = install()
        params = spec.TERMS[name][0]
        label = f"{name}/F/finite/all-heights"

        def rbody(v):
            return "\n".join([f"t = {py_ctor(name, v)}", f"y = {lit(v['y'])}", "with np.errstate(all='ignore'): z = float(t.tsukamoto(y))",
                              f"verdict(not math.isfinite(z), '{name}: tsukamoto(%r) = %r with height %r' % (y, z, t.height))"])

        rp = replay_fn(PROPERTY, label, rbody, key=label)
        set_mode("F", fexact=True)
        ob.query_timeout_ms = 240000 if ob.tier == "quick" else 1500000
        P = {k: core.var(k) for k in params}
        h, y = core.var("h"), core.var("y")
        pre = [z3.And(core._fin(v.f), z3.fpLEQ(z3.fpAbs(v.f), core.fv(2.0 ** 100))) for v in P.values()]
        pre += [z3.fpGT(y.f, core.fv(0.0)), z3.fpLT(y.f, h.f), z3.fpLEQ(h.f, core.fv(1.0))]
        ins = dict(P)
        ins.update({"h": h, "y": y})
        for p in ob.paths(pre, lambda: mk(fl, name, P, h).tsukamoto(y)):
            if p.exc is not None:
                ob.unexpected(pre, p, label, ins, rp)
                continue
            if ob.reachable(pre, p, label) is None:
                continue
            ob.prove(pre, p, core._fin(tf(p.result).f), label, ins, rp)

    return run


def ob_pyfloat(name):
    """parameters, height and degree given as plain Python floats: no exception that NumPy numbers would not raise, same value"""
    def run(ob):
        fl = install()
        set_mode("R")
        S.pyfloats = True
        params, valid, mu, at_inf, mono = spec.TERMS[name]
        P = sym_params(name)
        h, y = rvar("h"), rvar("y")
        Pv = {k: v.v for k, v in P.items()}
        pre = [valid(Pv), y.v >= 0, y.v <= h.v] + hpre(h)
        py = core.PyRFloat.of
        tpy = mk(fl, name, {k: py(v) for k, v in P.items()}, py(h))
        tnp = mk(fl, name, P, h)
        ins = _inputs(P, h)
        ins["y"] = y
        label = f"{name}/python-floats"
        for p in ob.paths(pre, lambda: (tpy.tsukamoto(py(y)), tnp.tsukamoto(y), tnp.tsukamoto(core.sym0d(y)))):
            if p.exc is not None:
                ob.unexpected(pre, p, label, ins, _replay(name, "pyfloat"))
                continue
            ob.prove(pre, p, z3.And(same(tf(p.result[0]), tf(p.result[1])), same(tf(p.result[2]), tf(p.result[1]))), label, ins, _replay(name, "pyfloat"))

    return run


def ob_inverse(name):
    def run(ob):
        fl = install()
        set_mode("R")
        params, valid, mu, at_inf, mono = spec.TERMS[name]
        P = sym_params(name)
        h, y = rvar("h"), rvar("y")
        Pv = {k: v.v for k, v in P.items()}
        pre = [valid(Pv), y.v > 0, y.v < h.v] + hpre(h)
        t = mk(fl, name, P, h)
        ins = _inputs(P, h)
        ins["y"] = y

        def body():
            z = t.tsukamoto(y)
            return z, t.membership(z)

        for p in ob.paths(pre, body):
            if p.exc is not None:
                ob.unexpected(pre, p, f"{name}/inverse", ins, _replay(name, "finite"))
                continue
            z, back = tf(p.result[0]), tf(p.result[1])
            ob.prove(pre, p, ZB(z.fin()), f"{name}/finite", ins, _replay(name, "finite"))
            ob.prove(pre, p, is_val(back, y.v), f"{name}/inverse", ins, _replay(name, "inverse"))
            ob.expect_sat(pre, p, is_val(back, y.v / 2), f"{name}/inverse/twin")

    return run


def ob_mono(name):
    def run(ob):
        fl = install()
        set_mode("R")
        params, valid, mu, at_inf, mono = spec.TERMS[name]
        P = sym_params(name)
        h, y, y2 = rvar("h"), rvar("y"), rvar("y2")
        Pv = {k: v.v for k, v in P.items()}
        pre = [valid(Pv), y.v > 0, y.v < h.v, y2.v > 0, y2.v < h.v, y.v <= y2.v] + hpre(h)
        t = mk(fl, name, P, h)
        inc = spec.INCREASING[name](Pv)
        ins = _inputs(P, h)
        ins.update({"y": y, "y2": y2})
        for p in ob.paths(pre, lambda: (t.tsukamoto(y), t.tsukamoto(y2))):
            if p.exc is not None:
                ob.unexpected(pre, p, f"{name}/monotone", ins, _replay(name, "finite"))
                continue
            z, z2 = tf(p.result[0]), tf(p.result[1])
            if inc is not False:
                ob.prove(pre + ([inc] if inc is not True else []), p, z.v <= z2.v, f"{name}/monotone-inc", ins, _replay(name, "mono_inc"))
            if inc is not True:
                ob.prove(pre + ([z3.Not(inc)] if inc is not False else []), p, z.v >= z2.v, f"{name}/monotone-dec", ins, _replay(name, "mono_dec"))

    return run


def ob_arrays(name, tier):
    def run(ob):
        fl = install()
        set_mode("R")
        params, valid, mu, at_inf, mono = spec.TERMS[name]
        P = sym_params(name)
        h = rvar("h")
        n = 2 if tier == "quick" else 3
        ys = [rvar(f"y{i}") for i in range(n)]
        Pv = {k: v.v for k, v in P.items()}
        pre = [valid(Pv)] + hpre(h) + [z3.And(y.v > 0, y.v < h.v) for y in ys]
        t = mk(fl, name, P, h)
        ins = _inputs(P, h)
        ins.update({"y": ys[0], "y2": ys[1]})

        def body():
            A = sym_array(ys)
            r = t.tsukamoto(A)
            r2 = t.tsukamoto(sym_array([[ys[0], ys[1]], [ys[1], ys[0]]])) if tier != "quick" else None
            # arrays with one element or axes of length one keep their shape
            shapes = ([ys[0]], [[ys[0]]], [[ys[0]], [ys[1]]], [[ys[0], ys[1]]])
            sing = [(t.tsukamoto(sym_array(a)), np.shape(np.array(a, dtype=object))) for a in shapes]
            # memory layout: a transposed view (Fortran order) of a 2x3 array holds the same logical elements
            sing.append((t.tsukamoto(sym_array([[ys[0], ys[0], ys[1]], [ys[1], ys[0], ys[1]]]).T), (3, 2)))
            return r, [t.tsukamoto(y) for y in ys], A, r2, sing

        for p in ob.paths(pre, body):
            if p.exc is not None:
                ob.unexpected(pre, p, f"{name}/arrays", ins, _replay(name, "arrays"))
                continue
            r, e, A, r2, sing = p.result
            wrong = [(kind_of(a), shp) for a, shp in sing if kind_of(a) != ("array", shp)]
            if wrong:
                ob.prove(pre, p, False, f"{name}/arrays/singleton-shape {wrong[0]}", ins, _replay(name, "arrays"))
                continue
            ob.prove(pre, p, z3.And([all_same(a, [e[0], e[1], e[0], e[0], e[1], e[1]] if shp == (3, 2) else e[:int(np.prod(shp))]) for a, shp in sing]),
                     f"{name}/arrays/singleton-axes+layout", ins, _replay(name, "arrays"))
            if kind_of(r) != ("array", (n,)):
                ob.prove(pre, p, False, f"{name}/arrays/shape {kind_of(r)}", ins, _replay(name, "arrays"))
                continue
            ob.prove(pre, p, all_same(r, e), f"{name}/arrays/1d", ins, _replay(name, "arrays"))
            ob.prove(pre, p, all_same(A, ys), f"{name}/arrays/argument-not-modified", ins, _replay(name, "arrays"))
            if r2 is not None:
                ob.prove(pre, p, all_same(r2, [e[0], e[1], e[1], e[0]]), f"{name}/arrays/2d", ins, _replay(name, "arrays"))

    return run


def ob_refuse(ob):
    """every term class that does not declare itself monotonic refuses tsukamoto (concrete: no symbolic content)"""
    fl = install()
    set_mode("R")
    names = [n for n in fl.settings.factory_manager.term.constructors]
    y = rvar("y")
    for name in sorted(names):
        t = fl.settings.factory_manager.term.construct(name)
        ob.r.queries += 1
        if name in MONO:
            if not t.is_monotonic():
                ob.error(f"{name} does not declare itself monotonic")
            else:
                ob.r.proved += 1
            continue
        if t.is_monotonic():
            ob.error(f"{name}.is_monotonic() is True but it is not a documented monotonic term")
            continue
        try:
            t.tsukamoto(y)
        except RuntimeError:
            ob.r.proved += 1
            continue
        except Exception as e:  # noqa
            ob.error(f"{name}.tsukamoto raised {type(e).__name__} instead of refusing with RuntimeError")
            continue

        def body(v, name=name):
            return "\n".join([f"t = fl.{name}()", "EXPECT = True",
                              "try:\n    t.tsukamoto(0.5)\n    ok = False\nexcept RuntimeError:\n    ok = True",
                              f"verdict(not ok, '{name}.tsukamoto did not refuse')"])

        ob.prove([], None, False, f"{name}/refuses", {}, replay_fn(PROPERTY, f"{name}.refuse", body, key=f"{name}/refuse"))


def _obligations(tier, seed):
    obs = []
    for name in MONO:
        obs.append((f"{name}/R/inverse", ob_inverse(name)))
        obs.append((f"{name}/R/monotone", ob_mono(name)))
        obs.append((f"{name}/R/arrays", ob_arrays(name, tier)))
        obs.append((f"{name}/R/python-floats", ob_pyfloat(name)))
        obs.append((f"{name}/R/reuse", ob_reuse(name)))
        obs.append((f"{name}/F/finite", ob_f_finite(name)))
        if name == "Ramp":
            obs.append((f"{name}/F/finite/all-heights", ob_f_finite_all_heights(name)))
    obs.append(("non-monotonic/refuse", ob_refuse))
    return obs


def obligations(tier, seed):
    from . import conform
    return _obligations(tier, seed) + conform.obligations(PROPERTY, tier)
