"""C16  Malformed rule and FLL text is rejected cleanly, never accepted or crashed on."""
from __future__ import annotations

import contextlib

import z3

from symfl import core, tokens
from symfl.core import S, set_mode, SymBool, Unsupported
from symfl.install import install, shadow
from symfl.replay import replay_fn
from symfl.tokens import Tok, PH, Key, LinearDict, SymText, Vocab, resym, spell, is_symbolic_text

from .common import rvar

PROPERTY = "C16"
EXPLANATION = ("A text is a sequence of tokens whose identity is a solver variable each: an index into a bounded vocabulary (the rule "
               "keywords, parentheses, the variable / term / hedge names of a small engine, a number, an unknown word). The real "
               "Rule.parse, Function.infix_to_postfix, Antecedent.load, Consequent.load, Rule.load, RuleBlock.load_rules (and for FLL "
               "documents the real FllImporter line dispatch) run on these tokens; every comparison of a token with a word forks the "
               "path explorer, so the explored paths partition ALL token sequences of that shape over the vocabulary. Per path: the "
               "exception (if any) must be a syntax, value or key error - never TypeError/AttributeError/IndexError/RecursionError/"
               "RuntimeError; after a failed load the rule must not report loaded; and on accepting paths the solver must show that "
               "the path condition implies the statement's grammar (a token automaton encoded in z3: keywords, variable, `is`, hedges, "
               "a term of that variable, operands on both sides of every connective, balanced parentheses, numeric weight, no trailing "
               "token); the accepted rule must then export, re-import to the same text and evaluate on symbolic inputs.")
OUTSIDE = ["character-level tokenisation: whitespace splitting and Function.format_infix's regular expression are stubbed as the identity on "
           "pre-tokenised text (tokens glued together such as `a)and` are outside)", "comments (`#`)",
           "texts longer than the bound, words outside the vocabulary other than one unknown word",
           "acceptance of well-formed rules (not demanded by the statement; C06 covers their meaning)",
           "where balanced parentheses are placed inside an antecedent (the statement lists unbalanced ones only)"]
ASSUMPTIONS = ["tokens range over the stated vocabulary plus one unknown word", "engine: inputs ia{lo,hi} ib{lo}, output oa{lo,big}; hedges very, any (+ not)"]
STUBS = ["symbolic tokens: str subclasses with solver-decided equality and forked hash (symfl/tokens.py)",
         "Rule.IF/IS/THEN/AND/OR/WITH and engine names rebound to hash-0 Key strings; function/hedge/component factories use a "
         "linear-scan dict (same answers for ordinary strings)",
         "Function.format_infix -> identity on token texts (real one for ordinary strings); results of Function.infix_to_postfix and "
         "assignments to Antecedent.text / Consequent.text are re-split into the same token objects",
         "builtin float shadowed in fuzzylite.rule: number token -> 0.5, any other token -> ValueError (as float() does)"]
OB_BUDGET_S = {"quick": 300, "thorough": 2400}
TOTAL_BUDGET_S = {"quick": 420, "thorough": 5400}
BOUNDS = {"quick": {"rule tokens": "every sequence of 1..7 tokens; `if` + every sequence of 1..6 tokens (7 without parentheses/keywords) + `then oa is lo`; "
                                   "`if ia is lo then` + every sequence of 1..6 tokens; a loaded rule re-parsed with every sequence of 1..5 tokens; "
                                   "rule blocks [valid, every sequence of 1..5 tokens, valid]",
                    "vocabulary": "if then with and or is ( ) ia ib oa lo hi big very any 0.5 + unknown word",
                    "FLL documents": "a valid 22-line document with one line replaced by / preceded by a symbolic line: symbolic key with 0..2 symbolic "
                                     "value tokens, a word without colon, or the original key with 0..3 symbolic value tokens; vocabulary: every word "
                                     "of the document + description none inf 0.5 2 Constant Discrete Linear Function WeightedAverage TakagiSugeno "
                                     "First Highest x and or with very any ( ) + unknown word"},
          "thorough": {"rule tokens": "as quick with 9 / 7 (9 without parentheses) / 8 / 6 / 7 free tokens", "vocabulary": "quick + not , sin +",
                       "FLL documents": "as quick with up to 3 symbolic value tokens after a symbolic key and up to 6 after the original key, insertion of two-value lines"}}

ALLOWED = (SyntaxError, ValueError, KeyError)
KNOWN_MISPLACED = "Antecedent.load/misplaced-connectives-accepted"

WORDS = {"quick": ["if", "then", "with", "and", "or", "is", "(", ")", "ia", "ib", "oa", "lo", "hi", "big", "very", "any", "0.5"],
         "thorough": ["if", "then", "with", "and", "or", "is", "(", ")", "ia", "ib", "oa", "lo", "hi", "big", "very", "any", "0.5", "not", ",", "sin", "+", "0.0"]}
ENGINE = {"inputs": {"ia": ["lo", "hi"], "ib": ["lo"]}, "outputs": {"oa": ["lo", "big"]}}
HEDGES = ["very", "any", "not"]
NUMBERS = ["0.5", "0.0"]      # "0.0": a number that is falsy (a weight of zero is a weight)

PY_ENGINE = '''
def build_c16_engine(fl, K=str):
    def var(cls, name, terms):
        return cls(K(name), minimum=0.0, maximum=1.0, terms=[fl.Triangle(K(t), 0.0, 0.25 * (i + 1), 1.0) for i, t in enumerate(terms)])
    e = fl.Engine("c16")
    e.input_variables = [var(fl.InputVariable, "ia", ["lo", "hi"]), var(fl.InputVariable, "ib", ["lo"])]
    e.output_variables = [var(fl.OutputVariable, "oa", ["lo", "big"])]
    return e
'''


# ------------------------------------------------------------------------------------------------------------------
# the statement's grammar, once as plain Python (used by replays and to validate the z3 encoding) and once over z3 terms
# ------------------------------------------------------------------------------------------------------------------
PY_GRAMMAR = '''
def grammatical(words, inputs, outputs, hedges, numbers, loose=False):
    # `if` antecedent `then` consequent [`with` number];  antecedent: operand ((and|or) operand)* with balanced parentheses
    # (their placement is judged only where it leaves a connective without an operand inside its group: "( and" and "and )"); operand: variable `is` hedge* (term-of-that-variable | any);  consequent: output `is`
    # hedge* term (`and` ...)*.  Returns True iff the token list has none of the statement's error classes.
    # loose=True is the signature of the recorded finding: the connectives of the antecedent may stand anywhere, as long as
    # there is exactly one fewer than there are operands.
    START, A_VAR, A_IS, A_HT, A_END, C_VAR, C_IS, C_HT, C_END, W_NUM, DONE = range(11)
    allvars = dict(inputs); allvars.update(outputs)
    st, depth, cur, nconn, nprop = START, 0, None, 0, 0
    prev = None
    for w in words:
        # a connective has an operand on either side WITHIN its parentheses: none directly after "(" or directly before ")"
        if not loose and st in (A_VAR, A_IS, A_HT, A_END) and ((prev == "(" and w in ("and", "or")) or (prev in ("and", "or") and w == ")")):
            return False
        prev = w
        if st in (A_VAR, A_IS, A_HT, A_END) and w in ("(", ")"):
            depth += 1 if w == "(" else -1
            if depth < 0:
                return False
            continue
        if loose and st in (A_VAR, A_IS, A_HT, A_END) and w in ("and", "or"):
            nconn += 1
            continue
        if st == START:
            if w != "if": return False
            st = A_VAR
        elif st == A_VAR or (loose and st == A_END and w in allvars):
            if w not in allvars: return False
            cur, st = w, A_IS
        elif st == A_IS:
            if w != "is": return False
            st = A_HT
        elif st == A_HT:
            if w == "any": st = A_END; nprop += 1
            elif w in hedges: st = A_HT
            elif w in allvars[cur]: st = A_END; nprop += 1
            else: return False
        elif st == A_END:
            if w in ("and", "or"): st = A_VAR
            elif w == "then":
                if depth != 0: return False
                if loose and nconn != nprop - 1: return False
                st = C_VAR
            else: return False
        elif st == C_VAR:
            if w not in outputs: return False
            cur, st = w, C_IS
        elif st == C_IS:
            if w != "is": return False
            st = C_HT
        elif st == C_HT:
            if w in hedges: st = C_HT
            elif w in outputs[cur]: st = C_END
            else: return False
        elif st == C_END:
            if w == "and": st = C_VAR
            elif w == "with": st = W_NUM
            else: return False
        elif st == W_NUM:
            if w not in numbers: return False
            st = DONE
        else:
            return False
    return st in (C_END, DONE)
'''
_ns = {}
exec(PY_GRAMMAR, _ns)
grammatical = _ns["grammatical"]


def z_grammatical(kinds, vocab, loose=False):
    """the same automaton over symbolic token kinds (z3 Int terms); returns a z3 Bool"""
    START, A_VAR, A_IS, A_HT, A_END, C_VAR, C_IS, C_HT, C_END, W_NUM, DONE, REJ = range(12)
    I = vocab.idx
    T, F = z3.BoolVal(True), z3.BoolVal(False)

    def isw(k, *ws):
        js = [I(w) for w in ws if I(w) is not None]
        return z3.Or(*[k == j for j in js]) if js else F

    allvars = dict(ENGINE["inputs"])
    allvars.update(ENGINE["outputs"])
    varnames = [v for v in allvars if I(v) is not None]
    hedges = [h for h in HEDGES if I(h) is not None]

    def term_of(cur, k, table):
        alts = [z3.And(cur == I(v), isw(k, *ts)) for v, ts in table.items() if I(v) is not None]
        return z3.Or(*alts) if alts else F

    st, depth, cur = z3.IntVal(START), z3.IntVal(0), z3.IntVal(-1)
    nconn, nprop = z3.IntVal(0), z3.IntVal(0)
    ite = z3.If
    prev_open, prev_conn = F, F
    for k in kinds:
        in_ante = z3.Or(st == A_VAR, st == A_IS, st == A_HT, st == A_END)
        # a connective directly after "(" or directly before ")" has no operand on that side within its group
        adjacent = F if loose else z3.And(in_ante, z3.Or(z3.And(prev_open, isw(k, "and", "or")), z3.And(prev_conn, isw(k, ")"))))
        prev_open, prev_conn = isw(k, "("), isw(k, "and", "or")
        paren = z3.And(in_ante, isw(k, "(", ")"))
        skipconn = z3.And(in_ante, isw(k, "and", "or")) if loose else F
        skip = z3.Or(paren, skipconn)
        ndepth = ite(paren, depth + ite(isw(k, "("), 1, -1), depth)
        a_var = ite(isw(k, *varnames), A_IS, REJ)
        then_ok = z3.And(isw(k, "then"), depth == 0, (nconn == nprop - 1) if loose else T)
        a_end = ite(isw(k, "and", "or"), A_VAR, ite(then_ok, C_VAR, a_var if loose else z3.IntVal(REJ)))
        nst = ite(st == START, ite(isw(k, "if"), A_VAR, REJ),
              ite(st == A_VAR, a_var,
              ite(st == A_IS, ite(isw(k, "is"), A_HT, REJ),
              ite(st == A_HT, ite(isw(k, "any"), A_END, ite(isw(k, *hedges), A_HT, ite(term_of(cur, k, allvars), A_END, REJ))),
              ite(st == A_END, a_end,
              ite(st == C_VAR, ite(isw(k, *list(ENGINE["outputs"])), C_IS, REJ),
              ite(st == C_IS, ite(isw(k, "is"), C_HT, REJ),
              ite(st == C_HT, ite(isw(k, *hedges), C_HT, ite(term_of(cur, k, ENGINE["outputs"]), C_END, REJ)),
              ite(st == C_END, ite(isw(k, "and"), C_VAR, ite(isw(k, "with"), W_NUM, REJ)),
              ite(st == W_NUM, ite(isw(k, *NUMBERS), DONE, REJ), REJ))))))))))
        starts = z3.Or(st == A_VAR, st == C_VAR, z3.And(st == A_END, isw(k, *varnames)) if loose else F)
        ncur = ite(z3.And(z3.Not(skip), starts), k, cur)
        nprop = ite(z3.And(z3.Not(skip), st == A_HT, nst == A_END), nprop + 1, nprop)
        nconn = ite(skipconn, nconn + 1, nconn)
        st, depth, cur = ite(adjacent, REJ, ite(paren, ite(ndepth < 0, REJ, st), ite(skipconn, st, nst))), ndepth, ncur
    return z3.Or(st == C_END, st == DONE)


# ------------------------------------------------------------------------------------------------------------------
# hooks (this process only)
# ------------------------------------------------------------------------------------------------------------------
class _TextProp:
    """Antecedent.text / Consequent.text: plain attribute semantics, but a string containing placeholders is stored re-split"""

    def __init__(self, name):
        self.slot = "_symtext_" + name

    def __get__(self, obj, owner=None):
        if obj is None:
            return self
        return obj.__dict__.get(self.slot, "")

    def __set__(self, obj, value):
        obj.__dict__[self.slot] = resym(value)


def _sym_float(x=0.0):
    if is_symbolic_text(x):
        return tokens.to_float(x)
    return float(x)


def _sym_int(x=0, *a):
    if is_symbolic_text(x):
        return tokens.to_int(x)
    return int(x, *a)


def make_factory_manager(fl):
    fm = fl.FactoryManager()
    fm.function.objects = LinearDict(fm.function.objects)
    for fac in (fm.hedge, fm.term, fm.tnorm, fm.snorm, fm.defuzzifier, fm.activation):
        fac.constructors = LinearDict(fac.constructors)
    return fm


@contextlib.contextmanager
def token_hooks(fl, fm=None):
    """everything the token model rebinds, undone on exit (the concrete conformance runs happen outside)"""
    import fuzzylite.rule as rule_mod
    Rule, Function = fl.Rule, fl.Function
    saved_kw = {k: getattr(Rule, k) for k in ("IF", "IS", "THEN", "AND", "OR", "WITH")}
    fm = fm or make_factory_manager(fl)
    real_format = Function.__dict__["format_infix"]
    real_i2p = Function.__dict__["infix_to_postfix"]

    def format_infix(cls, formula):
        def real(text):
            old = Rule.AND, Rule.OR
            Rule.AND, Rule.OR = saved_kw["AND"], saved_kw["OR"]     # the real function removes them from a set of plain strings
            try:
                return real_format.__func__(cls, text)
            finally:
                Rule.AND, Rule.OR = old
        if is_symbolic_text(resym(formula)):
            return tokens.map_words(real, formula)
        return real(formula)

    def infix_to_postfix(cls, formula):
        return resym(real_i2p.__func__(cls, formula))

    import fuzzylite.activation as act_mod
    import fuzzylite.defuzzifier as defz_mod
    Op = fl.Op
    real_strip = Op.__dict__["strip_comments"]
    real_ident = Op.__dict__["as_identifier"]

    def strip_comments(fll, /, delimiter="#"):
        return resym(real_strip.__func__(fll, delimiter))

    def as_identifier(name):
        if is_symbolic_text(name) or (isinstance(name, str) and tokens.PHRE.search(name)):
            return tokens.as_identifier(real_ident.__func__, name)
        return real_ident.__func__(name)

    try:
        for k, v in saved_kw.items():
            setattr(Rule, k, Key(v))
        Function.format_infix = classmethod(format_infix)
        Function.infix_to_postfix = classmethod(infix_to_postfix)
        Op.strip_comments = staticmethod(strip_comments)
        Op.as_identifier = staticmethod(as_identifier)
        for cls in (fl.Antecedent, fl.Consequent):
            cls.text = _TextProp("text")
        S.symtext = True
        with fl.settings.context(factory_manager=fm), shadow(rule_mod, float=_sym_float), shadow(act_mod, int=_sym_int), \
                shadow(defz_mod, int=_sym_int):
            yield
    finally:
        S.symtext = False
        for k, v in saved_kw.items():
            setattr(Rule, k, v)
        Function.format_infix = real_format
        Function.infix_to_postfix = real_i2p
        Op.strip_comments = real_strip
        Op.as_identifier = real_ident
        for cls in (fl.Antecedent, fl.Consequent):
            if "text" in cls.__dict__:
                delattr(cls, "text")


def outcome_class(exc):
    return "ok" if exc is None else type(exc).__name__


PY_RUN_RULE = '''
def run_rule(fl, eng, text, preload=None):
    # parse + load one rule text (optionally on a rule that already holds a loaded rule);
    # returns (exception or None, is_loaded afterwards, exported text or None, the rule)
    r = fl.Rule()
    if preload:
        r.parse(preload); r.load(eng)
    exc = None
    before = (r.is_loaded(), r.text)
    stage = "parse"
    try:
        r.parse(text)
        stage = "load"
        r.load(eng)
    except Exception as ex:
        if type(ex).__name__ in ("BudgetExceeded", "Unsupported"): raise    # the checker's own control flow, not the library's
        exc = ex
    loaded = r.is_loaded()
    if exc is not None and stage == "parse":
        # a text that does not even parse must leave the rule as it was (still holding its previous, consistent rule)
        loaded = "changed" if (r.is_loaded(), r.text) != before else False
    out = None
    if exc is None:
        out = r.text
    return exc, loaded, out, r

def run_block(fl, eng, texts):
    # a block of rules given as texts: parse each (a rule that does not parse keeps an empty text), load_rules;
    # returns (per rule: parsed?, loaded?), exception of load_rules
    rb = fl.RuleBlock("rb")
    parsed = []
    for t in texts:
        r = fl.Rule()
        try:
            r.parse(t); parsed.append(True)
        except Exception as ex:
            if type(ex).__name__ in ("BudgetExceeded", "Unsupported"): raise
            parsed.append(False)
        rb.rules.append(r)
    exc = None
    try:
        rb.load_rules(eng)
    except Exception as ex:
        exc = ex
    return parsed, [r.is_loaded() for r in rb.rules], exc
'''
exec(PY_RUN_RULE, _ns)
run_rule, run_block = _ns["run_rule"], _ns["run_block"]
exec(PY_ENGINE, _ns)
build_c16_engine = _ns["build_c16_engine"]
GARGS = (ENGINE["inputs"], ENGINE["outputs"], HEDGES, NUMBERS)


def ob_rule(template, tier, preload, label, max_paths=None, cell=None, only=None, extra=()):
    """every rule text matching the template: a list whose items are words (fixed) or None (a symbolic token);
    `cell` = (index of a free position, vocabulary index) restricts that token (work splitting)"""

    def run(ob):
        fl = install()
        set_mode("R")
        tokens.reset_registry()
        if max_paths:
            ob.max_paths = max_paths
        vocab = Vocab(WORDS[tier] + [w for w in extra if w not in WORDS[tier]])      # `extra`: words added for this obligation only
        L = len(template)
        free = [i for i, w in enumerate(template) if w is None]
        kinds = [z3.Int(f"k{i}") if template[i] is None else z3.IntVal(vocab.idx(template[i])) for i in range(L)]
        toks = [Tok(i, kinds[i], vocab) for i in range(L)]
        pre = [vocab.domain(kinds[i]) for i in free]
        for pos, idxs in (cell or ()):
            pre.append(z3.Or(*[kinds[pos] == j for j in idxs]))
        if only:      # free tokens restricted to a sub-vocabulary
            for i in free:
                pre.append(z3.Or(*[kinds[i] == vocab.idx(w) for w in only + [vocab.other]]))
        ins = {f"k{i}": core.SymInt(kinds[i]) for i in free}
        xs = {v: rvar(f"x_{v}") for v in ("ia", "ib")}
        G = z_grammatical(kinds, vocab)
        GL = z_grammatical(kinds, vocab, loose=True)
        conj, disj, impl = fl.Minimum(), fl.Maximum(), fl.Minimum()

        def words_of(v):
            return [vocab.spell(int(v[f"k{i}"])) if template[i] is None else template[i] for i in range(L)]

        def rbody(v):
            ws = words_of(v)
            return "\n".join([
                "globals()['EXPECT_NO_EXCEPTION'] = False", PY_ENGINE, PY_RUN_RULE, PY_GRAMMAR,
                "eng = build_c16_engine(fl)", f"text = {' '.join(ws)!r}", f"preload = {preload!r}",
                "exc, loaded, out, r = run_rule(fl, eng, text, preload)",
                f"g = grammatical(text.split(), *{GARGS!r})",
                "bad = []",
                "if exc is not None and not isinstance(exc, (SyntaxError, ValueError, KeyError)): bad.append('internal error %s: %s' % (type(exc).__name__, exc))",
                "if exc is not None and loaded: bad.append('rule reports loaded after the failed load (%s)' % type(exc).__name__ if loaded is True else 'failed parse changed the rule')",
                "if exc is None and not g: bad.append('accepted although malformed (loaded as %r)' % out)",
                "if exc is None:",
                "    try:",
                "        fl.FllExporter().rule(r); eng.input_variables[0].value = 0.3; eng.input_variables[1].value = 0.6",
                "        r.activate_with(fl.Minimum(), fl.Maximum()); r.trigger(fl.Minimum())",
                "        r2 = fl.Rule.create(out, eng)",
                "        if r2.text != out: bad.append('export %r re-imports as %r' % (out, r2.text))",
                "    except Exception as ex: bad.append('accepted but export/evaluation raised %s: %s' % (type(ex).__name__, ex))",
                "verdict(bool(bad), repr(text) + ': ' + '; '.join(bad))"])

        rp = replay_fn(PROPERTY, label, rbody, key=None)
        rp_known = replay_fn(PROPERTY, label, rbody, key=KNOWN_MISPLACED)
        eng = build_c16_engine(fl, Key)
        eng.input_variables[0].value = xs["ia"]
        eng.input_variables[1].value = xs["ib"]
        fm = make_factory_manager(fl)
        text = SymText(toks)
        pre_text = concrete_text(preload, vocab, 100) if preload else None

        def body():
            eng.output_variables[0].fuzzy.clear()
            exc, loaded, out, r = run_rule(fl, eng, text, pre_text)
            post = None
            if exc is None:
                try:
                    fl.FllExporter().rule(r)
                    r.activate_with(conj, disj)
                    r.trigger(impl)
                    r2 = fl.Rule.create(resym(out), eng)
                    post = ("same", r2.text)
                except Unsupported:
                    raise
                except Exception as ex:  # noqa
                    post = ("raised", ex)
            return exc, loaded, out, post

        n = 0
        todo = []
        ob.r.sample = {"label": f"{label}: accepted => grammatical", "path_conditions": "one token-identity literal per comparison the parsers made",
                       "claim": "path condition => automaton(k_0..k_n) ends in an accepting state (z3 If-chain over the token kinds, see harness/c16.py z_grammatical)"}
        with token_hooks(fl, fm):
            for p in ob.paths(pre, body, incremental=True):
                n += 1
                if p.exc is not None:
                    ob.error(f"{label}: harness raised {type(p.exc).__name__}: {p.exc}")
                    continue
                exc, loaded, out, post = p.result
                m = ob.witness(p, label)
                if m is None:
                    continue
                ws = [vocab.spell(m.eval(kinds[i], model_completion=True).as_long()) if template[i] is None else template[i] for i in range(L)]
                shown = " ".join(ws)
                todo.append((ws, outcome_class(exc), loaded, spell(out, m) if out is not None else None))
                if exc is not None:
                    ob.prove(pre, p, isinstance(exc, ALLOWED), f"{label}: internal error {type(exc).__name__}: {str(exc)[:80]} e.g. {shown!r}", ins, rp)
                    ob.prove(pre, p, not loaded, f"{label}: loaded after failed load e.g. {shown!r}", ins, rp)
                    continue
                # accepted: the path condition must imply the grammar.  Malformed texts inside the recorded finding's signature
                # (connectives misplaced but one fewer than operands) are attributed to it, everything else is a new violation
                ob.prove(pre, p, z3.Or(G, GL), f"{label}: accepted although malformed, e.g. {shown!r}", ins, rp)
                ob.prove(pre, p, z3.Or(G, z3.Not(GL)), f"{label}: accepted with misplaced connectives, e.g. {shown!r}", ins, rp_known, group="known")
                if post[0] == "raised":
                    ob.prove(pre, p, False, f"{label}: accepted {shown!r} but export/evaluation raised {type(post[1]).__name__}: {post[1]}", ins, rp)
                else:
                    ob.prove(pre, p, _plain_eq(post[1], out), f"{label}: export of {shown!r} re-imports differently", ins, rp)
                for enc, lo in ((G, False), (GL, True)):   # the z3 automaton against the python one on this model
                    zg = z3.is_true(m.eval(enc, model_completion=True))
                    pg = grammatical(ws, *GARGS, loose=lo)
                    if zg != pg:
                        ob.error(f"grammar encodings (loose={lo}) disagree on {shown!r}: z3 {zg} python {pg}")
        if n == 0:
            ob.error("no path")
        # conformance of the token model: the same texts, spelled out, on the plain library (no hooks, no tokens)
        eng_plain = build_c16_engine(fl)
        for ws, oc, loaded, out in todo:
            cexc, cloaded, cout, _ = run_rule(fl, eng_plain, " ".join(ws), preload)
            if outcome_class(cexc) != oc or cloaded != loaded or out != cout:
                ob.r.conform_fail.append(f"{label}: token model and plain run disagree on {' '.join(ws)!r}: symbolic {oc}/{loaded}/{out} "
                                         f"vs plain {outcome_class(cexc)}/{cloaded}/{cout}")
                break
            ob.r.conform_ok += 1
        if not cell:
            ob.expect_sat(pre, None, G, f"{label}/not-every-sequence-is-grammatical")

    return run


def ob_block(M, tier, label):
    """RuleBlock.load_rules over [valid rule, every sequence of M tokens, valid rule]: each rule is loaded afterwards iff its own
    text is accepted, whatever the others do; the failure is reported (RuntimeError listing the rules) iff some rule failed"""

    def run(ob):
        fl = install()
        set_mode("R")
        tokens.reset_registry()
        ob.max_paths = 200000
        vocab = Vocab(WORDS[tier])
        kinds = [z3.Int(f"k{i}") for i in range(M)]
        toks = [Tok(i, kinds[i], vocab) for i in range(M)]
        pre = [vocab.domain(k) for k in kinds]
        ins = {f"k{i}": core.SymInt(kinds[i]) for i in range(M)}
        valid1, valid2 = "if ia is lo then oa is big", "if ib is lo or ia is hi then oa is lo"

        def rbody(v):
            ws = [vocab.spell(int(v[f"k{i}"])) for i in range(M)]
            return "\n".join([
                "globals()['EXPECT_NO_EXCEPTION'] = False", PY_ENGINE, PY_RUN_RULE,
                "eng = build_c16_engine(fl)", f"texts = [{valid1!r}, {' '.join(ws)!r}, {valid2!r}]",
                "parsed, loaded, exc = run_block(fl, eng, texts)",
                "alone = run_rule(fl, eng, texts[1])",
                "bad = []",
                "if loaded[0] is not True or loaded[2] is not True: bad.append('a valid rule of the block is not loaded: %r' % (loaded,))",
                "if loaded[1] != (alone[0] is None): bad.append('rule %r alone: %s; in the block is_loaded()=%r' % (texts[1], type(alone[0]).__name__, loaded[1]))",
                "if (exc is None) != (alone[0] is None and parsed[1]) and parsed[1]: bad.append('load_rules raised %r' % (exc,))",
                "verdict(bool(bad), repr(texts[1]) + ': ' + '; '.join(bad))"])

        rp = replay_fn(PROPERTY, label, rbody, key=None)
        eng = build_c16_engine(fl, Key)
        fm = make_factory_manager(fl)
        text = SymText(toks)
        v1, v2 = concrete_text(valid1, vocab, 100), concrete_text(valid2, vocab, 200)

        def body():
            parsed, loaded, exc = run_block(fl, eng, [v1, text, v2])
            alone = run_rule(fl, eng, text)
            return parsed, loaded, exc, alone[0]

        n = 0
        with token_hooks(fl, fm):
            for p in ob.paths(pre, body, incremental=True):
                n += 1
                if p.exc is not None:
                    ob.error(f"{label}: harness raised {type(p.exc).__name__}: {p.exc}")
                    continue
                parsed, loaded, exc, alone = p.result
                m = ob.witness(p, label)
                if m is None:
                    continue
                shown = " ".join(vocab.spell(m.eval(k, model_completion=True).as_long()) for k in kinds)
                ob.prove(pre, p, loaded[0] is True and loaded[2] is True, f"{label}: valid rules not loaded next to {shown!r}: {loaded}", ins, rp)
                ob.prove(pre, p, loaded[1] == (alone is None), f"{label}: {shown!r} alone {outcome_class(alone)} but is_loaded()={loaded[1]} in the block", ins, rp)
                if parsed[1]:
                    ob.prove(pre, p, (exc is None) == (alone is None), f"{label}: load_rules {outcome_class(exc)} although {shown!r} alone {outcome_class(alone)}", ins, rp)
                    ob.prove(pre, p, exc is None or isinstance(exc, RuntimeError), f"{label}: load_rules raised {outcome_class(exc)} for {shown!r}", ins, rp)
        if n == 0:
            ob.error("no path")
        else:
            ob.r.vacuity_ok += 1

    return run


def concrete_text(text, vocab, base):
    """a fixed text as tokens of known identity (so that lookups against the hash-0 names work as for symbolic ones)"""
    return SymText([Tok(base + i, z3.IntVal(vocab.idx(w)), vocab) for i, w in enumerate(text.split())])


# ------------------------------------------------------------------------------------------------------------------
# FLL documents: a valid document in which one line (key and value tokens) is symbolic
# ------------------------------------------------------------------------------------------------------------------
FLL_BASE = [("Engine", ["e"]),
            ("InputVariable", ["ia"]), ("enabled", ["true"]), ("range", ["0.000", "1.000"]), ("lock-range", ["false"]),
            ("term", ["lo", "Triangle", "0.000", "0.250", "1.000"]),
            ("OutputVariable", ["oa"]), ("enabled", ["true"]), ("range", ["0.000", "1.000"]), ("lock-range", ["false"]),
            ("aggregation", ["Maximum"]), ("defuzzifier", ["Centroid", "100"]), ("default", ["nan"]), ("lock-previous", ["false"]),
            ("term", ["big", "Triangle", "0.000", "0.500", "1.000"]),
            ("RuleBlock", ["rb"]), ("enabled", ["true"]), ("conjunction", ["Minimum"]), ("disjunction", ["Maximum"]),
            ("implication", ["Minimum"]), ("activation", ["General"]), ("rule", ["if", "ia", "is", "lo", "then", "oa", "is", "big"])]
FLL_EXTRA_WORDS = ["description", "none", "inf", "0.5", "2", "Constant", "Discrete", "Linear", "Function", "WeightedAverage", "TakagiSugeno",
                   "First", "Highest", "x", "and", "or", "with", "very", "any", "(", ")"]


def fll_vocab():
    words = []
    for k, vs in FLL_BASE:
        for w in [k] + vs:
            if w not in words:
                words.append(w)
    for w in FLL_EXTRA_WORDS:
        if w not in words:
            words.append(w)
    return Vocab(words)


PY_RUN_FLL = """
def run_fll(fl, text):
    # import one FLL document; returns (exception or None, export of the imported engine or None, exception of export/re-import or None)
    exc = out = post = None
    try:
        eng = fl.FllImporter().from_string(text)
    except Exception as ex:
        if type(ex).__name__ in ("BudgetExceeded", "Unsupported"): raise
        exc = ex
    if exc is None:
        try:
            out = fl.FllExporter().to_string(eng)
            out2 = fl.FllExporter().to_string(fl.FllImporter().from_string(REWRAP(out)))
            if str(out2) != str(out):
                post = AssertionError("the export does not re-import to itself: %r vs %r" % (str(out), str(out2)))
            # an accepted document has had every rule checked against the engine, whether or not its block is enabled
            elif not all(r.is_loaded() for rb in eng.rule_blocks for r in rb.rules):
                post = AssertionError("imported, but a rule was not loaded (its text was never checked against the engine)")
        except Exception as ex:
            if type(ex).__name__ in ("BudgetExceeded", "Unsupported"): raise
            post = ex
    return exc, out, post
"""
_ns["REWRAP"] = resym
exec(PY_RUN_FLL, _ns)
run_fll = _ns["run_fll"]


def ob_fll(line, shape, mode, label, disabled_block=False):
    """the base document with line `line` replaced by (mode 'replace') or preceded by (mode 'insert') a symbolic line of the
    given shape: 'K:n' = symbolic key and n symbolic value tokens, 'K' = a symbolic word without colon, '=:n' = the original
    key with n symbolic value tokens"""

    def run(ob):
        fl = install()
        set_mode("R")
        tokens.reset_registry()
        ob.max_paths = 400000
        vocab = fll_vocab()
        counter = [0]

        def const(w):
            counter[0] += 1
            return Tok(1000 + counter[0], z3.IntVal(vocab.idx(w)), vocab)

        kinds, free = [], []

        def sym():
            k = z3.Int(f"k{len(kinds)}")
            kinds.append(k)
            t = Tok(len(kinds) - 1, k, vocab)
            free.append(t)
            return t

        def line_text(key, vals, colon=True):
            return (str.__str__(key) + (":" if colon else "")) + ((" " + " ".join(vals)) if vals else "")

        lines = []
        for i, (k, vs) in enumerate(FLL_BASE):
            indent = "" if k in ("Engine", "InputVariable", "OutputVariable", "RuleBlock") else "  "
            if i == line:
                if shape == "K":
                    lines.append(indent + line_text(sym(), [], colon=False))
                elif shape.startswith("K:"):
                    key = sym()
                    lines.append(indent + line_text(key, [sym() for _ in range(int(shape[2:]))]))
                elif shape.startswith("=:"):
                    lines.append(indent + line_text(const(k), [sym() for _ in range(int(shape[2:]))]))
                if mode == "replace":
                    continue
            if disabled_block and k == "enabled" and i > 0 and FLL_BASE[i - 1][0] == "RuleBlock":
                vs = ["false"]      # the rule block is disabled: its rules are imported - and checked - all the same
            lines.append(indent + line_text(const(k), [const(v) for v in vs]))
        doc = "\n".join(lines)
        pre = [vocab.domain(k) for k in kinds]
        ins = {f"k{i}": core.SymInt(k) for i, k in enumerate(kinds)}

        def rbody(v):
            class M:
                def eval(self, k, model_completion=True):
                    return k if z3.is_int_value(k) else z3.IntVal(int(v[str(k)]))
            text = spell(doc, M())
            return "\n".join([
                "globals()['EXPECT_NO_EXCEPTION'] = False", "REWRAP = lambda s: s", PY_RUN_FLL,
                f"text = {text!r}",
                "exc, out, post = run_fll(fl, text)",
                "bad = []",
                "if exc is not None and not isinstance(exc, (SyntaxError, ValueError, KeyError)): bad.append('internal error %s: %s' % (type(exc).__name__, exc))",
                "if post is not None: bad.append('imported, but export / re-import failed: %s: %s' % (type(post).__name__, post))",
                "verdict(bool(bad), '; '.join(bad) + ' for the document\\n' + text)"])

        rp = replay_fn(PROPERTY, label, rbody, key=None)
        fm = make_factory_manager(fl)
        text = resym(doc)

        def body():
            return run_fll(fl, text)

        n = 0
        todo = []
        ob.r.sample = {"label": f"{label}: every exception is a syntax/value/key error; an accepted document exports and re-imports to itself",
                       "path_conditions": "one token-identity literal per comparison the importer made", "claim": "per path: concrete outcome class"}
        with token_hooks(fl, fm):
            for p in ob.paths(pre, body, incremental=True):
                n += 1
                if p.exc is not None:
                    ob.error(f"{label}: harness raised {type(p.exc).__name__}: {p.exc}")
                    continue
                exc, out, post = p.result
                m = ob.witness(p, label)
                if m is None:
                    continue
                shown = " | ".join(spell(l.strip(), m) for l in lines if tokens.PHRE.search(l) and any(f"QTK{t.i}KTQ" in l for t in free))
                todo.append((spell(doc, m), outcome_class(exc), spell(out, m) if out is not None else None, outcome_class(post), shown))
                if exc is not None:
                    ob.prove(pre, p, isinstance(exc, ALLOWED), f"{label}: internal error {type(exc).__name__}: {str(exc)[:80]} e.g. line {shown!r}", ins, rp)
                else:
                    ob.prove(pre, p, post is None, f"{label}: imported line {shown!r} but export/re-import failed: {type(post).__name__}: {str(post)[:100]}", ins, rp)
        if n == 0:
            ob.error("no path")
        else:
            ob.r.vacuity_ok += 1
        _ns["REWRAP"] = lambda s_: s_
        try:
            for text_c, oc, out, pc, shown in todo:
                cexc, cout, cpost = run_fll(fl, text_c)
                if outcome_class(cexc) != oc or (out is not None and str(cout) != out) or outcome_class(cpost) != pc:
                    ob.r.conform_fail.append(f"{label}: token model and plain run disagree on line {shown!r}: symbolic {oc}/{pc} vs plain "
                                             f"{outcome_class(cexc)}/{outcome_class(cpost)}: {cexc!r}" + ("" if out is None or str(cout) == out else f" exports differ:\n{out}\n---\n{cout}"))
                    break
                ob.r.conform_ok += 1
        finally:
            _ns["REWRAP"] = resym

    return run


def _plain_eq(a, b):
    return str.__str__(a) == str.__str__(b)


def obligations(tier, seed):
    obs = []
    q = tier == "quick"
    nvoc = len(WORDS[tier]) + 1

    voc = Vocab(WORDS[tier])
    # work splitting: the words the parsers tell apart early get a cell each, all the others share one
    singles = [w for w in ("and", "or", "(", ")", "ia", "ib", "oa", "then", ",") if voc.idx(w) is not None]
    groups = [(w, [voc.idx(w)]) for w in singles] + [("other", [j for j in range(voc.n) if voc.spell(j) not in singles])]

    def add(name, template, preload=None, split=0, only=None, extra=()):
        import itertools
        free = [i for i, w in enumerate(template) if w is None]
        if split and len(free) >= split:
            for combo in itertools.product(groups, repeat=split):
                if only and any(g[0] != "other" and g[0] not in only for g in combo):
                    continue
                tag = ",".join(g[0] for g in combo)
                cell = tuple((free[i], combo[i][1]) for i in range(split))
                obs.append((f"{name}/starts={tag}", ob_rule(template, tier, preload, f"{name}/starts={tag}", 400000, cell, only)))
        else:
            obs.append((name, ob_rule(template, tier, preload, name, 400000, None, only, extra)))

    for L in range(1, 8 if q else 10):
        add(f"rule/any{L}", [None] * L, split=0 if L < 7 else (1 if L < 9 else 2))
    TAIL = ["then", "oa", "is", "lo"]
    for M in range(1, 7 if q else 8):
        add(f"antecedent/any{M}", ["if"] + [None] * M + TAIL, split=0 if M < 6 else (1 if M < 7 else 2))
    # longer antecedents over the words an antecedent is made of, without parentheses (far fewer parser behaviours)
    CORE = ["and", "or", "is", "ia", "ib", "oa", "lo", "hi", "very", "any", "then"]
    for M in (7,) if q else (7, 8, 9):
        add(f"antecedent/core{M}", ["if"] + [None] * M + TAIL, split=1 if M < 9 else 2, only=CORE)
    # longer antecedents over a small vocabulary WITH parentheses: grouping and balance beyond any6/any7
    PAREN = ["and", "is", "ia", "any", "(", ")"]
    for M in (7, 8) if q else (7, 8, 9, 10):
        add(f"antecedent/paren{M}", ["if"] + [None] * M + TAIL, split=1 if M < 9 else 2, only=PAREN)
    HEAD = ["if", "ia", "is", "lo", "then"]
    for M in range(1, 7 if q else 9):
        add(f"consequent/any{M}", HEAD + [None] * M)
    # what may follow a complete conclusion: weights (one of them zero), connectives, further conclusions
    for M in (1, 2, 3, 4):
        add(f"consequent/weights{M}", HEAD + ["oa", "is", "lo"] + [None] * M, only=["with", "0.5", "0.0", "and", "oa", "is", "lo"], extra=["0.0"])
    PRE = "if ia is hi and ib is lo then oa is big with 0.5"
    for L in range(1, 6 if q else 7):
        add(f"reload/any{L}", [None] * L, preload=PRE)
    for M in range(1, 6 if q else 8):      # a rule object that holds a loaded rule gets a text of which only one side can be malformed
        add(f"reload/consequent{M}", HEAD + [None] * M, preload=PRE)
    for M in range(1, 5 if q else 7):
        add(f"reload/antecedent{M}", ["if"] + [None] * M + TAIL, preload=PRE)
    for M in range(1, 6 if q else 8):
        obs.append((f"block/any{M}", ob_block(M, tier, f"block/any{M}")))
    shapes = ["K", "K:0", "K:1", "K:2", "=:0", "=:1", "=:2", "=:3"] if q else ["K", "K:0", "K:1", "K:2", "K:3", "=:0", "=:1", "=:2", "=:3", "=:4", "=:5", "=:6"]
    for i, (k, vs) in enumerate(FLL_BASE):
        for sh in shapes:
            obs.append((f"fll/line{i}-{k}/replace/{sh}", ob_fll(i, sh, "replace", f"fll/line{i}-{k}/replace/{sh}")))
        for sh in (["K:1"] if q else ["K:1", "K:2"]):
            obs.append((f"fll/line{i}-{k}/insert/{sh}", ob_fll(i, sh, "insert", f"fll/line{i}-{k}/insert/{sh}")))
        if k == "rule":
            for sh in (["=:2", "=:3", "=:4"] if q else ["=:1", "=:2", "=:3", "=:4", "=:5", "=:6"]):
                nm = f"fll/line{i}-{k}/replace/{sh}/disabled-block"
                obs.append((nm, ob_fll(i, sh, "replace", nm, disabled_block=True)))
    return obs
