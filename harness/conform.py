"""Conformance of the shim with real NumPy on the library's own functions (trusted-base check, not a deciding step).

Each case is a function of plain numbers that calls fuzzylite.  It is evaluated (a) with Python floats - the rebound
`scalar/array/np` pass concrete operands straight to real NumPy, so this *is* the library on NumPy - and (b) with the same
numbers as symbolic constants, i.e. through the shim's element semantics (Mode R: exact rationals + IEEE flags; Mode F: z3
FloatingPoint constants folded with exact fp.mul/div/sqrt).  Value (relative 1e-12 in Mode R, bit-equal up to the sign of zero
in Mode F), NaN-ness, result shape and raised exception type must agree; uninterpreted transcendental applications cannot be
evaluated and are counted as skipped.  A mismatch is a harness error (exit 2): `unsat` answers are only as good as this model.
"""
from __future__ import annotations

import math
import random

import numpy as np
import z3

from symfl import core
from symfl.core import S, set_mode, elements, kind_of, SymFloat, SymBool, SymArray
from symfl.install import install

EDGE = [0.0, 1.0, 0.5, 0.25, 0.75, -1.0, 2.0, 1e-3, 0.999, 1.001, math.inf, -math.inf, math.nan, 0.1, 0.3, 0.7, -0.0]


def concrete_value(x):
    """float value of a shim result element, or None when it contains an uninterpreted application"""
    if isinstance(x, (bool, np.bool_)):
        return float(x)
    if isinstance(x, (int, float, np.floating, np.integer)):
        return float(x)
    if isinstance(x, SymBool):
        if core.isc(x.e):
            return float(bool(x.e))
        s = z3.simplify(x.e)
        return 1.0 if z3.is_true(s) else (0.0 if z3.is_false(s) else None)
    if isinstance(x, core.RFloat):
        def b(e):
            if core.isc(e):
                return bool(e)
            s = z3.simplify(e)
            return True if z3.is_true(s) else (False if z3.is_false(s) else None)
        n, p, m = b(x.nan), b(x.pinf), b(x.ninf)
        if None in (n, p, m):
            return None
        if n:
            return math.nan
        if p:
            return math.inf
        if m:
            return -math.inf
        v = z3.simplify(x.v)
        if z3.is_rational_value(v):
            return v.numerator_as_long() / v.denominator_as_long()
        if z3.is_algebraic_value(v):
            a = v.approx(30)
            return a.numerator_as_long() / a.denominator_as_long()
        return None
    if isinstance(x, core.FFloat):
        return x.concrete()
    return None


def run_case(fn, args, mode):
    """-> ('ok'|'skip'|'mismatch', detail)"""
    try:
        with np.errstate(all="ignore"):
            real = fn(*[float(a) for a in args])
        rexc = None
    except Exception as ex:  # noqa
        real, rexc = None, ex
    S.new_path()
    set_mode(mode, fexact=True) if mode == "F" else set_mode("R")
    try:
        shim = fn(*[core.const(a) for a in args])
        sexc = None
    except core.Unsupported as ex:
        return "skip", f"unsupported: {ex}"
    except Exception as ex:  # noqa
        shim, sexc = None, ex
    if (rexc is None) != (sexc is None) or (rexc is not None and type(rexc) is not type(sexc)):
        return "mismatch", f"args={args}: NumPy {'raised ' + repr(rexc) if rexc else 'returned ' + repr(real)}; shim {'raised ' + repr(sexc) if sexc else 'returned ' + repr(shim)}"
    if rexc is not None:
        return "ok", ""
    if isinstance(real, (list, tuple)):
        rs = [float(v) for x in real for v in np.atleast_1d(np.asarray(x, dtype=float)).ravel()]
    else:
        rs = np.atleast_1d(np.asarray(real, dtype=float)).ravel().tolist()
    ss = elements(shim) if not isinstance(shim, (list, tuple)) else [e for x in shim for e in elements(x)]
    if len(rs) != len(ss):
        return "mismatch", f"args={args}: {len(rs)} values from NumPy, {len(ss)} from the shim"
    for r, s_ in zip(rs, ss):
        c = concrete_value(s_)
        if c is None:
            return "skip", "uninterpreted application"
        if math.isnan(r) != math.isnan(c):
            return "mismatch", f"args={args}: NumPy {r!r}, shim {c!r}"
        if math.isnan(r):
            continue
        if mode == "F":
            if not (r == c):
                return "mismatch", f"args={args}: NumPy {r!r} ({float(r).hex()}), shim {c!r} ({float(c).hex()}) [bit-exact expected]"
        elif not (r == c or abs(r - c) <= 1e-12 * max(1.0, abs(r), abs(c))):
            return "mismatch", f"args={args}: NumPy {r!r}, shim {c!r}"
    return "ok", ""


def dyadic(x):
    """nearest multiple of 1/64 (finite x): sums and comparisons of such numbers are exact in binary64, so exact-real and
    floating-point evaluation take the same branches (Mode R deliberately does not model rounding)"""
    return x if (x != x or x in (math.inf, -math.inf)) else round(x * 64) / 64


def samples(arity, n, rng, pool=None, domain=None):
    pool = pool or EDGE
    out = []
    for x in pool:
        out.append(tuple([x] + [rng.choice(pool) for _ in range(arity - 1)]))
    while len(out) < n:
        out.append(tuple((domain(rng) if domain else rng.choice([rng.uniform(-1, 2), rng.uniform(0, 1), rng.choice(pool)])) for _ in range(arity)))
    return out[:max(n, len(pool))]


def ob_conform(label, cases, mode="R", n=60, pool=None, domain=None):
    """cases: list of (name, arity, fn)"""

    def run(ob):
        install()
        rng = random.Random(hash(label) & 0xFFFF)
        for name, arity, fn in cases:
            for args in samples(arity, n, rng, pool, domain):
                if mode == "R":
                    args = tuple(dyadic(a) for a in args)
                st, detail = run_case(fn, args, mode)
                if st == "mismatch" and mode == "R":
                    # exact-real evaluation may take another branch than binary64 where rounding decides a tie (e.g. 0.5/1.5 vs 1/1.5
                    # in Bisector): that is the documented abstraction of Mode R, not a modelling error, provided the bit-exact
                    # Mode F evaluation of the same case agrees with NumPy
                    st_f, _ = run_case(fn, args, "F")
                    set_mode("R")
                    if st_f == "ok":
                        ob.r.meta["rounding_sensitive_cases"] = ob.r.meta.get("rounding_sensitive_cases", 0) + 1
                        st = "skip"
                if st == "ok":
                    ob.r.conform_ok += 1
                elif st == "skip":
                    ob.r.conform_skipped += 1
                else:
                    ob.r.conform_fail.append(f"{name}: {detail}"[:400])
                    if len(ob.r.conform_fail) > 5:
                        return
        ob.r.queries += 0

    return run


# ---- case tables ------------------------------------------------------------------------------------------------------------------
def arr(*xs):
    """array of the operands in whichever world they live (NumPy floats or shim constants)"""
    if any(isinstance(x, SymFloat) for x in xs):
        return core.sym_array(list(xs))
    return np.array(xs, dtype=float)


TERM_SETS = {
    "Arc": [(0.25, 0.75), (0.75, 0.25)], "Bell": [(0.5, 0.25, 3.0)], "Binary": [(0.5, math.inf), (0.5, -math.inf)], "Concave": [(0.25, 0.75), (0.75, 0.25)],
    "Constant": [(0.5,)], "Cosine": [(0.5, 0.5)], "Gaussian": [(0.5, 0.25)], "GaussianProduct": [(0.25, 0.125, 0.75, 0.25)], "PiShape": [(0.0, 0.25, 0.75, 1.0)],
    "Ramp": [(0.25, 0.75), (0.75, 0.25)], "Rectangle": [(0.25, 0.75)], "SShape": [(0.25, 0.75)], "SemiEllipse": [(0.25, 0.75), (0.1, 0.7)], "Sigmoid": [(0.5, 8.0), (0.5, -8.0)],
    "SigmoidDifference": [(0.25, 8.0, 8.0, 0.75)], "SigmoidProduct": [(0.25, 8.0, -8.0, 0.75)], "Spike": [(0.5, 0.5)], "Trapezoid": [(0.0, 0.25, 0.75, 1.0), (-math.inf, 0.0, 0.5, 1.0)],
    "Triangle": [(0.0, 0.5, 1.0), (0.0, 0.0, 1.0), (-math.inf, 0.5, math.inf)], "ZShape": [(0.25, 0.75)],
}
TNORMS = ["AlgebraicProduct", "BoundedDifference", "DrasticProduct", "EinsteinProduct", "HamacherProduct", "Minimum", "NilpotentMinimum"]
SNORMS = ["AlgebraicSum", "BoundedSum", "DrasticSum", "EinsteinSum", "HamacherSum", "Maximum", "NilpotentMaximum", "NormalizedSum", "UnboundedSum"]
HEDGES = ["Any", "Extremely", "Not", "Seldom", "Somewhat", "Very"]
UNIT = [0.0, 1.0, 0.5, 0.25, 0.75, 0.1, 0.3, 0.7, 0.999, 0.001, 1 / 3]


def _unit(rng):
    return rng.choice([rng.random(), rng.choice(UNIT)])


def obligations(prop, tier):
    fl = install()
    n = 40 if tier == "quick" else 200
    obs = []

    def add(label, cases, mode="R", **kw):
        obs.append((f"conformance/{label}/{mode}", ob_conform(f"{prop}/{label}/{mode}", cases, mode=mode, n=n, **kw)))

    if prop == "C03":
        cases = []
        for cls, sets in TERM_SETS.items():
            for ps in sets:
                for h in (1.0, 0.5):
                    if cls == "Constant":
                        t = fl.Constant("t", *ps)
                    else:
                        t = getattr(fl, cls)("t", *ps, h)
                    cases.append((f"{cls}{ps}/h{h}", 1, lambda x, t=t: t.membership(x)))
                    cases.append((f"{cls}{ps}/h{h}/array", 2, lambda x, y, t=t: t.membership(arr(x, y, x))))
        d = fl.Discrete("d", fl.Discrete.to_xy([0.0, 0.25, 0.5, 1.0], [0.0, 1.0, 0.5, 0.25]), 0.5)
        cases.append(("Discrete", 1, lambda x: d.membership(x)))
        add("terms", cases, "R")
        add("terms", cases, "F")
    elif prop == "C04":
        cases = [(nm, 2, lambda a, b, N=getattr(fl, nm)(): N.compute(a, b)) for nm in TNORMS + SNORMS]
        cases += [(nm + "/array", 3, lambda a, b, c, N=getattr(fl, nm)(): N.compute(arr(a, b), arr(c, a))) for nm in TNORMS + SNORMS]
        add("norms", cases, "R", pool=UNIT, domain=_unit)
        add("norms", cases, "F", pool=UNIT, domain=_unit)
    elif prop == "C05":
        cases = [(nm, 1, lambda x, H=getattr(fl, nm)(): H.hedge(x)) for nm in HEDGES]
        cases += [(nm + "/array", 2, lambda x, y, H=getattr(fl, nm)(): H.hedge(arr(x, y))) for nm in HEDGES]
        add("hedges", cases, "R", pool=UNIT, domain=_unit)
        add("hedges", cases, "F", pool=UNIT, domain=_unit)
    elif prop in ("C09", "C10"):
        A, B = fl.Triangle("a", 0.0, 0.25, 0.5), fl.Triangle("b", 0.25, 0.75, 1.0)
        cases = []
        if prop == "C09":
            for dz in ("Centroid", "Bisector", "SmallestOfMaximum", "MeanOfMaximum", "LargestOfMaximum"):
                for imp, agg in (("Minimum", "Maximum"), ("AlgebraicProduct", "UnboundedSum")):
                    def f(d1, d2, dz=dz, imp=imp, agg=agg):
                        I = getattr(fl, imp)()
                        fo = fl.Aggregated("o", 0.0, 1.0, getattr(fl, agg)(), [fl.Activated(A, d1, I), fl.Activated(B, d2, I)])
                        return getattr(fl, dz)(4).defuzzify(fo, 0.0, 1.0)

                    def fb(d1, d2, d3, dz=dz, imp=imp, agg=agg):
                        I = getattr(fl, imp)()
                        fo = fl.Aggregated("o", 0.0, 1.0, getattr(fl, agg)(), [fl.Activated(A, arr(d1, d3), I), fl.Activated(B, arr(d2, d1), I)])
                        return getattr(fl, dz)(4).defuzzify(fo, 0.0, 1.0)
                    cases += [(f"{dz}/{imp}/{agg}", 2, f), (f"{dz}/{imp}/{agg}/batch", 3, fb)]
        else:
            C1, C2, R1 = fl.Constant("a", 0.25), fl.Constant("b", 0.75), fl.Ramp("r", 0.0, 1.0)
            for dz in ("WeightedAverage", "WeightedSum"):
                for agg in (None, "Maximum", "AlgebraicSum"):
                    def f(w1, w2, w3, dz=dz, agg=agg):
                        fo = fl.Aggregated("o", 0.0, 1.0, getattr(fl, agg)() if agg else None, [fl.Activated(C1, w1), fl.Activated(C2, w2), fl.Activated(C1, w3)])
                        return getattr(fl, dz)().defuzzify(fo)

                    def g(w1, w2, dz=dz, agg=agg):
                        fo = fl.Aggregated("o", 0.0, 1.0, getattr(fl, agg)() if agg else None, [fl.Activated(R1, arr(w1, w2)), fl.Activated(fl.Ramp("s", 1.0, 0.0), arr(w2, w1))])
                        return getattr(fl, dz)().defuzzify(fo)
                    cases += [(f"{dz}/{agg}", 3, f), (f"{dz}/{agg}/tsukamoto-batch", 2, g)]
        add("defuzzifiers", cases, "R", pool=UNIT, domain=_unit)
    elif prop == "C11":
        cases = []
        for cls in ("Arc", "Concave", "Ramp", "SShape", "ZShape"):
            for ps in TERM_SETS[cls]:
                t = getattr(fl, cls)("t", *ps, 0.75)
                cases.append((f"{cls}{ps}", 1, lambda y, t=t: t.tsukamoto(y)))
                cases.append((f"{cls}{ps}/array", 2, lambda y, z, t=t: t.tsukamoto(arr(y, z))))
        add("tsukamoto", cases, "R", pool=[0.0, 0.75, 0.375, 0.1, 0.5, 0.7], domain=lambda rng: rng.uniform(0.0, 0.75))
    elif prop == "C12":
        from .c12 import make_stub
        cases = []
        for lp in (False, True):
            for lr in (False, True):
                def f(d0, d1, v0, D, lp=lp, lr=lr):
                    sym = isinstance(d0, SymFloat)
                    Stub = make_stub(fl)
                    class RealStub(fl.Defuzzifier):
                        def defuzzify(self, term, lo, hi):
                            return np.array([d0, d1], dtype=float)
                        def parameters(self): return ""
                        def configure(self, p): pass
                    dz = Stub([("1d", [d0, d1])]) if sym else RealStub()
                    o = fl.OutputVariable("o", minimum=0.0, maximum=1.0, lock_previous=lp, lock_range=lr, default_value=D, defuzzifier=dz, aggregation=fl.Maximum(),
                                          terms=[fl.Triangle("t", 0, 1, 2)])
                    o.value = v0
                    o.defuzzify()
                    return [o.value, o.previous_value]
                cases.append((f"cascade/lp{int(lp)}lr{int(lr)}", 4, f))
        add("cascade", cases, "R", pool=[math.nan, 0.5, 3.0, -2.0, math.inf, 0.0, 1.0])
        add("cascade", cases, "F", pool=[math.nan, 0.5, 3.0, -2.0, math.inf, 0.0, 1.0, -0.0])
    elif prop in ("C01", "C02"):
        from . import regeng
        from .c02 import engines
        build = regeng.builder(fl)
        cases = []
        for ename, spec in engines().items():
            nin = len(spec["inputs"])
            def f(*xs, spec=spec, nin=nin):
                e = build(spec)
                for iv, x in zip(e.input_variables, xs):
                    iv.value = x
                e.process()
                return [ov.value for ov in e.output_variables] + [a.degree for ov in e.output_variables for a in ov.fuzzy.terms]

            def fb(*xs, spec=spec, nin=nin):
                e = build(spec)
                for i, iv in enumerate(e.input_variables):
                    iv.value = arr(xs[i], xs[(i + 1) % len(xs)], xs[-1])
                e.process()
                return [ov.value for ov in e.output_variables] + [a.degree for ov in e.output_variables for a in ov.fuzzy.terms]
            cases.append((ename, nin, f))
            if prop == "C02":
                cases.append((ename + "/batch", nin + 1, fb))
        add("engines", cases, "R")
    elif prop == "C17":
        forms = ["a + b * 2 - a / b", "a % 3 + fmod(b, 2)", "min(a, b) * max(a, 0.5) - abs(b)", "round(a * 4) + floor(b) - ceil(a)", "eq(a, b) + ge(a, 0.5) * 2 - lt(b, a)",
                 "(a and b) or !a", "~a ^ 2 + .-b", "sqrt(abs(a)) * 2", "a ** 2 ** b"]
        cases = []
        for s in forms:
            def f(a, b, s=s):
                fn = fl.Function.create("f", s)
                fn.variables = {"a": a, "b": b}
                return fn.membership(0.0)

            def fa(a, b, c, s=s):
                fn = fl.Function.create("f", s)
                fn.variables = {"a": arr(a, c), "b": arr(b, a)}
                return fn.membership(0.0)
            cases += [(s, 2, f), (s + "/array", 3, fa)]
        add("formulas", cases, "R", pool=[0.0, 1.0, 0.5, -1.5, 2.0, 3.0, -7.0, 2.5, 0.25])
    return obs
