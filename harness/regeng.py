"""Engines made of registered components, described by a plain dict ("spec") whose numbers may be symbolic.
`PY_BUILD` is the single source of the builder: it is exec'd here (with the shim-installed fuzzylite) and pasted verbatim into
replay scripts (with the real library), so harness and replay build the same engine.

spec = {"inputs":  [{"name": "X", "range": (lo, hi), "terms": [term, ...], "enabled": True}],
        "outputs": [{"name": "O", "range": (lo, hi), "terms": [...], "aggregation": "Maximum" | None,
                     "defuzzifier": ("Centroid", 2) | ("WeightedAverage", "Automatic") | None,
                     "lock_previous": False, "lock_range": False, "default": nan, "enabled": True}],
        "blocks":  [{"conjunction": "Minimum" | None, "disjunction": ..., "implication": ..., "activation": ("General",) | ("First", 1, 0.0) | None,
                     "rules": ["if X is a then O is b with 0.5", ...], "enabled": True}]}
term = ("Triangle", "a", 0.0, 0.25, 0.75) | ("Constant", "a", 0.25) | ("Linear", "a", [c0, c1, k]) | ("Function", "f", "2*X + 1") | ...
"""
from __future__ import annotations

PY_BUILD = '''
def build_engine(spec, weights=None):
    nan = float("nan")
    e = fl.Engine(spec.get("name", "e"), spec.get("description", ""))
    def mk_term(t):
        cls, name, *ps = t
        if cls == "Linear":
            return fl.Linear(name, list(ps[0]), e)
        if cls == "Function":
            if len(ps) > 1:     # with substitution variables (a dict)
                return fl.Function(name, ps[0], engine=e, variables=dict(ps[1]), load=True)
            return fl.Function.create(name, ps[0], e)
        if cls == "Discrete":
            return fl.Discrete(name, fl.Discrete.to_xy(ps[0], ps[1]), *ps[2:])
        return getattr(fl, cls)(name, *ps)
    def mk(name, *args):
        if name is None:
            return None
        if isinstance(name, (tuple, list)):
            return getattr(fl, name[0])(*name[1:])
        return getattr(fl, name)(*args)
    for iv in spec["inputs"]:
        lo, hi = iv.get("range", (0.0, 1.0))
        e.input_variables.append(fl.InputVariable(iv["name"], description=iv.get("description", ""), enabled=iv.get("enabled", True), minimum=lo, maximum=hi,
                                                  lock_range=iv.get("lock_range", False), terms=[mk_term(t) for t in iv.get("terms", [])]))
    for ov in spec["outputs"]:
        lo, hi = ov.get("range", (0.0, 1.0))
        e.output_variables.append(fl.OutputVariable(ov["name"], description=ov.get("description", ""), enabled=ov.get("enabled", True), minimum=lo, maximum=hi,
                                                    lock_range=ov.get("lock_range", False), lock_previous=ov.get("lock_previous", False),
                                                    default_value=ov.get("default", nan), aggregation=mk(ov.get("aggregation")),
                                                    defuzzifier=mk(ov.get("defuzzifier")), terms=[mk_term(t) for t in ov.get("terms", [])]))
    for bi, rb in enumerate(spec["blocks"]):
        rules = []
        for ri, text in enumerate(rb["rules"]):
            if rb.get("tolerate_rule_errors"):
                r = fl.Rule()
                r.parse(text)
                try:
                    r.load(e)
                except Exception:
                    pass                      # what a caller of RuleBlock.load_rules does with the error it gets
            else:
                r = fl.Rule.create(text, e)
            if weights and (bi, ri) in weights:
                r.weight = weights[(bi, ri)]
            rules.append(r)
        e.rule_blocks.append(fl.RuleBlock(rb.get("name", "rb%d" % bi), description=rb.get("description", ""), enabled=rb.get("enabled", True),
                                          conjunction=mk(rb.get("conjunction")), disjunction=mk(rb.get("disjunction")),
                                          implication=mk(rb.get("implication")), activation=mk(rb.get("activation", ("General",))), rules=rules))
    for path, value in spec.get("assign", []):
        # attributes assigned after construction (states a constructor would not produce, e.g. a Triangle whose right vertex is NaN)
        obj = e
        for step in path[:-1]:
            obj = getattr(obj, step) if isinstance(step, str) else obj[step]
        setattr(obj, path[-1], value)
    if spec.get("share_defuzzifier"):
        # every output variable that has a defuzzifier holds the same object (of the first that has one)
        have = [ov for ov in e.output_variables if ov.defuzzifier is not None]
        for ov in have[1:]:
            ov.defuzzifier = have[0].defuzzifier
    if spec.get("share_components"):
        # one defuzzifier / aggregation / operator object installed everywhere (what Engine.configure does)
        first = e.output_variables[0]
        for ov in e.output_variables[1:]:
            ov.defuzzifier = first.defuzzifier
            ov.aggregation = first.aggregation
        for rb in e.rule_blocks[1:]:
            rb.conjunction, rb.disjunction, rb.implication, rb.activation = (getattr(e.rule_blocks[0], k) for k in ("conjunction", "disjunction", "implication", "activation"))
    return e
'''


def builder(fl):
    ns = {"fl": fl}
    exec(PY_BUILD, ns)
    return ns["build_engine"]


def spec_literal(spec, lit, model_value):
    """python source of the spec with symbolic numbers replaced by their model values (lit(float) literals)"""
    from symfl.core import SymFloat, SymBool, SymInt

    def conv(x):
        if isinstance(x, (SymFloat, SymInt, SymBool)):
            return lit(model_value(x))
        if isinstance(x, dict):
            return "{" + ", ".join(f"{k!r}: {conv(v)}" for k, v in x.items()) + "}"
        if isinstance(x, tuple):
            return "(" + ", ".join(conv(v) for v in x) + ("," if len(x) == 1 else "") + ")"
        if isinstance(x, list):
            return "[" + ", ".join(conv(v) for v in x) + "]"
        if isinstance(x, bool) or x is None or isinstance(x, (str, int)):
            return repr(x)
        if isinstance(x, float):
            return lit(x)
        raise TypeError(f"spec_literal: {type(x)}")

    return conv(spec)
