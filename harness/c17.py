"""C17  Function formulas follow the documented precedence and associativity."""
from __future__ import annotations

import itertools
import math
import random

import z3

from spec import formula as F
from symfl import core
from symfl.core import S, set_mode, sym_array, tf, same, ZB, elements, SymBool, SymArray
from symfl.install import install
from symfl.replay import lit, replay_fn

from .common import wf, rvar

PROPERTY = "C17"
EXPLANATION = ("Formulas are printed from generated expression trees (all ordered pairs of the 9 binary operators in both tree shapes, unary "
               "operators against every binary operator, unary chains, every registered function at its arity, seeded random trees) with "
               "the minimal parentheses the documented table requires, with redundant parentheses and with compact / wide spacing; the "
               "real Function.create parses the concrete text and the real Function.membership / Node.evaluate (captured NumPy ufuncs -> "
               "shim) runs on symbolic variables (the term's own variables, engine input and output values, x; scalars and arrays of 2). "
               "The value must equal the documented meaning evaluated on the generating tree (one SMT query per text; functions are "
               "symbols named after the documented function, so a table entry bound to the wrong ufunc is a counterexample), and the "
               "real Node.postfix() string evaluated by a reference stack machine must give the same value.")
BOUNDS = {"quick": {"trees": "162 operator pairs + 60 unary/binary + 12 chains + every function + 60 seeded trees of depth <= 3", "variables": "all finite reals; "
                    "right operand of % and fmod a literal (linear encoding)", "arrays": "variables as arrays of 2 for a subset incl. min/max"},
          "thorough": {"trees": "as quick + 400 seeded trees of depth <= 4"}}
OUTSIDE = ["ill-formed formulas beyond the token level and beyond the listed classes: the rejection obligations run the real parser on every "
           "sequence of up to 5 (thorough 6) symbolic tokens and demand balanced parentheses and a stack effect of exactly one value for "
           "whatever is accepted; operators that merely stand in the wrong place (`+ a b`, which the shunting-yard parser reads as `a + b`) "
           "are not one of the statement's classes (missing operand, wrong arity, unbalanced parentheses) and are not judged",
           "a tighter-binding prefix operator applied to an unparenthesised looser one (`~ .- a`): not derivable from the table, the library rejects it",
           "truth-valued and/or/! results used as arithmetic operands (excluded by the statement)", "libm accuracy; rounding (Mode R)"]
ASSUMPTIONS = ["variables finite", "Mode R: exact reals; transcendental functions uninterpreted with instance axioms"]
STUBS = ["ill-formed formulas: symbolic tokens (symfl/tokens.py) with the hooks of harness/c16.py (format_infix on token texts, re-split results of "
         "infix_to_postfix, linear-scan function factory, to_float of a token forks over the numeric words)"]
OB_BUDGET_S = {"quick": 240, "thorough": 1500}

BIN_OPS = ["^", "**", "*", "/", "%", "+", "-", "and", "or"]
ARITH = ["^", "**", "*", "/", "%", "+", "-"]
VARS = ("a", "b", "c")


# ---- documented meaning on the shim's value domain ------------------------------------------------------------------------------
def _conc(v):
    """python float when v is a concrete scalar (what NumPy would have computed with), else None"""
    if isinstance(v, (int, float)) and not isinstance(v, bool):
        return float(v)
    if isinstance(v, core.SymFloat):
        return v.concrete()
    if isinstance(v, core.SymBool) and core.isc(v.e):
        return 1.0 if v.e else 0.0
    return None


ASSUME = []


def sem():
    import numpy as np

    def folding(npf, symf):
        """constant operands are folded in floats exactly as NumPy does in the library (2 ** 0.5 is the double 1.4142135623730951)"""
        def f(*args):
            cs = [_conc(a) for a in args]
            if all(c is not None for c in cs):
                with np.errstate(all="ignore"):
                    r = npf(*[np.float64(c) for c in cs])
                if isinstance(r, (bool, np.bool_)):
                    return core.SymBool(bool(r))
                return core.const(float(r))
            return symf(*args)
        return f

    def ind(b):
        return core.ew(lambda e: tf(core.tb_(e)), b)

    def num(v):
        return core.ew(lambda e: tf(e), v)

    def both_nan(a, b):
        return core.ew(lambda x, y: core._isnan(x) & core._isnan(y), a, b)

    def d(name):
        return lambda *A: core.dispatch(name, tuple(num(a) for a in A), {})

    def call(name, args):
        if name == "pi":
            return core.const(math.pi)
        A = [num(a) for a in args]
        if name in F.RELATIONAL:
            a, b = A
            # documented (fuzzylite.operation.Op): eq/neq/ge/le treat NaN's as equal; gt/lt are plain comparisons
            r = {"gt": lambda: a > b, "lt": lambda: a < b, "eq": lambda: (a == b) | both_nan(a, b), "neq": lambda: ~((a == b) | both_nan(a, b)),
                 "ge": lambda: (a >= b) | both_nan(a, b), "le": lambda: (a <= b) | both_nan(a, b)}[name]()
            return ind(r)
        if name in ("min", "max"):
            # the smaller / larger operand; what happens for NaN operands is not documented: assumed away (collected in ASSUME)
            def pick(x, y):
                ASSUME.append(ZB((~(core._isnan(x) | core._isnan(y))).e))
                return core._select(((y < x) if name == "min" else (y > x)).e, y, x)
            return core.ew(pick, A[0], A[1])
        table = {"pow": ("float_power", np.float_power), "atan2": ("arctan2", np.arctan2), "fmod": ("fmod", np.fmod), "abs": ("absolute", np.abs),
                 "fabs": ("absolute", np.abs), "round": ("round", np.round), "floor": ("floor", np.floor), "ceil": ("ceil", np.ceil), "sqrt": ("sqrt", np.sqrt)}
        if name in table:
            return folding(table[name][1], d(table[name][0]))(*A)
        return folding(getattr(np, F.NUMPY_NAME[name]), d(F.NUMPY_NAME[name]))(*A)

    return {
        "lit": lambda v: core.const(v),
        "un": {"!": lambda a: core.ew(lambda e: ~core.tb_(e), a), "~": lambda a: -num(a), ".-": lambda a: -num(a), ".+": lambda a: num(a)},
        "bin": {"^": folding(np.float_power, d("float_power")), "**": folding(np.float_power, d("float_power")),
                "*": folding(np.multiply, lambda a, b: num(a) * num(b)), "/": folding(np.true_divide, lambda a, b: num(a) / num(b)),
                "%": folding(np.remainder, d("remainder")),
                "+": folding(np.add, lambda a, b: num(a) + num(b)), "-": folding(np.subtract, lambda a, b: num(a) - num(b)),
                "and": lambda a, b: core.ew(lambda x, y: core.tb_(x) & core.tb_(y), a, b),
                "or": lambda a, b: core.ew(lambda x, y: core.tb_(x) | core.tb_(y), a, b)},
        "call": call,
    }


def well_typed(t, under_arith=False):
    """truth-valued results only under logical operators or at the root; right operand of % / fmod a literal"""
    k = t[0]
    if k in ("var", "lit"):
        return True
    if k == "un":
        if F.truth_valued(t) and under_arith:
            return False
        return well_typed(t[2], under_arith=t[1] not in F.LOGICAL)
    if k == "bin":
        if F.truth_valued(t) and under_arith:
            return False
        if t[1] == "%" and t[3][0] != "lit":
            return False
        ua = t[1] not in F.LOGICAL
        return well_typed(t[2], ua) and well_typed(t[3], ua)
    if t[1] == "fmod" and t[2][1][0] != "lit":
        return False
    return all(well_typed(a, True) for a in t[2])


def variables_of(t, acc=None):
    acc = acc if acc is not None else []
    if t[0] == "var":
        if t[1] not in acc:
            acc.append(t[1])
    elif t[0] == "un":
        variables_of(t[2], acc)
    elif t[0] == "bin":
        variables_of(t[2], acc)
        variables_of(t[3], acc)
    elif t[0] == "call":
        for a in t[2]:
            variables_of(a, acc)
    return acc


def ob_formula(tree, label, arrays=False, engine_vars=False, reuse=False, attach=False, special=False, x_nan=False):
    """x_nan: membership is called with x = NaN (x is just one variable of the formula: a formula that does not mention it, or that
    absorbs NaN, has its ordinary value)"""
    """attach: the Function is built with its own variables and no engine, becomes a term of an engine through the Engine constructor
    (which updates the term's engine reference), is evaluated, then moved to a second engine and evaluated again: the term's own
    variables, the engine's variables and x all resolve each time"""
    """reuse: the Function object first holds and evaluates another formula with other variable values, then gets this formula through
    its attributes (`formula`, `load()`, `variables`): what counts is the current formula and the current variables"""
    def run(ob):
        fl = install()
        set_mode("R")
        names = variables_of(tree)
        n = 2 if arrays else 1
        vals = {v: [rvar(f"{v}{i}", special=special) for i in range(n)] for v in names}
        pre = list(wf(*[x for xs in vals.values() for x in xs])) if special else []      # special: NaN and the infinities are values too
        ins = {f"{v}{i}": vals[v][i] for v in names for i in range(n)}
        env = {v: (sym_array(vals[v]) if arrays else vals[v][0]) for v in names}
        texts = []
        for style in ("minimal", "full"):
            s = F.show(tree, style)
            for nm, f in (("", lambda x: x), ("/compact", F.compact), ("/wide", F.wide)):
                tx = f(s)
                if tx not in [t for _, t in texts]:
                    texts.append((style + nm, tx))
        S_ = sem()

        def rbody_for(text):
            def rbody(v):
                envs = ", ".join(f"{nm!r}: " + (f"np.array({lit([v[f'{nm}{i}'] for i in range(n)])})" if arrays else lit(v[f"{nm}0"])) for nm in names)
                lines = [F.PY_SEM, f"env = {{{envs}}}", f"tree = {tree!r}", "import warnings; warnings.simplefilter('ignore')"]
                if engine_vars:
                    lines += ["e = fl.Engine('e', '', [fl.InputVariable('X', minimum=0, maximum=1)], [fl.OutputVariable('O', minimum=0, maximum=1)], [])",
                              "e.input_variable('X').value = env.pop('X') if 'X' in env else 0.0", "e.output_variable('O').value = env.pop('O') if 'O' in env else 0.0",
                              "xv = env.pop('x') if 'x' in env else 0.0",
                              f"f = fl.Function.create('f', {text!r}, e); f.variables = dict(env)", "got = f.membership(xv)",
                              "env.update({'X': e.input_variable('X').value, 'O': e.output_variable('O').value, 'x': xv})"]
                elif attach:
                    lines += ["X, O, xv = env.pop('X', 0.0), env.pop('O', 0.0), env.pop('x', 0.0)",
                              f"f = fl.Function('f', {text!r}, variables=dict(env))",
                              "def engine_with(term):",
                              "    e = fl.Engine('e', '', [fl.InputVariable('X', minimum=0, maximum=1)], [fl.OutputVariable('O', minimum=0, maximum=1, terms=[term])], [])",
                              "    e.input_variable('X').value = X; e.output_variable('O').value = O; return e",
                              "e1 = engine_with(f); first = f.membership(xv)",
                              "e2 = engine_with(fl.Constant('k', 0.0)); e2.output_variable('O').terms.append(f); f.update_reference(e2); got = f.membership(xv)",
                              "env.update({'X': X, 'O': O, 'x': xv})",
                              "if not same(np.asarray(first, dtype=float), np.asarray(EVAL(tree, env), dtype=float), 1e-9): verdict(True, 'as a term of its first engine: %r' % (first,))"]
                elif reuse:
                    lines += ["f = fl.Function.create('f', 'a * 2 + b'); f.variables = {'a': 0.5, 'b': 0.25, 'c': 4.0}; f.membership(0.0)",
                              f"f.formula = {text!r}; f.load(); f.variables.clear(); f.variables.update(env)", "got = f.membership(0.0)"]
                else:
                    lines += [f"f = fl.Function.create('f', {text!r}); f.variables = dict(env)", f"got = f.membership({'float(chr(110) + chr(97) + chr(110))' if x_nan else '0.0'})"]
                lines += ["exp = EVAL(tree, env)",
                          "pf = f.root.postfix().split()",
                          f"verdict(not same(np.asarray(got, dtype=float), np.asarray(exp, dtype=float), 1e-9), {text!r} + ' with %r = %r, documented meaning %r' % (env, got, exp))"]
                return "\n".join(lines)
            return rbody

        for kind, text in texts:
            lab = f"{label}/{kind}"
            rp = replay_fn(PROPERTY, lab, rbody_for(text), key=None)

            def body(text=text):
                if engine_vars:
                    e = fl.Engine("e", "", [fl.InputVariable("X", minimum=0, maximum=1)], [fl.OutputVariable("O", minimum=0, maximum=1)], [])
                    e.input_variable("X").value = env.get("X", 0.0)
                    e.output_variable("O").value = env.get("O", 0.0)
                    f = fl.Function.create("f", text, e)
                    f.variables = {k: v for k, v in env.items() if k not in ("X", "O", "x")}
                    got = f.membership(env.get("x", 0.0))
                elif attach:
                    own = {k: v for k, v in env.items() if k not in ("X", "O", "x")}
                    f = fl.Function("f", text, variables=dict(own))

                    def engine_with(term):
                        e = fl.Engine("e", "", [fl.InputVariable("X", minimum=0, maximum=1)], [fl.OutputVariable("O", minimum=0, maximum=1, terms=[term])], [])
                        e.input_variable("X").value = env.get("X", 0.0)
                        e.output_variable("O").value = env.get("O", 0.0)
                        return e

                    engine_with(f)
                    first = f.membership(env.get("x", 0.0))
                    e2 = engine_with(fl.Constant("k", 0.0))
                    e2.output_variable("O").terms.append(f)
                    f.update_reference(e2)
                    got = f.membership(env.get("x", 0.0))
                    got = (first, got)
                elif reuse:
                    f = fl.Function.create("f", "a * 2 + b")
                    f.variables = {"a": core.const(0.5), "b": core.const(0.25), "c": core.const(4.0)}
                    f.membership(0.0)
                    f.formula = text
                    f.load()
                    f.variables.clear()
                    f.variables.update(env)
                    got = f.membership(0.0)
                else:
                    f = fl.Function.create("f", text)
                    f.variables = dict(env)
                    got = f.membership(core.const(float("nan")) if x_nan else 0.0)
                del ASSUME[:]
                exp = F.evaluate(tree, env, S_)
                pf = f.root.postfix().split()
                exp_pf = F.eval_postfix(pf, env, S_)
                return got, exp, exp_pf, list(ASSUME)

            for p in ob.paths(pre, body, catch=(Exception,)):
                if p.exc is not None:
                    ob.unexpected(pre, p, f"{lab}: {text!r}", ins, rp)
                    continue
                got, exp, exp_pf, assume = p.result
                pre_p = pre + assume
                if attach:
                    first, got = got
                    fe, ee0 = elements(first), elements(exp)
                    ob.prove(pre_p, p, z3.And(len(fe) == len(ee0), *[same(tf(x), tf(y)) for x, y in zip(fe, ee0)]), f"{lab}/first-engine: {text}", ins, rp)
                ge, ee, pe = elements(got), elements(exp), elements(exp_pf)
                if len(ge) != len(ee) or len(pe) != len(ee):
                    ob.prove(pre, p, False, f"{lab}: {text!r} gives {len(ge)} values, documented {len(ee)}", ins, rp)
                    continue
                ob.prove(pre_p, p, z3.And(*[same(tf(x), tf(y)) for x, y in zip(ge, ee)]), f"{lab}: {text}", ins, rp)
                ob.prove(pre_p, p, z3.And(*[same(tf(x), tf(y)) for x, y in zip(pe, ee)]), f"{lab}/postfix: {text}", ins, rp)
            ob.r.vacuity_ok += 1

    return run


# ---- families ------------------------------------------------------------------------------------------------------------------
def V(n):
    return ("var", n)


def L(x):
    return ("lit", float(x))


def families(tier, seed):
    out = []
    a, b, c = V("a"), V("b"), V("c")

    def rhs(op, t):
        return L(3) if op == "%" else t

    for o1, o2 in itertools.product(BIN_OPS, repeat=2):
        t1 = ("bin", o2, ("bin", o1, a, rhs(o1, b)), rhs(o2, c))        # (a o1 b) o2 c
        t2 = ("bin", o1, a, rhs(o1, ("bin", o2, b, rhs(o2, c))))        # a o1 (b o2 c)
        for i, t in enumerate((t1, t2)):
            if well_typed(t):
                out.append((f"pair/{o1}/{o2}/{'left' if i == 0 else 'right'}", t, {}))
    for u in ("~", ".-", ".+", "!"):
        for o in BIN_OPS:
            for i, t in enumerate((("bin", o, ("un", u, a), rhs(o, b)), ("bin", o, a, rhs(o, ("un", u, b))), ("un", u, ("bin", o, a, rhs(o, b))))):
                if well_typed(t):
                    out.append((f"unary/{u}/{o}/{i}", t, {}))
    for u1, u2 in itertools.product(("~", ".-", ".+", "!"), repeat=2):
        t = ("un", u1, ("un", u2, a))
        if well_typed(t):
            out.append((f"chain/{u1}{u2}", t, {}))
    for fn, ar in F.FUNCS.items():
        if ar == 0:
            t = ("bin", "*", ("call", "pi", []), a)
        elif ar == 1:
            t = ("bin", "+", ("bin", "*", ("call", fn, [a]), L(2)), ("call", fn, [("bin", "-", b, L(0.5))]))
        else:
            second = L(2) if fn == "fmod" else ("bin", "+", b, L(1))
            t = ("bin", "-", ("call", fn, [a, second]), ("bin", "*", c, ("call", fn, [b, L(0.5) if fn == "fmod" else a])))
        out.append((f"function/{fn}", t, {}))
        if ar == 2:
            out.append((f"function/{fn}/arrays", ("call", fn, [a, L(2) if fn == "fmod" else b]), {"arrays": True}))
    # the constant pi in every argument position of calls (bare `pi` in the minimal printing, `pi()` in the full one)
    PI = ("call", "pi", [])
    out.append(("constant/pi/first-argument", ("call", "max", [PI, a]), {}))
    out.append(("constant/pi/second-argument", ("call", "min", [a, PI]), {}))
    out.append(("constant/pi/end-of-first-argument", ("call", "atan2", [("bin", "*", b, PI), a]), {}))
    out.append(("constant/pi/sum-in-first-argument", ("bin", "+", ("call", "pow", [("bin", "+", a, PI), L(2)]), ("call", "max", [("bin", "/", ("call", "min", [a, b]), PI), ("call", "sin", [a])])), {}))
    out.append(("constant/pi/unary", ("call", "cos", [PI]), {}))
    out.append(("constant/pi/alone", ("bin", "-", PI, ("un", ".-", PI)), {}))
    # relational indicators inside arithmetic (as the shipped examples do)
    out.append(("indicators/sum", ("bin", "+", ("call", "eq", [a, L(1)]), ("call", "eq", [b, L(1)])), {}))
    out.append(("indicators/difference", ("bin", "-", ("call", "ge", [a, b]), ("call", "le", [a, c])), {}))
    # every relational function as a 0/1 number: sums, differences, negation and remainder of two indicators of the same function
    for rel in ("eq", "neq", "lt", "le", "gt", "ge"):
        i1, i2 = ("call", rel, [a, b]), ("call", rel, [a, c])
        out.append((f"indicators/{rel}/sum", ("bin", "+", i1, i2), {}))
        out.append((f"indicators/{rel}/difference", ("bin", "-", i1, i2), {}))
        out.append((f"indicators/{rel}/sum-arrays", ("bin", "+", ("bin", "+", i1, i2), ("call", rel, [b, c])), {"arrays": True}))
    out.append(("indicators/product-arrays", ("bin", "*", ("call", "neq", [a, b]), ("bin", "+", ("call", "lt", [a, L(0.5)]), ("call", "gt", [b, a]))), {"arrays": True}))
    # variable resolution: engine input X, output O, own variable a, and x
    out.append(("variables/engine", ("bin", "+", ("bin", "*", V("X"), L(2)), ("bin", "-", ("bin", "/", V("O"), V("a")), V("x"))), {"engine_vars": True}))
    out.append(("variables/attached-through-engine-constructor", ("bin", "-", ("bin", "+", V("X"), ("bin", "*", V("a"), ("bin", "^", V("x"), L(2)))), ("bin", "/", ("call", "max", [V("b"), V("O")]), L(4))), {"attach": True}))
    # NaN / infinite operands of the two-argument functions that are documented through NumPy's propagating versions
    out.append(("functions/max-min/special-values", ("bin", "-", ("call", "max", [V("a"), V("b")]), ("call", "min", [V("b"), V("c")])), {"special": True}))
    out.append(("functions/max-min/special-values-arrays", ("bin", "+", ("call", "max", [V("a"), L(0.5)]), ("call", "min", [V("a"), V("b")])), {"special": True, "arrays": True}))
    out.append(("variables/x-unused-and-nan", ("bin", "-", ("bin", "*", L(2), V("a")), ("call", "max", [V("b"), L(0.25)])), {"x_nan": True}))
    out.append(("variables/x-unused-and-nan-arrays", ("bin", "+", V("a"), ("bin", "*", V("b"), V("b"))), {"x_nan": True, "arrays": True}))
    out.append(("variables/engine-arrays", ("bin", "-", ("bin", "*", V("X"), V("x")), V("a")), {"engine_vars": True, "arrays": True}))
    # arrays for operators
    for o in BIN_OPS:
        t = ("bin", o, a, rhs(o, b))
        out.append((f"arrays/{o}", t, {"arrays": True}))
    rng = random.Random(1700 + seed)
    nrand = 60 if tier == "quick" else 460
    seen = set()
    k = 0
    while k < nrand:
        d = rng.choice((2, 3)) if (tier == "quick" or k < 60) else rng.choice((3, 4))
        t = gen(rng, d)
        key = repr(t)
        if key in seen or not well_typed(t) or t[0] in ("var", "lit"):
            continue
        seen.add(key)
        out.append((f"random/{k}", t, {"arrays": rng.random() < 0.2}))
        k += 1
    return out


def gen(rng, d):
    if d == 0 or rng.random() < 0.2:
        return rng.choice([V("a"), V("b"), V("c"), V("a"), V("b"), L(2), L(0.5), L(3)])
    r = rng.random()
    if r < 0.15:
        return ("un", rng.choice(("~", ".-", ".+", "!")), gen(rng, d - 1))
    if r < 0.75:
        op = rng.choice(BIN_OPS)
        return ("bin", op, gen(rng, d - 1), L(rng.choice((2, 3, 0.5))) if op == "%" else gen(rng, d - 1))
    fn = rng.choice(list(F.FUNCS))
    ar = F.FUNCS[fn]
    if ar == 0:
        return ("call", "pi", [])
    if ar == 1:
        return ("call", fn, [gen(rng, d - 1)])
    return ("call", fn, [gen(rng, d - 1), L(rng.choice((2, 0.5))) if fn == "fmod" else gen(rng, d - 1)])


def _obligations(tier, seed):
    fam = families(tier, seed)
    obs = [(nm, ob_formula(t, nm, **kw)) for nm, t, kw in fam]
    # the same texts on a Function object that held another formula before (every function, some operator pairs)
    plain = [(nm, t) for nm, t, kw in fam if not kw]
    picked = [(nm, t) for nm, t in plain if nm.startswith("function/")] + [x for i, x in enumerate(p_ for p_ in plain if p_[0].startswith("pair/")) if i % 12 == 0]
    obs += [(f"reuse/{nm}", ob_formula(t, f"reuse/{nm}", reuse=True)) for nm, t in picked]
    return obs


# ------------------------------------------------------------------------------------------------------------------
# "a formula that is not well-formed is rejected when loaded": every sequence of L symbolic tokens through the real parser
# ------------------------------------------------------------------------------------------------------------------
F_WORDS = ["a", "2", "+", "*", "^", "~", "(", ")", ",", "sin", "max", "pi"]
F_EFFECT = {"a": 1, "2": 1, "zzz": 1, "pi": 1, "+": -1, "*": -1, "^": -1, "~": 0, "sin": 0, "max": -1, "(": 0, ")": 0, ",": 0}

PY_FORMULA = """
def load_formula(fl, text):
    f = fl.Function("f", text)
    try:
        f.load()
    except Exception as ex:
        if type(ex).__name__ in ("BudgetExceeded", "Unsupported"): raise
        return ex, None
    return None, f.root.postfix()

def listed_defects(words, effect):
    # the statement's classes, judged on the token list: unbalanced parentheses; operands / arities that do not add up to one value
    depth = 0
    for w in words:
        depth += (w == "(") - (w == ")")
        if depth < 0: return "unbalanced parentheses"
    if depth != 0: return "unbalanced parentheses"
    if sum(effect.get(w, 1) for w in words) != 1: return "operands and arities do not add up to one value (missing operand / wrong arity)"
    return None
"""
_fns = {}
exec(PY_FORMULA, _fns)


def ob_illformed(L, label, only=None, first=None):
    """only: free tokens restricted to these words (+ the unknown word); first: the first token is this word (work splitting)"""
    def run(ob):
        from symfl import tokens
        from symfl.tokens import Tok, Vocab, SymText, spell
        from .c16 import token_hooks, make_factory_manager, outcome_class
        fl = install()
        set_mode("R")
        tokens.reset_registry()
        ob.max_paths = 400000
        vocab = Vocab(F_WORDS)
        kinds = [z3.Int(f"k{i}") for i in range(L)]
        toks = [Tok(i, kinds[i], vocab) for i in range(L)]
        pre = [vocab.domain(k) for k in kinds]
        if only:
            pre += [z3.Or(*[k == vocab.idx(w) for w in only + ["zzz"]]) for k in kinds]
        if first:
            pre.append(kinds[0] == vocab.idx(first))
        ins = {f"k{i}": core.SymInt(k) for i, k in enumerate(kinds)}
        eff = lambda k: z3.Sum([z3.If(k == vocab.idx(w), F_EFFECT[w], 0) for w in F_WORDS + ["zzz"]])   # noqa: E731
        depth, balanced = z3.IntVal(0), []
        for k in kinds:
            depth = depth + z3.If(k == vocab.idx("("), 1, 0) - z3.If(k == vocab.idx(")"), 1, 0)
            balanced.append(depth >= 0)
        WELL = z3.And(*balanced, depth == 0, z3.Sum([eff(k) for k in kinds]) == 1)

        def rbody(v):
            ws = [vocab.spell(int(v[f"k{i}"])) for i in range(L)]
            return "\n".join(["globals()['EXPECT_NO_EXCEPTION'] = False", PY_FORMULA, f"text = {' '.join(ws)!r}; effect = {F_EFFECT!r}",
                              "exc, postfix = load_formula(fl, text)",
                              "why = listed_defects(text.split(), effect)",
                              "verdict(exc is None and why is not None, 'the formula %r was loaded (as %r) although it has %s' % (text, postfix, why))"])

        rp = replay_fn(PROPERTY, label, rbody, key=None)
        fm = make_factory_manager(fl)
        text = SymText(toks)
        todo = []
        n = 0
        ob.r.sample = {"label": f"{label}: loaded => balanced parentheses and a stack effect of one value", "path_conditions": "token identities",
                       "claim": "path condition => And(prefix depths >= 0, depth == 0, Sum(effect(k_i)) == 1)"}
        with token_hooks(fl, fm):
            for p in ob.paths(pre, lambda: _fns["load_formula"](fl, text), incremental=True):
                n += 1
                if p.exc is not None:
                    ob.error(f"{label}: harness raised {type(p.exc).__name__}: {p.exc}")
                    continue
                exc, postfix = p.result
                m = ob.witness(p, label)
                if m is None:
                    continue
                ws = [vocab.spell(m.eval(k, model_completion=True).as_long()) for k in kinds]
                todo.append((ws, outcome_class(exc), spell(postfix, m) if postfix is not None else None))
                if exc is None:
                    ob.prove(pre, p, WELL, f"{label}: loaded although ill-formed, e.g. {' '.join(ws)!r}", ins, rp)
                    zw = z3.is_true(m.eval(WELL, model_completion=True))
                    if zw != (_fns["listed_defects"](ws, F_EFFECT) is None):
                        ob.error(f"oracle encodings disagree on {ws}")
        if n == 0:
            ob.error("no path")
        for ws, oc, postfix in todo:      # conformance of the token model: the spelled formula on the plain library
            cexc, cpost = _fns["load_formula"](fl, " ".join(ws))
            if outcome_class(cexc) != oc or (postfix is not None and cpost != postfix):
                ob.r.conform_fail.append(f"{label}: token model and plain run disagree on {' '.join(ws)!r}: {oc}/{postfix} vs {outcome_class(cexc)}/{cpost}")
                break
            ob.r.conform_ok += 1
        if not first:
            ob.expect_sat(pre, None, WELL, f"{label}/some-sequence-is-ill-formed")

    return run


def obligations(tier, seed):
    from . import conform
    ill = [(f"illformed/any{L}", ob_illformed(L, f"illformed/any{L}")) for L in range(1, 5)]
    CORE = ["a", "+", "~", "(", ")", ",", "max"]        # longer sequences over the words parentheses and arities are about
    if tier == "quick":
        ill += [(f"illformed/core5/first={w}", ob_illformed(5, f"illformed/core5/first={w}", only=CORE, first=w)) for w in CORE + ["zzz"]]
    else:
        ill += [(f"illformed/any5/first={w}", ob_illformed(5, f"illformed/any5/first={w}", first=w)) for w in F_WORDS + ["zzz"]]
        ill += [(f"illformed/core6/first={w}", ob_illformed(6, f"illformed/core6/first={w}", only=CORE, first=w)) for w in CORE + ["zzz"]]
        ill += [(f"illformed/core7/first={w}", ob_illformed(7, f"illformed/core7/first={w}", only=["a", "+", "(", ")", "max", ","], first=w)) for w in ["a", "+", "(", ")", "max", ",", "zzz"]]
    return _obligations(tier, seed) + ill + conform.obligations(PROPERTY, tier)
