"""C03  Membership functions match their documented definitions."""
from __future__ import annotations

import math

import numpy as np
import z3

from spec import terms as spec
from spec.zeval import zeval
from symfl import core
from symfl.core import S, set_mode, sym_array, tf, same, ZB, kind_of, elements
from symfl.install import install
from symfl.replay import lit, replay_fn

from .common import unit, is_val, is_nan, between, rvar, all_same, wf, flat

PROPERTY = "C03"
EXPLANATION = ("Term.membership of each of the 20 shape terms (+Constant) is executed with symbolic x, parameters and height. "
               "Mode R: equality with the transcribed docstring definition x height for every finite x, range [0,h], NaN iff x "
               "NaN, limits at +-inf, monotonicity of the is_monotonic() terms, array = elementwise. Mode F (IEEE double, "
               "np.where forked): at the documented breakpoints the result is exactly 0 or h and never NaN inside the support.")
BOUNDS = {
    "quick": {"x / parameters / height": "all finite reals (valid parameterisations, height in (0,1]); x also NaN, +inf, -inf",
              "arrays": "1-D of 3, 2-D 2x2", "Discrete": "2 and 3 sorted points",
              "Mode F": "doubles with |v| in [2^-200, 2^200] or 0, distinct parameters separated by >= 2^-30 relative, height >= 2^-20; breakpoints = each parameter value"},
    "thorough": {"as quick, plus": "Discrete with 4 points; arrays 1-D of 4, 2-D 2x3; exact fp.mul/div/sqrt retries"},
}
OUTSIDE = ["accuracy of libm (exp, cos, pow are uninterpreted symbols with axioms)",
           "distance between the float result and the real-valued definition at interior points (Mode R is exact arithmetic)",
           "Concave with inflection == end (documented cases contradict each other)", "Linear, Function (C10/C17)"]
ASSUMPTIONS = ["documented parameter validity (a<=b<=c, width>0, start!=end, ...), height in (0,1]",
               "Mode R: IEEE specials over exact reals; Mode F: relaxed * / sqrt are sound over-approximations"]
STUBS = []
OB_BUDGET_S = {"quick": 150, "thorough": 1200}

TERMS = list(spec.TERMS)


def mk(fl, name, P, h):
    params, *_ = spec.TERMS[name]
    return getattr(fl, name)("t", *[P[k] for k in params], h)


def sym_params(name, special=False):
    params = spec.TERMS[name][0]
    return {k: rvar(k, special=special) for k in params}


def hpre(h):
    return [h.v > 0, h.v <= 1]


def py_ctor(name, vals):
    params = spec.TERMS[name][0] if name in spec.TERMS else None
    if name == "Binary":
        return f"fl.Binary('t', {lit(vals['start'])}, {lit(vals['direction'])}, {lit(vals['h'])})"
    if name == "Constant":
        return f"fl.Constant('t', {lit(vals['value'])})"
    return f"fl.{name}('t', " + ", ".join(lit(vals[k]) for k in params) + f", {lit(vals['h'])})"


def _inputs(P, h, x=None, x2=None):
    d = dict(P)
    d["h"] = h
    if x is not None:
        d["x"] = x
    if x2 is not None:
        d["x2"] = x2
    return d


def _replay_def(name, label, spec_expr, ctx, pvars):
    """replay for 'value equals definition': expected computed from the oracle in floats and embedded in the script"""

    def body(v):
        env = {pv.v.decl().name(): v[k] for k, pv in pvars.items() if isinstance(pv, core.RFloat) and z3.is_const(pv.v) and not z3.is_rational_value(pv.v)}
        try:
            expected = zeval(spec_expr, env, ctx.witness)
        except Exception as e:  # noqa
            expected = math.nan
        return "\n".join([
            f"t = {py_ctor(name, v)}", f"x = {lit(v['x'])}", f"expected = {lit(float(expected))}",
            "y = float(t.membership(x))",
            f"verdict(not same(y, expected, 1e-9), '{name}: membership(%r) = %r, documented %r' % (x, y, expected))"])

    return replay_fn(PROPERTY, label, body, key=label)


def _replay_law(name, label, law):
    def body(v):
        lines = [f"t = {py_ctor(name, v)}", f"x = {lit(v.get('x', 0.0))}", f"x2 = {lit(v.get('x2', 0.0))}", f"h = {lit(v['h'])}",
                 "y = float(t.membership(x)); y2 = float(t.membership(x2)); tol = 1e-9"]
        lines.append({
            "range": "bad = (not math.isnan(x)) and not (-tol <= y <= h + tol)",
            "nan": "bad = math.isnan(y) != math.isnan(x)",
            "mono_inc": "bad = x <= x2 and not (y <= y2 + tol)",
            "mono_dec": "bad = x <= x2 and not (y >= y2 - tol)",
            "pyfloat": "bad = not (same(float(t.membership(float(x))), float(t.membership(np.float64(x))), 0.0) and same(float(t.membership(np.array(x))), float(t.membership(np.float64(x))), 0.0))",
            "arrays": "xa = np.array([x, x2, x]); xb = np.array([[x, x2], [x2, x]]); r = t.membership(xa); r2 = t.membership(xb);"
                      " bad = not (same(r, [y, y2, y], 0.0) and same(r2, [[y, y2], [y2, y]], 0.0) and same(xa, [x, x2, x]) and same(xb, [[x, x2], [x2, x]]))\n"
                      "for A in (np.array([x]), np.array([[x]]), np.array([[x], [x2]]), np.array([[x, x2]]), np.array([[x, x2, x2], [x2, x2, x]]).T, np.asfortranarray([[x, x2], [x2, x2]]), np.array([x, x2, x2])[::-1]):\n"
                      "    rs = t.membership(A); bad = bad or np.shape(rs) != A.shape or not same(rs, np.vectorize(lambda q: float(t.membership(q)))(A), 0.0)",
        }[law])
        lines.append(f"verdict(bad, '{name}.{law}: x=%r -> %r ; x2=%r -> %r (h=%r)' % (x, y, x2, y2, h))")
        return "\n".join(lines)

    return replay_fn(PROPERTY, label, body, key=label)


# ------------------------------------------------------------------------------------------------------------------
def ob_def(name):
    def run(ob):
        fl = install()
        set_mode("R")
        params, valid, mu, at_inf, mono = spec.TERMS[name]
        P = sym_params(name)
        h, x = rvar("h"), rvar("x")
        Pv = {k: v.v for k, v in P.items()}
        pre = [valid(Pv)] + hpre(h)
        t = mk(fl, name, P, h)
        ctx = spec.Ctx()
        expected = h.v * mu(ctx, x.v, Pv)
        rp = _replay_def(name, f"{name}/R/def", expected, ctx, _inputs(P, h, x))
        for p in ob.paths(pre, lambda: t.membership(x)):
            if p.exc is not None:
                ob.unexpected(pre, p, f"{name}/R/def", _inputs(P, h, x), rp)
                continue
            y = tf(p.result)
            ob.prove(pre, p, is_val(y, expected), f"{name}/R/def", _inputs(P, h, x), rp, extra=ctx.assumptions)
            ob.expect_sat(pre, p, is_val(y, expected + 1), f"{name}/R/def/twin")

    return run


def ob_range_nan(name):
    def run(ob):
        fl = install()
        set_mode("R")
        params, valid, mu, at_inf, mono = spec.TERMS[name]
        P = sym_params(name)
        h, x = rvar("h"), rvar("x", special=True)
        Pv = {k: v.v for k, v in P.items()}
        pre = [valid(Pv)] + hpre(h) + wf(x)
        t = mk(fl, name, P, h)
        for p in ob.paths(pre, lambda: t.membership(x)):
            if p.exc is not None:
                ob.unexpected(pre, p, f"{name}/R/range", _inputs(P, h, x), _replay_law(name, f"{name}/R/range", "range"))
                continue
            y = tf(p.result)
            ins = _inputs(P, h, x)
            ob.prove(pre + [z3.Not(ZB(x.nan))], p, between(y, 0, h), f"{name}/R/range", ins, _replay_law(name, f"{name}/R/range", "range"))
            ob.prove(pre, p, ZB(y.nan) == ZB(x.nan), f"{name}/R/nan-iff", ins, _replay_law(name, f"{name}/R/nan-iff", "nan"))
            ob.expect_sat(pre, p, ZB(y.nan), f"{name}/R/nan/twin")

    return run


def ob_pyfloat(name):
    """parameters, height and x given as plain Python floats (what user code and the replays pass): no exception that NumPy numbers
    would not raise either (a Python float divides by zero with ZeroDivisionError), and the same value"""
    def run(ob):
        fl = install()
        set_mode("R")
        S.pyfloats = True
        params, valid, mu, at_inf, mono = spec.TERMS[name]
        P = sym_params(name)
        h, x = rvar("h"), rvar("x", special=True)
        Pv = {k: v.v for k, v in P.items()}
        pre = [valid(Pv)] + hpre(h) + wf(x)
        py = core.PyRFloat.of
        tpy = mk(fl, name, {k: py(v) for k, v in P.items()}, py(h))
        tnp = mk(fl, name, P, h)
        label = f"{name}/R/python-floats"
        rp = _replay_law(name, label, "pyfloat")
        for p in ob.paths(pre, lambda: (tpy.membership(py(x)), tnp.membership(x), tnp.membership(core.sym0d(x)))):
            if p.exc is not None:
                ob.unexpected(pre, p, label, _inputs(P, h, x), rp)
                continue
            ob.prove(pre, p, z3.And(same(tf(p.result[0]), tf(p.result[1])), same(tf(p.result[2]), tf(p.result[1]))), label, _inputs(P, h, x), rp)

    return run


def ob_inf(name):
    def run(ob):
        fl = install()
        set_mode("R")
        params, valid, mu, at_inf, mono = spec.TERMS[name]
        P = sym_params(name)
        h = rvar("h")
        Pv = {k: v.v for k, v in P.items()}
        pre = [valid(Pv)] + hpre(h)
        t = mk(fl, name, P, h)
        for sg, xv in ((1, math.inf), (-1, -math.inf)):
            x = core.const(xv)
            for p in ob.paths(pre, lambda: t.membership(x), profile=False):
                if p.exc is not None:
                    ob.unexpected(pre, p, f"{name}/R/inf", _inputs(P, h), None)
                    continue
                y = tf(p.result)
                expected = h.v * at_inf(Pv, sg)
                lab = f"{name}/R/at{'+' if sg > 0 else '-'}inf"

                def body(v, expected=expected, xv=xv):
                    env = {k: v[k] for k in list(P) + ["h"]}
                    e = zeval(expected, env)
                    return "\n".join([f"t = {py_ctor(name, v)}", f"x = {lit(xv)}", f"expected = {lit(float(e))}",
                                      "y = float(t.membership(x))",
                                      f"verdict(not same(y, expected, 1e-9), '{name}: membership(%r) = %r, documented %r' % (x, y, expected))"])

                ob.prove(pre, p, is_val(y, expected), lab, _inputs(P, h), replay_fn(PROPERTY, lab, body, key=lab))

    return run


def ob_mono(name):
    def run(ob):
        fl = install()
        set_mode("R")
        params, valid, mu, at_inf, mono = spec.TERMS[name]
        P = sym_params(name)
        h, x, x2 = rvar("h"), rvar("x"), rvar("x2")
        Pv = {k: v.v for k, v in P.items()}
        pre = [valid(Pv), x.v <= x2.v] + hpre(h)
        t = mk(fl, name, P, h)
        if not t.is_monotonic():
            ob.error(f"{name}.is_monotonic() is False but the term is documented monotonic")
            return
        inc = spec.INCREASING[name](Pv)
        for p in ob.paths(pre, lambda: (t.membership(x), t.membership(x2))):
            if p.exc is not None:
                ob.unexpected(pre, p, f"{name}/R/monotone", _inputs(P, h, x, x2), _replay_law(name, f"{name}/R/monotone-inc", "mono_inc"))
                continue
            y, y2 = tf(p.result[0]), tf(p.result[1])
            ins = _inputs(P, h, x, x2)
            if inc is not False:
                ob.prove(pre + ([inc] if inc is not True else []), p, y.v <= y2.v, f"{name}/R/monotone-inc", ins,
                         _replay_law(name, f"{name}/R/monotone-inc", "mono_inc"))
            if inc is not True:
                ob.prove(pre + ([z3.Not(inc)] if inc is not False else []), p, y.v >= y2.v, f"{name}/R/monotone-dec", ins,
                         _replay_law(name, f"{name}/R/monotone-dec", "mono_dec"))

    return run


def ob_not_monotonic_flag(ob):
    """terms documented as non-monotonic must not declare themselves monotonic (and vice versa)"""
    fl = install()
    for name in list(spec.TERMS) + ["Binary", "Constant", "Discrete", "Linear", "Function"]:
        t = getattr(fl, name)()
        want = name in spec.INCREASING
        ob.r.queries += 1
        if bool(t.is_monotonic()) != want:
            ob.error(f"{name}.is_monotonic() = {t.is_monotonic()}, documented {want}")
        else:
            ob.r.proved += 1


def ob_arrays(name, tier):
    def run(ob):
        fl = install()
        set_mode("R")
        params, valid, mu, at_inf, mono = spec.TERMS[name]
        P = sym_params(name)
        h = rvar("h")
        Pv = {k: v.v for k, v in P.items()}
        n1 = 3 if tier == "quick" else 4
        cols = 2 if tier == "quick" else 3
        xs = [rvar(f"x{i}", special=True) for i in range(n1)]
        m = [[rvar(f"m{i}{j}", special=True) for j in range(cols)] for i in range(2)]
        allx = xs + [e for row in m for e in row]
        pre = [valid(Pv)] + hpre(h) + wf(*allx)
        t = mk(fl, name, P, h)

        def body():
            A1, A2 = sym_array(xs), sym_array(m)
            r1 = t.membership(A1)
            r2 = t.membership(A2)
            e1 = [t.membership(v) for v in xs]
            e2 = [[t.membership(v) for v in row] for row in m]
            # arrays with one element or axes of length one keep their shape
            shapes = ([xs[0]], [[xs[0]]], [[xs[0]], [xs[1]]], [[xs[0], xs[1]]])
            sing = [(t.membership(sym_array(a)), np.shape(np.array(a, dtype=object))) for a in shapes]
            # a transposed view (Fortran-ordered memory, the same logical elements) and a strided slice
            layout = [(t.membership(sym_array(m).T), [[e2[i][j] for i in range(2)] for j in range(cols)]),
                      (t.membership(sym_array(xs)[::-1]), e1[::-1])]
            return r1, e1, r2, e2, A1, A2, sing, layout

        for p in ob.paths(pre, body):
            if p.exc is not None:
                ob.unexpected(pre, p, f"{name}/R/arrays", _inputs(P, h, xs[0], xs[1]), _replay_law(name, f"{name}/R/arrays", "arrays"))
                continue
            r1, e1, r2, e2, A1, A2, sing, layout = p.result
            if kind_of(layout[0][0]) != ("array", (cols, 2)):
                ob.prove(pre, p, False, f"{name}/R/arrays/transposed-shape {kind_of(layout[0][0])}", _inputs(P, h, xs[0], xs[1]), _replay_law(name, f"{name}/R/arrays", "arrays"))
                continue
            ob.prove(pre, p, z3.And([all_same(a, e) for a, e in layout]), f"{name}/R/arrays/memory-layout", _inputs(P, h, xs[0], xs[1]),
                     _replay_law(name, f"{name}/R/arrays", "arrays"))
            wrong = [(kind_of(a), shp) for a, shp in sing if kind_of(a) != ("array", shp)]
            if wrong:
                ob.prove(pre, p, False, f"{name}/R/arrays/singleton-shape {wrong[0]}", _inputs(P, h, xs[0], xs[1]), _replay_law(name, f"{name}/R/arrays", "arrays"))
                continue
            ob.prove(pre, p, z3.And([all_same(a, e1[:int(np.prod(shp))]) for a, shp in sing]), f"{name}/R/arrays/singleton-axes", _inputs(P, h, xs[0], xs[1]),
                     _replay_law(name, f"{name}/R/arrays", "arrays"))
            if kind_of(r1) != ("array", (n1,)) or kind_of(r2) != ("array", (2, cols)):
                ob.error(f"result kinds {kind_of(r1)} {kind_of(r2)}")
                continue
            ins = _inputs(P, h, xs[0], xs[1])
            rp = _replay_law(name, f"{name}/R/arrays", "arrays")
            ob.prove(pre, p, all_same(r1, e1), f"{name}/R/arrays/1d", ins, rp)
            ob.prove(pre, p, all_same(r2, e2), f"{name}/R/arrays/2d", ins, rp)
            ob.prove(pre, p, z3.And(all_same(A1, xs), all_same(A2, m)), f"{name}/R/arrays/argument-not-modified", ins, rp)

    return run


def ob_reuse(name):
    """one term object evaluated, then given new (valid) parameters and height through its attributes, then evaluated again:
    the second value is the documented one for the *current* parameters (nothing derived from the old ones may survive)"""
    def run(ob):
        fl = install()
        set_mode("R")
        params, valid, mu, at_inf, mono = spec.TERMS[name]
        P0 = {k: rvar(k + "_old") for k in params}
        P = sym_params(name)
        h0, h, x0, x = rvar("h_old"), rvar("h"), rvar("x_old", special=True), rvar("x")
        Pv0, Pv = {k: v.v for k, v in P0.items()}, {k: v.v for k, v in P.items()}
        pre = [valid(Pv0), valid(Pv)] + hpre(h0) + hpre(h) + wf(x0)
        ctx = spec.Ctx()
        expected = h.v * mu(ctx, x.v, Pv)
        ins = _inputs(P, h, x)
        ins.update({k + "_old": v for k, v in P0.items()})
        ins.update({"h_old": h0, "x_old": x0})
        label = f"{name}/R/reuse"

        def rbody(v):
            env = {pv.v.decl().name(): v[k] for k, pv in ins.items() if isinstance(pv, core.RFloat) and z3.is_const(pv.v) and not z3.is_rational_value(pv.v)}
            try:
                exp = zeval(expected, env, ctx.witness)
            except Exception:  # noqa
                exp = math.nan
            old = {k: v[k + "_old"] for k in params}
            old["h"] = v["h_old"]
            return "\n".join([f"t = {py_ctor(name, old)}", f"t.membership({lit(v['x_old'])}); t.membership(np.array([{lit(v['x_old'])}]))"] +
                              [f"t.{k} = {lit(v[k])}" for k in params] + [f"t.height = {lit(v['h'])}", f"x = {lit(v['x'])}", f"expected = {lit(float(exp))}",
                               "y = float(t.membership(x))",
                               f"verdict(not same(y, expected, 1e-9), '{name} re-parameterised: membership(%r) = %r, documented for the current parameters %r' % (x, y, expected))"])

        rp = replay_fn(PROPERTY, label, rbody, key=label)

        def body():
            t = mk(fl, name, P0, h0)
            t.membership(x0)
            t.membership(sym_array([x0]))
            for k in params:
                if not hasattr(t, k):
                    raise AssertionError(f"{name} has no attribute {k}")
                setattr(t, k, P[k])
            t.height = h
            return t.membership(x)

        for p in ob.paths(pre, body):
            if p.exc is not None:
                ob.unexpected(pre, p, label, ins, rp)
                continue
            y = tf(p.result)
            ob.prove(pre, p, is_val(y, expected), label, ins, rp, extra=ctx.assumptions)
            ob.expect_sat(pre, p, is_val(y, expected + 1), f"{label}/twin")

    return run


# ---- special cases -------------------------------------------------------------------------------------------------
def _special_case(name, P, pre_extra, mu1, label, extra_x=None):
    """generic Mode-R 'definition' obligation for a hand-built parameterisation (infinite shoulders etc.)"""

    def run(ob):
        fl = install()
        set_mode("R")
        PP = P()
        h, x = rvar("h"), rvar("x", special=True)
        pre = hpre(h) + pre_extra(PP) + wf(x)
        t = mk(fl, name, PP, h) if name in spec.TERMS else None
        if name == "Binary":
            t = fl.Binary("t", PP["start"], PP["direction"], h)
        for p in ob.paths(pre, lambda: t.membership(x)):
            if p.exc is not None:
                ob.unexpected(pre, p, label, None, None)
                continue
            y = tf(p.result)
            fin = ZB(x.fin())
            exp_fin, exp_pinf, exp_ninf = mu1(PP, x.v)
            ins = _inputs({k: v for k, v in PP.items()}, h, x)

            def body(v):
                xv = v["x"]
                env = {k: v[k] for k in v if isinstance(v[k], float) and math.isfinite(v[k])}
                if isinstance(xv, float) and math.isfinite(xv):
                    e = v["h"] * zeval(exp_fin, env)
                elif xv == math.inf:
                    e = v["h"] * exp_pinf
                elif xv == -math.inf:
                    e = v["h"] * exp_ninf
                else:
                    e = math.nan
                return "\n".join([f"t = {py_ctor(name, v)}", f"x = {lit(xv)}", f"expected = {lit(float(e))}",
                                  "y = float(t.membership(x))",
                                  f"verdict(not same(y, expected, 1e-9), '{label}: membership(%r) = %r, documented %r' % (x, y, expected))"])

            rp = replay_fn(PROPERTY, label, body, key=label)
            claim = z3.And(z3.Implies(fin, is_val(y, h.v * exp_fin)),
                           z3.Implies(ZB(x.pinf), is_val(y, h.v * exp_pinf)),
                           z3.Implies(ZB(x.ninf), is_val(y, h.v * exp_ninf)),
                           ZB(y.nan) == ZB(x.nan))
            ob.prove(pre, p, claim, label, ins, rp)
            ob.expect_sat(pre, p, z3.Implies(fin, is_val(y, h.v * exp_fin + 1)), label + "/twin")

    return run


def special_cases():
    out = []
    NINF, PINF = -math.inf, math.inf

    def tri_l():
        return {"left": core.const(NINF), "top": rvar("top"), "right": rvar("right")}

    out.append(("Triangle/R/left=-inf", _special_case(
        "Triangle", tri_l, lambda P: [P["top"].v <= P["right"].v],
        lambda P, x: (z3.If(x > P["right"].v, 0, z3.If(x <= P["top"].v, 1, (P["right"].v - x) / (P["right"].v - P["top"].v))), 0, 1),
        "Triangle/R/left=-inf")))

    def tri_r():
        return {"left": rvar("left"), "top": rvar("top"), "right": core.const(PINF)}

    out.append(("Triangle/R/right=+inf", _special_case(
        "Triangle", tri_r, lambda P: [P["left"].v <= P["top"].v],
        lambda P, x: (z3.If(x < P["left"].v, 0, z3.If(x >= P["top"].v, 1, (x - P["left"].v) / (P["top"].v - P["left"].v))), 1, 0),
        "Triangle/R/right=+inf")))

    def tra_l():
        return {"bottom_left": core.const(NINF), "top_left": rvar("top_left"), "top_right": rvar("top_right"), "bottom_right": rvar("bottom_right")}

    out.append(("Trapezoid/R/bottom_left=-inf", _special_case(
        "Trapezoid", tra_l, lambda P: [P["top_left"].v <= P["top_right"].v, P["top_right"].v <= P["bottom_right"].v],
        lambda P, x: (z3.If(x > P["bottom_right"].v, 0, z3.If(x <= P["top_right"].v, 1,
                                                                 (P["bottom_right"].v - x) / (P["bottom_right"].v - P["top_right"].v))), 0, 1),
        "Trapezoid/R/bottom_left=-inf")))

    def tra_r():
        return {"bottom_left": rvar("bottom_left"), "top_left": rvar("top_left"), "top_right": rvar("top_right"), "bottom_right": core.const(PINF)}

    out.append(("Trapezoid/R/bottom_right=+inf", _special_case(
        "Trapezoid", tra_r, lambda P: [P["bottom_left"].v <= P["top_left"].v, P["top_left"].v <= P["top_right"].v],
        lambda P, x: (z3.If(x < P["bottom_left"].v, 0, z3.If(x >= P["top_left"].v, 1,
                                                                (x - P["bottom_left"].v) / (P["top_left"].v - P["bottom_left"].v))), 1, 0),
        "Trapezoid/R/bottom_right=+inf")))

    def bin_r():
        return {"start": rvar("start"), "direction": core.const(PINF)}

    out.append(("Binary/R/direction=+inf", _special_case(
        "Binary", bin_r, lambda P: [], lambda P, x: (z3.If(x >= P["start"].v, 1, 0), 1, 0), "Binary/R/direction=+inf")))

    def bin_l():
        return {"start": rvar("start"), "direction": core.const(NINF)}

    out.append(("Binary/R/direction=-inf", _special_case(
        "Binary", bin_l, lambda P: [], lambda P, x: (z3.If(x <= P["start"].v, 1, 0), 0, 1), "Binary/R/direction=-inf")))

    # vertical edges of the smooth shapes (start == end): the documented cases still decide every x - 0 (resp. h) up to and including
    # the edge, h (resp. 0) beyond it; a normalised coordinate (x - s) / (e - s) is 0/0 exactly on the edge
    def s_edge():
        v = rvar("start")
        return {"start": v, "end": v}

    out.append(("SShape/R/start=end", _special_case("SShape", s_edge, lambda P: [], lambda P, x: (z3.If(x <= P["start"].v, 0, 1), 1, 0), "SShape/R/start=end")))
    out.append(("ZShape/R/start=end", _special_case("ZShape", s_edge, lambda P: [], lambda P, x: (z3.If(x <= P["start"].v, 1, 0), 0, 1), "ZShape/R/start=end")))

    def pi_edges():
        a, b = rvar("bottom_left"), rvar("top_right")
        return {"bottom_left": a, "top_left": a, "top_right": b, "bottom_right": b}

    out.append(("PiShape/R/vertical-edges", _special_case(
        "PiShape", pi_edges, lambda P: [P["bottom_left"].v <= P["top_right"].v],
        lambda P, x: (z3.If(x <= P["bottom_left"].v, 0, z3.If(x <= P["top_right"].v, 1, 0)), 0, 0), "PiShape/R/vertical-edges")))
    return out


def ob_constant(ob):
    fl = install()
    set_mode("R")
    k, x = rvar("value", special=True), rvar("x", special=True)
    pre = wf(k, x)
    t = fl.Constant("t", k)
    for p in ob.paths(pre, lambda: (t.membership(x), t.membership(sym_array([x, x])))):
        if p.exc is not None:
            ob.unexpected(pre, p, "Constant/R/def", None, None)
            continue
        y, ya = p.result

        def body(v):
            return "\n".join([f"t = fl.Constant('t', {lit(v['value'])})", f"x = {lit(v['x'])}",
                              "y = t.membership(x); ya = t.membership(np.array([x, x]))",
                              "verdict(not (same(y, t.value) and same(ya, [t.value, t.value])), 'Constant: %r %r' % (y, ya))"])

        ob.prove(pre, p, z3.And(same(y, k), all_same(ya, [k, k])), "Constant/R/def", {"value": k, "x": x},
                 replay_fn(PROPERTY, "Constant/R/def", body, key="Constant/R/def"))


def ob_constant_int(ob):
    """x given as an integer (Python int, NumPy integer, integer array): the value is still the constant, not the constant cast to
    the integer type of x"""
    fl = install()
    set_mode("R")
    k = rvar("value")
    t = fl.Constant("t", k)
    label = "Constant/R/integer-x"

    def body(v):
        return "\n".join([f"t = fl.Constant('t', {lit(v['value'])})",
                          "rs = [t.membership(3), t.membership(np.int64(-2)), t.membership(np.array([0, 1])), t.membership(np.array([[7]], dtype=np.uint8))]",
                          "verdict(not all(same(r, np.full(np.shape(r), t.value)) for r in rs), 'Constant with integer x: %r' % (rs,))"])

    rp = replay_fn(PROPERTY, label, body, key=label)
    for p in ob.paths([], lambda: (t.membership(3), t.membership(np.int64(-2)), t.membership(np.array([0, 1])), t.membership(np.array([[7]], dtype=np.uint8)))):
        if p.exc is not None:
            ob.unexpected([], p, label, {"value": k}, rp)
            continue
        ob.prove([], p, z3.And(*[all_same(r, [k] * len(elements(r))) for r in p.result]), label, {"value": k}, rp)


def ob_discrete(n):
    def run(ob):
        fl = install()
        set_mode("R")
        xs = [rvar(f"px{i}") for i in range(n)]
        ys = [rvar(f"py{i}") for i in range(n)]
        h, x = rvar("h"), rvar("x", special=True)
        pre = hpre(h) + wf(x) + [xs[i].v < xs[i + 1].v for i in range(n - 1)] + [unit(v) for v in ys]
        vals = []
        for a, b in zip(xs, ys):
            vals += [a, b]
        t = fl.Discrete("t", vals, h)
        # documented: piecewise linear interpolation between consecutive points, clamped outside, times h
        e = ys[-1].v
        for i in range(n - 2, -1, -1):
            seg = ys[i].v + (ys[i + 1].v - ys[i].v) / (xs[i + 1].v - xs[i].v) * (x.v - xs[i].v)
            e = z3.If(x.v < xs[i + 1].v, seg, e)
        e = z3.If(x.v <= xs[0].v, ys[0].v, e)
        ins = {f"px{i}": xs[i] for i in range(n)}
        ins.update({f"py{i}": ys[i] for i in range(n)})
        ins.update({"h": h, "x": x})

        def body(v):
            pts = ", ".join(f"{lit(v[f'px{i}'])}, {lit(v[f'py{i}'])}" for i in range(n))
            return "\n".join([f"t = fl.Discrete('t', [{pts}], {lit(v['h'])})", f"x = {lit(v['x'])}", f"h = {lit(v['h'])}",
                              f"xp = [{', '.join(lit(v[f'px{i}']) for i in range(n))}]; fp = [{', '.join(lit(v[f'py{i}']) for i in range(n))}]",
                              "y = float(t.membership(x))",
                              "def ref(x):\n    if math.isnan(x): return nan\n    if x <= xp[0]: return fp[0]\n    if x >= xp[-1]: return fp[-1]\n"
                              "    for i in range(len(xp)-1):\n        if xp[i] <= x < xp[i+1]: return fp[i] + (fp[i+1]-fp[i])/(xp[i+1]-xp[i])*(x-xp[i])",
                              "verdict(not same(y, h*ref(x), 1e-9), 'Discrete: membership(%r) = %r, documented %r' % (x, y, h*ref(x)))"])

        rp = replay_fn(PROPERTY, f"Discrete{n}/R/def", body, key=f"Discrete{n}/R/def")
        for p in ob.paths(pre, lambda: (t.membership(x), t.membership(sym_array([x, xs[0], xs[-1]])))):
            if p.exc is not None:
                ob.unexpected(pre, p, f"Discrete{n}/R/def", ins, rp)
                continue
            y = tf(p.result[0])
            fin = ZB(x.fin())
            ob.prove(pre, p, z3.And(z3.Implies(fin, is_val(y, h.v * e)),
                                    z3.Implies(ZB(x.pinf), is_val(y, h.v * ys[-1].v)),
                                    z3.Implies(ZB(x.ninf), is_val(y, h.v * ys[0].v)),
                                    ZB(y.nan) == ZB(x.nan),
                                    z3.Implies(z3.Not(ZB(x.nan)), between(y, 0, h))), f"Discrete{n}/R/def", ins, rp)
            arr = elements(p.result[1])
            ob.prove(pre, p, z3.And(same(arr[0], y), is_val(arr[1], h.v * ys[0].v), is_val(arr[2], h.v * ys[-1].v)),
                     f"Discrete{n}/R/array", ins, rp)

    return run


# ---- Mode F ---------------------------------------------------------------------------------------------------------
def _mid(v):
    """precondition (bound of the Mode-F claims): finite and (0 or 2^-200 <= |v| <= 2^200)"""
    f = v.f
    return z3.And(core._fin(f), z3.Or(z3.fpIsZero(f), z3.And(z3.fpGEQ(z3.fpAbs(f), core.fv(2.0 ** -200)), z3.fpLEQ(z3.fpAbs(f), core.fv(2.0 ** 200)))))


def _sep(a, b):
    """bound of the Mode-F claims: two distinct parameters are separated by at least 2^-30 relative
    (|a-b| >= 2^-30 * max(|a|,|b|)); adjacent doubles as start/end are outside the claim"""
    d = z3.fpAbs(z3.fpSub(core.RNE, a.f, b.f))
    m = z3.fpMax(z3.fpAbs(a.f), z3.fpAbs(b.f))
    return z3.Or(z3.fpEQ(a.f, b.f), z3.fpGEQ(d, z3.fpMul(core.RNE, core.fv(2.0 ** -30), m)))


def _fpre_sep(P):
    ks = list(P)
    return [_sep(P[a], P[b]) for i, a in enumerate(ks) for b in ks[i + 1:]]


def _fpre_h(h):
    return [z3.fpGEQ(h.f, core.fv(2.0 ** -20)), z3.fpLEQ(h.f, core.fv(1.0))]


def _fpre_order(name, P):
    """documented validity in IEEE comparisons"""
    lt, le = (lambda a, b: z3.fpLT(a.f, b.f)), (lambda a, b: z3.fpLEQ(a.f, b.f))
    if name in ("Triangle",):
        return [le(P["left"], P["top"]), le(P["top"], P["right"])]
    if name == "Trapezoid":
        return [le(P["bottom_left"], P["top_left"]), le(P["top_left"], P["top_right"]), le(P["top_right"], P["bottom_right"])]
    if name in ("SShape", "ZShape"):
        return [lt(P["start"], P["end"])]
    if name in ("Arc", "Ramp", "SemiEllipse"):
        return [z3.Not(z3.fpEQ(P["start"].f, P["end"].f))]
    if name == "Rectangle":
        return []
    if name == "PiShape":
        return [lt(P["bottom_left"], P["top_left"]), le(P["top_left"], P["top_right"]), lt(P["top_right"], P["bottom_right"])]
    raise KeyError(name)


# documented exact values at the breakpoints: (term, parameter that x equals) -> expected ('0' | 'h' | callable(P)->z3 Bool picks)
def _bp_expect(name, at, P):
    """-> z3 FP-level description: ('h'|'0') possibly conditional: returns list of (condition Bool, 'h'|'0')"""
    T = z3.BoolVal(True)
    lt = lambda a, b: z3.fpLT(P[a].f, P[b].f)  # noqa
    eq = lambda a, b: z3.fpEQ(P[a].f, P[b].f)  # noqa
    if name == "Triangle":
        return {"left": [(lt("left", "top"), "0"), (eq("left", "top"), "h")], "top": [(T, "h")],
                "right": [(lt("top", "right"), "0"), (eq("top", "right"), "h")]}[at]
    if name == "Trapezoid":
        return {"bottom_left": [(lt("bottom_left", "top_left"), "0"), (eq("bottom_left", "top_left"), "h")],
                "top_left": [(T, "h")], "top_right": [(T, "h")],
                "bottom_right": [(lt("top_right", "bottom_right"), "0"), (eq("top_right", "bottom_right"), "h")]}[at]
    if name == "Rectangle":
        return [(T, "h")]
    if name in ("Ramp", "Arc", "SShape"):
        return {"start": [(T, "0")], "end": [(T, "h")]}[at]
    if name == "ZShape":
        return {"start": [(T, "h")], "end": [(T, "0")]}[at]
    if name == "SemiEllipse":
        return [(T, "notnan")]
    raise KeyError(name)


F_BREAKPOINT_TERMS = ["Triangle", "Trapezoid", "Rectangle", "Ramp", "Arc", "SShape", "ZShape", "SemiEllipse"]


def ob_f_breakpoint(name, at):
    """Mode F: x equal to the parameter `at` (bit for bit).  On every feasible path the value must be exactly 0 or h
    (where a faithful IEEE implementation is exact there) and never NaN."""

    def run(ob):
        fl = install()
        set_mode("F")
        params = spec.TERMS[name][0]
        P = {k: core.var(k) for k in params}
        h = core.var("h")
        ONE, Z = core.fv(1.0), core.fv(0.0)
        pre = [_mid(v) for v in P.values()] + _fpre_h(h) + _fpre_order(name, P) + _fpre_sep(P)
        x = P[at]
        label = f"{name}/F/x={at}"

        def body(v):
            vv = dict(v)
            vv["x"] = v[at]
            exp_lines = []
            return "\n".join([f"t = {py_ctor(name, vv)}", f"x = {lit(v[at])}", f"h = {lit(v['h'])}",
                              "y = float(t.membership(x))",
                              f"bad = math.isnan(y) or not (y == 0.0 or y == h or '{name}' == 'SemiEllipse')",
                              _py_expect(name, at),
                              f"verdict(bad, '{name}: membership({at} = %r) = %r (h = %r)' % (x, y, h))"])

        rp = replay_fn(PROPERTY, label, body, key=label)
        for p in ob.paths(pre, lambda: mk(fl, name, P, h).membership(x)):
            if p.exc is not None:
                ob.unexpected(pre, p, label, None, None)
                continue
            if ob.reachable(pre, p, label) is None:
                continue
            y = tf(p.result).f
            ins = dict(P)
            ins["h"] = h
            for cond, exp in _bp_expect(name, at, P):
                if exp == "notnan":
                    claim = z3.Not(z3.fpIsNaN(y))
                elif exp == "h":
                    claim = z3.fpEQ(y, h.f)
                else:
                    claim = z3.fpIsZero(y)
                ob.prove(pre + [cond], p, claim, label, ins, rp)

    return run


def _py_expect(name, at):
    """python snippet refining `bad` with the documented exact value at the breakpoint"""
    tbl = {
        ("Triangle", "left"): "exp = h if t.left == t.top else 0.0", ("Triangle", "top"): "exp = h",
        ("Triangle", "right"): "exp = h if t.top == t.right else 0.0",
        ("Trapezoid", "bottom_left"): "exp = h if t.bottom_left == t.top_left else 0.0", ("Trapezoid", "top_left"): "exp = h",
        ("Trapezoid", "top_right"): "exp = h", ("Trapezoid", "bottom_right"): "exp = h if t.top_right == t.bottom_right else 0.0",
        ("Rectangle", "start"): "exp = h", ("Rectangle", "end"): "exp = h",
        ("Ramp", "start"): "exp = 0.0", ("Ramp", "end"): "exp = h", ("Arc", "start"): "exp = 0.0", ("Arc", "end"): "exp = h",
        ("SShape", "start"): "exp = 0.0", ("SShape", "end"): "exp = h", ("ZShape", "start"): "exp = h", ("ZShape", "end"): "exp = 0.0",
    }
    s = tbl.get((name, at))
    if s is None:
        return "pass"
    return s + "; bad = bad or (y != exp)"


def ob_f_support_notnan(name):
    """Mode F: for every finite x inside the documented support the result is not NaN and lies in [0,h]."""

    def run(ob):
        fl = install()
        set_mode("F")
        params = spec.TERMS[name][0]
        P = {k: core.var(k) for k in params}
        h, x = core.var("h"), core.var("x")
        ONE, Z = core.fv(1.0), core.fv(0.0)
        pre = [_mid(v) for v in P.values()] + [_mid(x)] + _fpre_h(h) + _fpre_order(name, P) + _fpre_sep(P)
        label = f"{name}/F/not-nan"

        def body(v):
            return "\n".join([f"t = {py_ctor(name, v)}", f"x = {lit(v['x'])}", f"h = {lit(v['h'])}", "y = float(t.membership(x))",
                              f"verdict(math.isnan(y) or not (0.0 <= y <= h), '{name}: membership(%r) = %r (h = %r)' % (x, y, h))"])

        rp = replay_fn(PROPERTY, label, body, key=label)
        for p in ob.paths(pre, lambda: mk(fl, name, P, h).membership(x)):
            if p.exc is not None:
                ob.unexpected(pre, p, label, None, None)
                continue
            if ob.reachable(pre, p, label) is None:
                continue
            y = tf(p.result).f
            ins = dict(P)
            ins.update({"h": h, "x": x})
            ob.prove(pre, p, z3.And(z3.Not(z3.fpIsNaN(y)), z3.fpGEQ(y, Z), z3.fpLEQ(y, h.f)), label, ins, rp)

    return run


F_NOTNAN_TERMS = ["Triangle", "Trapezoid", "Rectangle", "Ramp", "SemiEllipse", "Arc"]


def _obligations(tier, seed):
    obs = []
    for name in TERMS:
        obs.append((f"{name}/R/def", ob_def(name)))
        obs.append((f"{name}/R/range+nan", ob_range_nan(name)))
        obs.append((f"{name}/R/inf", ob_inf(name)))
        if name in spec.INCREASING:
            obs.append((f"{name}/R/monotone", ob_mono(name)))
        obs.append((f"{name}/R/arrays", ob_arrays(name, tier)))
        obs.append((f"{name}/R/reuse", ob_reuse(name)))
        obs.append((f"{name}/R/python-floats", ob_pyfloat(name)))
    obs.append(("flags/is_monotonic", ob_not_monotonic_flag))
    obs += special_cases()
    obs.append(("Constant/R/def", ob_constant))
    obs.append(("Constant/R/integer-x", ob_constant_int))
    for n in ((2, 3) if tier == "quick" else (2, 3, 4)):
        obs.append((f"Discrete{n}/R/def", ob_discrete(n)))
    for name in F_BREAKPOINT_TERMS:
        for at in spec.TERMS[name][0]:
            obs.append((f"{name}/F/x={at}", ob_f_breakpoint(name, at)))
    for name in F_NOTNAN_TERMS:
        obs.append((f"{name}/F/not-nan", ob_f_support_notnan(name)))
    return obs


def obligations(tier, seed):
    from . import conform
    return _obligations(tier, seed) + conform.obligations(PROPERTY, tier)
