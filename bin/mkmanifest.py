#!/usr/bin/env python3
"""Regenerates /verif/MANIFEST.json from the table below (run by hand after adding a property harness)."""
import json
import os

VERIF = os.path.dirname(os.path.dirname(os.path.abspath(__file__)))

TECH = ("symbolic execution of the unmodified fuzzylite functions on z3-backed symbolic numbers (symfl shim through "
        "NumPy's __array_ufunc__/__array_function__, depth-first path exploration) + SMT queries per path (z3; unsat = holds "
        "for all values in the bounds, sat = counterexample replayed on the real library)")

NOTE_R = ("Mode R = IEEE specials over exact reals (no rounding/overflow/signed zero); transcendental functions are uninterpreted "
          "with instance axioms. Trusted: z3, the shim's model of NumPy element semantics, the oracles in /verif/spec and the harness. ")

CHECKS = {
    "C16": dict(
        text="Bounded symbolic verification: a rule text is a sequence of tokens whose identity (a word of a bounded vocabulary - keywords, "
             "parentheses, the variable/term/hedge names of an engine, a number - or an unknown word) is a solver variable each; the real "
             "Rule.parse, Function.infix_to_postfix, Antecedent.load, Consequent.load, Rule.load and RuleBlock.load_rules run on them, every "
             "comparison of a token with a word forking the path explorer (feasibility decided by z3), so the paths partition all token "
             "sequences of the stated shapes. Per path: the exception is a syntax/value/key error and never Type/Attribute/Index/"
             "Recursion/RuntimeError; a failed load never leaves the rule loaded (a failed parse leaves it unchanged); on accepting "
             "paths z3 decides 'path condition => the statement's grammar' (token automaton as an If-chain over the kinds) and the "
             "accepted rule exports, re-imports to the same text and evaluates on symbolic inputs; FLL documents: the real FllImporter "
             "dispatch on symbolic keys/values around a valid document.",
        note="Token level: whitespace splitting and Function.format_infix's regex are stubbed as the identity on pre-tokenised text (glued tokens, "
             "comments outside); vocabulary and lengths bounded (evidence). Each path's model is spelled out and re-run on the plain "
             "library; disagreement is a harness error. Trusted: z3, the token model (symfl/tokens.py), the grammar automaton in "
             "harness/c16.py (validated against its Python twin on every accepting path). One recorded known finding (misplaced connectives).",
        ref="DESIGN.md §2 C16"),
    "C15": dict(
        text="Bounded symbolic verification: the C14 catalogue engines (plus negative-zero, infinite and NaN parameters) with every numeric "
             "parameter symbolic are exported by the real repr() and PythonExporter (plain/encapsulated, formatted or not) under each "
             "library alias ('fl', '', '*', custom; one after another in one process); the library's own import statement is executed "
             "and the generated code is eval/exec-uted with symbolic numbers travelling as placeholder identifiers; the real code forks "
             "on the default-dropping branches (is_close(height,1), enabled, description, resolution == default, type == Automatic). Per "
             "path: repr and FLL export of the rebuilt engine equal the original's, no numeric field can differ (SMT), outputs on symbolic "
             "inputs cannot differ, and every component's own repr rebuilds to the same repr.",
        note=NOTE_R + "black is executed concretely; digit-level repr(float) is outside (placeholders). Engine family bounded (catalogue).",
        ref="DESIGN.md §2 C15"),
    "C14": dict(
        text="Bounded symbolic verification: one engine per registered term class, every norm in every role, every defuzzifier with/without "
             "parameter, every activation method with parameters, flags, descriptions, infinite ranges, NaN defaults, `none` operators, "
             "hedged rules, rule weights and keyword-like names is built with every numeric parameter symbolic; the real FllExporter -> "
             "FllImporter -> FllExporter runs with numbers carried through the text as placeholder tokens (the statement's "
             "'representable at the configured decimals' precondition), forking on the real is_close(height,1)/is_close(weight,1) "
             "branches; per path the second text equals the first, structure is equal, 'imported field != original' is unsat for every "
             "numeric field, outputs on symbolic inputs cannot differ, and perturbed texts reach a fixed point after one cycle.",
        note=NOTE_R + "Round trips at decimals 3 and 5 (every parameter on that grid; a fixed-point format with fewer decimals than those in force stands "
             "for the rounded value). Digit-level formatting (f'{x:.3f}', float()) is otherwise outside the model by construction: a change confined to the printed digits "
             "is not detected (see DESIGN.md, seeded C14-str-scientific-large). Engine family bounded (catalogue).",
        ref="DESIGN.md §2 C14"),
    "C18": dict(
        text="Bounded symbolic verification with np.savetxt stubbed to capture the table: the real FldExporter.write_from_scope runs with "
             "`values` a symbolic integer, symbolic input ranges and 1-3 inputs, pow() a nondeterministic libm stub (any result within "
             "2^-45 relative) and int() truncation; all branches of the resolution computation and the Op.increment-driven enumeration "
             "are explored and per path the captured table must have K^n rows with K^n <= v < (K+1)^n (integer arithmetic) and the "
             "documented grid values in lexicographic order, inactive variables keeping their value; Op.increment is proven to be the "
             "mixed-radix successor on symbolic digit lists; every exported row's outputs equal a separate scalar process() of that row "
             "under each header/inputs/outputs switch; reader exports with placeholder numbers and blank/comment/skipped lines tabulate "
             "exactly the given rows. Counterexamples of the libm stub are replayed with the real pow and blocked when not reproduced.",
        note=NOTE_R + "Printed digits/separators are inside np.savetxt and not modelled; v bounded (<= 40/90/130 quick).",
        ref="DESIGN.md §2 C18"),
    "C17": dict(
        text="Bounded symbolic verification: formulas printed from generated expression trees (all ordered pairs of the 9 binary operators in "
             "both tree shapes, unary operators against every binary operator, unary chains, all 34 registered functions at their arity, "
             "seeded random trees; minimal and redundant parentheses; compact and wide spacing) are parsed by the real Function.create "
             "and evaluated by the real Function.membership/Node.evaluate on symbolic variables (own variables, engine values, x; scalars "
             "and arrays); the result must equal the documented meaning evaluated on the generating tree (SMT, functions as symbols named "
             "after the documented function) and the real Node.postfix() evaluated by a reference stack machine must agree. Rejection of "
             "ill-formed formulas: every sequence of up to 5 symbolic tokens (operators, parentheses, comma, a function of each arity, "
             "variable, number, unknown word) runs through the real Function.load; whatever is loaded must have balanced parentheses and "
             "operands/arities adding up to one value (SMT per accepting path).",
        note=NOTE_R + "Formula texts come from a bounded seeded grammar; ill-formed formulas at token level and for the statement's listed classes "
             "only (operators merely standing in the wrong place are not judged).",
        ref="DESIGN.md §2 C17"),
    "C20": dict(
        text="Bounded symbolic exploration: setting values are opaque symbols whose truth value and mutual equality are symbolic booleans "
             "(so code that inspects a value forks and falsy / equal-to-current cases are covered); which of the 7 settings each nested "
             "context names and whether a level is left by an exception are symbolic booleans decided by the explorer (all subsets at "
             "depth 1, triples at depth 2, pairs at depth 3), with a direct assignment inside the innermost block; the real "
             "Settings.context runs and per path every named key is identical to its entry value after exit, unnamed keys are exactly "
             "what the block left, and Op.is_close (symbolic atol/rtol, SMT) / Op.str (decimals 0..9) observe the values in force.",
        note="Path exploration with symbolic data (feasibility decided by z3) rather than arithmetic reasoning. Trusted: z3, the explorer, the "
             "opaque-value model (equality an equivalence, one falsy value per setting). Nesting depth bounded; threads outside.",
        ref="DESIGN.md §2 C20"),
    "C13": dict(
        text="Bounded symbolic verification: operation sequences over {set inputs+process, restart, copy, edit a parameter or rule weight, "
             "toggle-and-restore an enabled flag, batch step} run on six engines of registered components (incl. Linear/Function terms "
             "holding engine references, Tsukamoto, two blocks) with the inputs of every step and the edited value symbolic over all "
             "extended reals; after each processing step the solver decides whether outputs or fuzzy outputs can differ from a freshly "
             "built engine given only that step's inputs, so any trace of history, of the other engine of a copy pair, or of a toggled "
             "flag is a counterexample; state after restart and the copy's object graph are checked as well.",
        note=NOTE_R + "Sequence shapes enumerated (12 quick); lock-previous off as the statement says; object-graph disjointness is a concrete check.",
        ref="DESIGN.md §2 C13"),
    "C19": dict(
        text="Bounded symbolic verification: for each of 10 engine skeletons the presence of every operator and defuzzifier is a symbolic "
             "boolean chosen at construction (every subset of missing components is a path) and all inputs are symbolic finite reals; the "
             "real Engine.is_ready(errors) and Engine.process run; on every path where is_ready reports no errors no path of process may "
             "raise for any finite input, and on every path where a needed component (by the statement's predicate, computed from the "
             "skeleton) is absent, errors must be non-empty and name it.",
        note=NOTE_R + "Skeleton family bounded (10); engines without activation method or with design errors is_ready does not inspect are outside.",
        ref="DESIGN.md §2 C19"),
    "C02": dict(
        text="Bounded symbolic verification: engines of registered components (Mamdani with every integral defuzzifier, Takagi-Sugeno with "
             "Constant/Linear/Function terms, Tsukamoto, hedged consequents, two blocks with an output variable in an antecedent) are "
             "built twice from the same symbolic state; the real code processes a batch of N symbolic rows at once (both batch APIs) and "
             "the same rows one after another as plain Python floats (a symbolic flavour whose division by zero raises, as a Python float's does), through a shim whose array shape handling is NumPy's own; per row the solver "
             "decides whether any output value or fuzzy-output degree can differ, over all extended-real inputs, every lock-previous/"
             "default/lock-range setting and an arbitrary previous value, and a path where exactly one mode raises is a counterexample.",
        note=NOTE_R + "N <= 3 rows quick (4 thorough); fuzzy_value() strings not modelled (degrees compared); General activation.",
        ref="DESIGN.md §2 C02"),
    "C01": dict(
        text="Bounded symbolic verification: engines built by the real constructors/Rule.create from generated skeletons (1-3 inputs, "
             "1-2 outputs, 1-2 blocks, antecedent trees, output variables in later antecedents) are processed by the real Engine.process "
             "with every operator made abstract through the public extension points (uninterpreted non-commutative conjunction, "
             "disjunction, implication, aggregation; abstract terms; abstract defuzzifier probing the aggregated set) and all inputs, "
             "weights and ranges symbolic; output values, fuzzy outputs and rule degrees must equal a reference interpreter of the "
             "statement evaluated on the generating skeleton (SMT query decided by congruence), with each rule/block/variable disabled in "
             "turn. Registered terms/norms/defuzzifiers are then checked against their documented formulas on fixed skeletons.",
        note=NOTE_R + "Skeletons from a bounded seeded family under General activation; same-block chains and two successive activations also under "
             "First/Last/Highest/Lowest/Threshold (harness shared with C08); hedged non-last conclusions excluded "
             "(recorded C07 finding).",
        ref="DESIGN.md §2 C01"),
    "C10": dict(
        text="Bounded symbolic verification: fuzzy outputs are enumerated skeletons (0-4 activations over up to 3 terms with repetitions, "
             "term kinds Constant/Linear/Function/six monotonic/Triangle) with every degree, constant, coefficient, input and term "
             "parameter symbolic; the real WeightedAverage/WeightedSum.defuzzify, Aggregated.grouped_terms and infer_type run for each "
             "type and aggregation operator, and per path the result equals the statement's grouped weighted average/sum, an extra "
             "degree-0 activation never changes it, NaN iff no activations or zero total weight, averages of constants stay within the "
             "activated constants, kind inference/TypeError as documented - each an SMT query over all values.",
        note=NOTE_R + "Degrees in [0,1] (Tsukamoto: below the height); exp/log uninterpreted with axioms; skeleton sizes bounded.",
        ref="DESIGN.md §2 C10"),
    "C08": dict(
        text="Bounded symbolic verification: a block of n rules whose degrees are independent symbols in [0,1] (zeros, ties and "
             "equal-to-threshold inside) is activated by the real RuleBlock.activate under each of the 7 methods with a symbolic rule "
             "count (integer in [0,n+1]), symbolic thresholds and all 6 comparators; every Python branch including the heap's tuple "
             "comparisons is explored and per path the triggered flags, activation degrees and fuzzy contributions of every rule must "
             "equal the declarative selection predicates of the statement (z3 counting formulas); second activation with fresh degrees, "
             "unloaded/disabled rules, and batch rejection by the vector-incapable methods on every path.",
        note=NOTE_R + "Blocks of up to 4 rules (3 for Highest/Lowest) quick, 5/4 thorough; larger blocks outside. Disabled rules under the "
             "counting methods only where the statement's two readings agree.",
        ref="DESIGN.md §2 C08"),
    "C06": dict(
        text="Bounded symbolic verification: antecedent texts printed from generated expression trees (minimal/full parentheses, "
             "spacing variants) are parsed by the real Rule.create and evaluated by the real Rule.activate_with with symbolic degrees, "
             "weight and accumulated output activations; conjunction/disjunction/aggregation are uninterpreted non-commutative, "
             "non-associative symbols and two hedges are uninterpreted, so the SMT query 'activation degree == weight x grammar semantics "
             "of the generating tree' (decided by congruence) covers precedence, associativity, operand and hedge order, `any`, disabled "
             "variables and output-variable propositions for every operator and every degree; registered norm pairs are checked against "
             "their formulas on fixed trees.",
        note=NOTE_R + "Texts come from a bounded seeded grammar (sizes in the evidence); arbitrary texts are C16.",
        ref="DESIGN.md §2 C06"),
    "C07": dict(
        text="Bounded symbolic verification: rules are built by the real Rule.create from enumerated consequent texts (1-3 conclusions, "
             "0-2 hedges each, every permutation); the activation degree is symbolic over all extended reals (scalar and batch), flags "
             "enumerated; after the real Rule.trigger / RuleBlock.activate every fuzzy output must equal the per-conclusion "
             "specification (one Activated per enabled variable, term and implication by identity, degree = sanitise(own hedges(d))), "
             "decided by SMT per path with registered and uninterpreted (non-commuting) hedges, so leakage between conclusions and "
             "order dependence are observable for every degree value.",
        note=NOTE_R + "Consequent texts are enumerated (bounded grammar), numbers symbolic. One recorded known finding (hedge leak).",
        ref="DESIGN.md §2 C07"),
    "C12": dict(
        text="Bounded symbolic verification: the defuzzifier is a stub returning symbolic values of every result kind the registered "
             "defuzzifiers produce (0-d array, NumPy scalar, 1-d batch), so all sequences of NaN/in-range/out-of-range values become "
             "all doubles. The real OutputVariable.defuzzify / Engine.process / clear run on every split of a sequence of up to L "
             "values into calls and batches; value and previous value after every call equal the cascade of the statement (a recursive "
             "function), decided bit-exactly over IEEE binary64 and over extended reals; disabled variable untouched; a raising "
             "defuzzifier leaves value, previous value and fuzzy output unchanged. The six scenarios of the test-suite cannot cover "
             "every value of every element of every split.",
        note="Mode F is exact here (the code only tests NaN, copies and clips). Trusted: z3, the shim's model of np.nditer/np.take/"
             "np.clip/mask assignment (replays run the real NumPy), the cascade oracle in harness/c12.py. Sequence length bounded (L<=3 quick, 4 thorough).",
        ref="DESIGN.md §2 C12"),
    "C03": dict(
        text="Bounded symbolic verification: Term.membership of each of the 20 shape terms and Constant is executed with symbolic x, "
             "parameters and height. Over exact reals with IEEE specials every obligation (equals the transcribed definition x height, "
             "range [0,h], NaN iff x NaN, limits at +-inf, monotonicity of is_monotonic() terms, array = elementwise) is one SMT query "
             "per path covering all valid parameterisations and all x; in IEEE binary64 (np.where forked) the value at every documented "
             "breakpoint is decided bit-exactly (0 or h, never NaN inside the support). Tests only sample about ten points per term.",
        note=NOTE_R + "Mode F: relaxed multiplication/division/sqrt are sound over-approximations (unsat carries over, sat is replayed); "
             "magnitudes bounded as stated in the evidence; libm accuracy outside.",
        ref="DESIGN.md §2 C03"),
    "C05": dict(
        text="Bounded symbolic verification: each of the 6 registered hedges is executed on a symbolic degree; formula, range, fixed "
             "points, monotonicity, very<=x<=somewhat, inverse pairs and involution are SMT queries over all reals in [0,1]; the 0.5 "
             "branch of extremely/seldom is decided bit-exactly over all doubles.",
        note=NOTE_R + "Inverse/involution laws are real-arithmetic claims (false by rounding in floats). Mode F: every hedge equals the documented "
             "formula evaluated in IEEE arithmetic (exact fp.mul/fp.sqrt) for every double in [0,1].",
        ref="DESIGN.md §2 C05"),
    "C09": dict(
        text="Bounded symbolic verification: the fuzzy set is an abstract term returning r fresh symbolic memberships (the property's "
             "own quantifier); the real Centroid/Bisector/SOM/MOM/LOM.defuzzify run on it with a symbolic range, and the defining "
             "formulas, range, SOM<=MOM<=LOM, NaN-iff-empty, translation and batch=per-set are SMT queries over all memberships and "
             "ranges for r up to the stated bound; Aggregated/Activated.membership is proven equal to the documented fold for every "
             "implication x aggregation pair.",
        note=NOTE_R + "Defuzzified values: resolutions above the bound are outside the claim; the SAMPLING (number and position of the points, "
             "Op.midpoints) is decided separately at resolutions 49..1000 quick / up to 2000 thorough with a symbolic range.",
        ref="DESIGN.md §2 C09"),
    "C11": dict(
        text="Bounded symbolic verification: tsukamoto(y) of the six monotonic terms is executed with symbolic parameters, height and "
             "y in (0,h); finiteness, membership(tsukamoto(y)) == y, monotonicity and elementwise arrays are SMT queries over all "
             "reals; all other term classes must raise.",
        note=NOTE_R + "exp/log are uninterpreted with mutual-inverse instance axioms; float closeness of the round trip is outside. "
             "Mode F finiteness: heights >= 2^-20, degrees >= 2^-100 (relaxed, then exact encodings); Ramp additionally over ALL heights and "
             "degrees 0 < y < h <= 1 with exact fp.mul/fp.div.",
        ref="DESIGN.md §2 C11"),
    "C04": dict(
        text="Bounded symbolic verification: for each of the 7 T-norms and 9 S-norms the real compute() is executed on symbolic "
             "operands and the documented formula and every norm law of the statement is one SMT query over all reals in [0,1]; "
             "the add/compare-only norms are additionally decided bit-exactly over all doubles in [0,1] (z3 FloatingPoint). "
             "This covers every operand value, which the quarter-grid tables of the test-suite cannot.",
        note=NOTE_R + "Mode F: bit-exact equality with the documented formula in the documented order for every norm (exact fp.mul/fp.div for the "
             "multiplicative ones); range/commutativity in floats only for the add/compare norms (a+b-ab may exceed 1 by an ulp: not claimed).",
        ref="DESIGN.md §2 C04"),
}

NOT_APPLICABLE = {}


def main():
    props = [json.loads(l)["id"] for l in open(os.path.join(VERIF, "properties.jsonl"))]
    checks = []
    for pid in props:
        if pid not in CHECKS:
            continue
        c = CHECKS[pid]
        checks.append({
            "property_id": pid,
            "quick_cmd": f"bin/check {pid} quick",
            "thorough_cmd": f"bin/check {pid} thorough",
            "evidence_file": f"/verif/evidence/{pid}.json",
            "replay_cmd_template": f"bin/check {pid} --replay {{path}}",
            "engine": "symfl",
            "level_claimed": {"category": "other", "text": c["text"], "design_ref": c["ref"]},
            "level_note": c["note"],
            "technique": TECH,
        })
    na = []
    for pid in props:
        if pid in CHECKS:
            continue
        reason = NOT_APPLICABLE.get(pid, "check not built yet in this round (planned: symbolic harness per DESIGN.md §2); not claimed")
        na.append({"property_id": pid, "reason": reason})
    man = {
        "version": 1,
        "setup_cmd": "bin/setup.sh",
        "hooks": {
            "guard": "PYFUZZYLITE_VERIF",
            "enable": "none needed: the checks import the unmodified working tree of /repo and rebind four names in-process only "
                      "(bin/check exports PYFUZZYLITE_VERIF=1 for uniformity; no source in /repo reads it)",
            "baseline_off_cmd": "cd /repo && /venv/bin/python -m pytest -ra -q -p no:cacheprovider --timeout=900 --continue-on-collection-errors",
            "source_commits": [],
            "add_only": True,
        },
        "engines": [{
            "name": "symfl",
            "path": "/verif/symfl",
            "serves_properties": [c["property_id"] for c in checks],
            "kind_free_text": "z3-backed symbolic executor for the unmodified fuzzylite Python modules (symbolic floats/bools/ints/arrays "
                              "entering NumPy through its dispatch protocols; path explorer; SMT queries; replay on the real library)",
        }],
        "checks": checks,
        "not_applicable": na,
        "notes": "All checks: bin/check <id> <quick|thorough>; exit 0 held, 1 VIOLATION (replayed on the real code), 2 harness error. "
                 "Known findings: /verif/known_findings.json. Design: /verif/DESIGN.md.",
    }
    with open(os.path.join(VERIF, "MANIFEST.json"), "w") as f:
        json.dump(man, f, indent=1)
        f.write("\n")
    print("checks:", [c["property_id"] for c in checks], "not_applicable:", [n["property_id"] for n in na])


if __name__ == "__main__":
    main()
