#!/bin/sh
# development helper (not registered): apply every /verif/seeded/<id>/patch.diff to /repo in turn, run the quick check of
# the property it breaks, revert, and print one line per seeded change.  usage: bin/seeded_matrix.sh [id-substring] [tier]
SEL=${1:-}; TIER=${2:-quick}
cd /verif
for d in seeded/*${SEL}*/; do
  id=$(basename "$d"); prop=$(python3 -c "import json;print(json.load(open('$d/meta.json'))['property'])")
  [ -f harness/$(echo $prop | tr A-Z a-z).py ] || { echo "$id: no harness for $prop"; continue; }
  if ! git -C /repo apply "$PWD/$d/patch.diff" 2>/dev/null; then echo "$id: patch does not apply"; continue; fi
  out=$(VERIF_FAIL_FAST=1 bin/check $prop $TIER --no-evidence 2>&1); rc=$?
  git -C /repo checkout -- . 
  echo "$id: rc=$rc $(echo "$out" | grep -c '^VIOLATION') violations; $(echo "$out" | grep -m1 'violated obligation' | cut -c1-160)"
done
git -C /repo status --short
