#!/bin/sh
# development helper (not registered): apply every /verif/seeded/<id>/patch.diff in turn to a scratch worktree of /repo
# (so /repo itself and checks running against it are not disturbed), run the check of the property it breaks with
# VERIF_REPO pointing at the worktree, revert, and print one line per seeded change.
# usage: bin/seeded_matrix.sh [id-substring] [tier]
SEL=${1:-}; TIER=${2:-quick}
WT=${VERIF_WT:-/tmp/verif_seed_wt.$$}
cd /verif
git -C /repo worktree add --detach -q "$WT" HEAD || exit 2
trap 'git -C /repo worktree remove --force "$WT" 2>/dev/null; rm -rf "$WT"' EXIT INT TERM
for d in seeded/*${SEL}*/; do
  id=$(basename "$d"); prop=$(python3 -c "import json;m=json.load(open('$d/meta.json'));print(m.get('checked_by') or m['property'])")
  [ -f harness/$(echo $prop | tr A-Z a-z).py ] || { echo "$id: no harness for $prop"; continue; }
  if ! git -C "$WT" apply "$PWD/$d/patch.diff" 2>/dev/null; then echo "$id: patch does not apply"; continue; fi
  out=$(VERIF_REPO="$WT" VERIF_FAIL_FAST=1 bin/check $prop $TIER --no-evidence 2>&1); rc=$?
  git -C "$WT" checkout -q -- .
  echo "$id: rc=$rc $(echo "$out" | grep -c '^VIOLATION') violations, $(echo "$out" | grep -c 'unreproduced candidate:') unreproduced; $(echo "$out" | grep -m1 'violated obligation' | cut -c1-160)"
  echo "$out" | grep 'unreproduced candidate:' | cut -c1-260 | head -3
done
