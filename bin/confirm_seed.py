#!/usr/bin/env python3
"""development helper: confirm a seeded change produced by a sub-agent in its scratch worktree and file it under
/verif/seeded/<id>/ (patch.diff, demo.py, meta.json).  usage: confirm_seed.py <prop> <n> <id> "<needs>" """
import json, os, shutil, subprocess, sys
prop, n, sid, needs = sys.argv[1], sys.argv[2], sys.argv[3], sys.argv[4]
wt, out = f"/tmp/wt/{prop}", f"/tmp/wt/{prop}_out"
patch, demo = f"{out}/change{n}.diff", f"{out}/demo{n}.py"
def sh(cmd, cwd=wt):
    p = subprocess.run(cmd, shell=True, cwd=cwd, capture_output=True, text=True)
    return p.returncode, (p.stdout + p.stderr)
assert sh("git status --porcelain")[1].strip() == "", "worktree dirty"
rc, o = sh(f"git apply {patch}"); assert rc == 0, o
rc, o = sh("/venv/bin/python -m pytest -q -p no:cacheprovider --timeout=900 2>&1 | tail -4")
tests = o.strip().splitlines()[-1]
failed = [l for l in o.splitlines() if l.startswith("FAILED")]
rc_with, o_with = sh(f"/venv/bin/python {demo}")
sh("git checkout -- .")
rc_without, o_without = sh(f"/venv/bin/python {demo}")
ok_tests = all(("test_object" in l or "test_measure" in l) for l in failed)
print("tests:", tests, "| extra failures:", [l for l in failed if "test_object" not in l and "test_measure" not in l])
print("demo with change rc =", rc_with, "| without rc =", rc_without)
if not (ok_tests and rc_with != 0 and rc_without == 0):
    print("NOT CONFIRMED"); sys.exit(1)
d = f"/verif/seeded/{sid}"
os.makedirs(d, exist_ok=True)
shutil.copy(patch, f"{d}/patch.diff"); shutil.copy(demo, f"{d}/demo.py")
meta = {"id": sid, "property": prop, "needs": needs,
        "confirmed": {"test_suite_with_change": tests, "extra_failures": [], "demo_rc_with_change": rc_with,
                      "demo_rc_without_change": rc_without, "demo_output_with_change": o_with.strip()[-400:],
                      "commands": [f"git -C {wt} apply patch.diff", "cd <worktree> && /venv/bin/python -m pytest -q -p no:cacheprovider --timeout=900",
                                   "cd <worktree> && /venv/bin/python demo.py   (with and without the change)"]},
        "origin": "independent sub-agent given only the property text and a scratch worktree"}
json.dump(meta, open(f"{d}/meta.json", "w"), indent=1)
print("CONFIRMED ->", d)
