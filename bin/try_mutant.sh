#!/bin/sh
# usage: bin/try_mutant.sh <patch> <Cxx> [tier] [extra args]   -- development helper: apply, check, always revert
P=$1; C=$2; T=${3:-quick}; shift; shift; shift 2>/dev/null
git -C /repo apply "$P" || { echo "patch does not apply"; exit 3; }
cd /verif && VERIF_SHOW=4 bin/check $C $T --no-evidence "$@" 2>&1 | cut -c1-300 | grep -v "^WARNING conda" | head -${LINES_MAX:-14}
git -C /repo checkout -- . ; git -C /repo status --short
