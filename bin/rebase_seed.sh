#!/bin/sh
# development helper: re-create seeded/<id>/patch.diff against /repo's current HEAD (after a fix: commit changed its context)
# and re-confirm it (suite unchanged, demo fails with / passes without).  usage: bin/rebase_seed.sh <id>
set -e
ID=$1; D=/verif/seeded/$ID; WT=/tmp/wt/rebase_$$
git -C /repo worktree add --detach $WT HEAD -q
cd $WT
patch -p1 --fuzz=3 -s < $D/patch.diff || { echo "cannot rebase"; cd /; git -C /repo worktree remove --force $WT; exit 1; }
find . -name '*.orig' -delete
git diff > /tmp/rebased_$$.diff
T=$(/venv/bin/python -m pytest -q -p no:cacheprovider --timeout=900 2>&1 | tail -1)
F=$(/venv/bin/python -m pytest -q -p no:cacheprovider --timeout=900 2>&1 | grep '^FAILED' | grep -v 'test_object\|test_measure' || true)
set +e
cp $D/demo.py ./_demo.py; /venv/bin/python ./_demo.py >/dev/null 2>&1; RW=$?
git checkout -q -- .; true
cp $D/demo.py ./_demo.py; /venv/bin/python ./_demo.py >/dev/null 2>&1; RO=$?
cd /; git -C /repo worktree remove --force $WT
echo "$ID: tests: $T | extra failures: [$F] | demo with=$RW without=$RO"
if [ -z "$F" ] && [ $RW -ne 0 ] && [ $RO -eq 0 ]; then cp /tmp/rebased_$$.diff $D/patch.diff; echo "REBASED+CONFIRMED"; else echo "NOT CONFIRMED"; fi
rm -f /tmp/rebased_$$.diff
