#!/usr/bin/env python3
"""development helper (not registered): turn the log of bin/seeded_matrix.sh into the table of DESIGN.md section 6.5.
usage: bin/seeded_table.py <matrix.log> [--write]      (--write replaces the table between the markers in DESIGN.md)"""
import json
import os
import re
import sys

HERE = os.path.dirname(os.path.dirname(os.path.abspath(__file__)))
BEGIN, END = "<!-- seeded-table:begin -->", "<!-- seeded-table:end -->"
OUTSIDE = {"C17-min-max-as-fmin-fmax": "**outside the claim**: NaN operands of `min`/`max` are not documented (assumed away, listed in the evidence)",
           "C03-scalar-fast-path-keeps-float32": "**missed** (documented: dtypes other than float64 are outside the model)",
           "C05-very-keeps-caller-dtype": "**missed** (documented: dtypes other than float64 are outside the model)",
           "C11-ramp-keeps-array-dtype": "**missed** (documented: dtypes other than float64 are outside the model)",
           "C15-discrete-row-fast-path-bare-inf": "**missed** (documented: concrete infinities inside a symbolic array are written by the shim itself)",
           "C15-repr-float-fifteen-digits": "**missed** (documented: digit-level rendering is outside the model)"}
THOROUGH_ONLY = {"C05-seldom-large-array-strict-masks": "thorough tier (`seldom/R/large`: a 16385-element array, about a minute per hedge)",
                 "C11-sigmoid-reciprocal-height-log-zero": "thorough tier only, and only on an idle machine (`Sigmoid/F/finite/exact`, a query of about 10 min; under load it ends inconclusive, which the check reports as such)"}


def main():
    log = open(sys.argv[1]).read().splitlines()
    res = {}
    for ln in log:
        m = re.match(r"^(C\d\d-[\w.-]+): rc=(\d+) (\d+) violations, (\d+) unreproduced;\s*(.*)$", ln)
        if not m:
            continue
        sid, rc, nv, nu, rest = m.groups()
        ob = re.search(r"violated obligation ([^:]+):", rest)
        res[sid] = (int(rc), int(nv), ob.group(1).strip() if ob else None)
    rows = ["| seeded change | needs | caught by (quick) |", "|---|---|---|"]
    missed = []
    for sid in sorted(os.listdir(os.path.join(HERE, "seeded"))):
        mp = os.path.join(HERE, "seeded", sid, "meta.json")
        if not os.path.exists(mp):
            continue
        meta = json.load(open(mp))
        needs = " ".join(str(meta.get("needs", "")).split()).replace("|", "/")
        if len(needs) > 230:
            needs = needs[:227] + "..."
        rc, nv, ob = res.get(sid, (None, 0, None))
        if sid in THOROUGH_ONLY:
            caught = THOROUGH_ONLY[sid]
            missed.append(sid)
        elif sid in OUTSIDE and rc != 1:
            caught = OUTSIDE[sid]
            missed.append(sid)
        elif rc == 1 and ob:
            caught = f"`{ob}`"
        elif sid in THOROUGH_ONLY:
            caught = THOROUGH_ONLY[sid]
            missed.append(sid)
        elif rc is None:
            caught = "(not run)"
        elif rc == 2:
            caught = "**not decided** (exit 2: the changed code leaves the modelled NumPy surface or the candidate does not replay; documented)"
            missed.append(sid)
        else:
            caught = "**missed** (documented)"
            missed.append(sid)
        rows.append(f"| {sid} | {needs} | {caught} |")
    table = "\n".join(rows)
    if "--write" in sys.argv:
        p = os.path.join(HERE, "DESIGN.md")
        s = open(p).read()
        a, b = s.index(BEGIN) + len(BEGIN), s.index(END)
        open(p, "w").write(s[:a] + "\n" + table + "\n" + s[b:])
    else:
        print(table)
    print(f"{len(rows) - 2} changes, {len(missed)} not caught in the quick tier: {missed}", file=sys.stderr)


if __name__ == "__main__":
    main()
