#!/usr/bin/env python3
"""development helper: confirm a seeded change that a sub-agent left in its scratch worktree (patch.diff, demo.py in the
worktree root) and file it under /verif/seeded/<id>/.  usage: confirm_seed2.py <prop> <worktree> <id> "<needs>" """
import json, os, shutil, subprocess, sys
prop, wt, sid, needs = sys.argv[1:5]
def sh(cmd, cwd=wt):
    p = subprocess.run(cmd, shell=True, cwd=cwd, capture_output=True, text=True)
    return p.returncode, (p.stdout + p.stderr)
shutil.copy(f"{wt}/patch.diff", "/tmp/_patch.diff"); shutil.copy(f"{wt}/demo.py", "/tmp/_demo.py")
sh("git checkout -q -- .")
assert [l for l in sh("git status --porcelain")[1].splitlines() if not l.startswith("??")] == [], "worktree dirty"
rc, o = sh("git apply /tmp/_patch.diff"); assert rc == 0, o
rc, o = sh("/venv/bin/python -m pytest -q -p no:cacheprovider --timeout=900 2>&1 | tail -6")
tests = o.strip().splitlines()[-1]
failed = [l for l in o.splitlines() if l.startswith("FAILED")]
rc_with, o_with = sh("/venv/bin/python demo.py")
sh("git checkout -q -- .")
rc_without, o_without = sh("/venv/bin/python demo.py")
extra = [l for l in failed if "test_object" not in l and "test_measure" not in l]
print("tests:", tests, "| extra failures:", extra)
print("demo with change rc =", rc_with, "| without rc =", rc_without)
if extra or rc_with == 0 or rc_without != 0:
    print("NOT CONFIRMED\n", o_with[-600:], "\n---\n", o_without[-600:]); sys.exit(1)
d = f"/verif/seeded/{sid}"
os.makedirs(d, exist_ok=True)
shutil.copy("/tmp/_patch.diff", f"{d}/patch.diff"); shutil.copy("/tmp/_demo.py", f"{d}/demo.py")
meta = {"id": sid, "property": prop, "needs": needs,
        "confirmed": {"test_suite_with_change": tests, "extra_failures": [], "demo_rc_with_change": rc_with,
                      "demo_rc_without_change": rc_without, "demo_output_with_change": o_with.strip()[-400:],
                      "commands": ["git -C <worktree> apply patch.diff", "cd <worktree> && /venv/bin/python -m pytest -q -p no:cacheprovider --timeout=900",
                                   "cd <worktree> && /venv/bin/python demo.py   (with and without the change)"]},
        "origin": "independent sub-agent given only the property text and a scratch worktree"}
json.dump(meta, open(f"{d}/meta.json", "w"), indent=1)
print("CONFIRMED ->", d)
