#!/bin/sh
# Build the overlay interpreter the checks run in (offline; idempotent; safe under concurrency).
# /verif/.venv = venv of /venv's python + a .pth that exposes /venv's site-packages (NumPy 1.26.4, the
# version the test-suite uses) + z3-solver from the offline wheelhouse.  /repo is NOT put on the path
# here: every check inserts /repo itself at run time so the current working tree is what gets imported.
set -e
V=/verif/.venv
LOCK=/verif/.venv.lock
exec 9>"$LOCK"
flock 9
if [ -x "$V/bin/python" ] && "$V/bin/python" -c "import z3, numpy" 2>/dev/null; then
  exit 0
fi
rm -rf "$V"
/venv/bin/python -m venv "$V"
SP=$("$V/bin/python" -c "import sysconfig; print(sysconfig.get_paths()['purelib'])")
echo "/venv/lib/python3.12/site-packages" > "$SP/_overlay.pth"
PIP_NO_INDEX=1 "$V/bin/pip" install -q --no-index --find-links /opt/veriftools/wheels z3-solver >/dev/null
"$V/bin/python" -c "import z3, numpy; print('setup ok: z3', z3.get_version_string(), 'numpy', numpy.__version__)"
